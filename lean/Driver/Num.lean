import Driver.Wire
import Marwood.Num.Arith
import Marwood.Num.Cmp
import Marwood.Spec.Rat
import Marwood.Num.Eqv
import Marwood.Spec.NumEqv
/-!
Driver commands of the Num area (C08, C09).

* `num <op> <a> [<b>]`, `num pow <a> <e>`  — model of the direct `Number` API
* `scm <proc> <a1> … <an>`                — model of the Scheme-level procedure
* `spec <request…> => <response…>`        — judgement of an answer against ℚ (`conforms`,
  `violates <why>`, `outside <why>`)
* `eqv <a> <b>`      — C14: model (`Eqv.eqvNum`, the number arm of `Vm::eqv`) of the eight forms
  `(eqv? a b)`, `(equal? a b)`, `(equal? (list 1 a) (list 1 b))`, `(equal? (vector a) (vector b))`,
  `(memv a (list b))`, `(member a (list b))`, `(assv a (list (cons b 1)))`, `(assoc a (list (cons b 1)))`
  as truth values: `ok` followed by eight `b0|b1`
* `eqvspec <a> <b>`  — the same eight forms with the leaf test `NumSpec.eqvSpecB` (R7RS 6.1);
  `outside nan-nan` when both operands are NaN (unspecified by R7RS)

Answers: `ok <num>` | `ok b0|b1` | `err <class>` | `panic`; NaN results are canonical.
-/
namespace Marwood.Driver.Num
open Marwood Marwood.Wire Marwood.Arith

def showNum (n : Marwood.Num) : String :=
  match n with
  | .flo f => encNum (.flo (Fl.canon f))
  | _ => encNum n

def showOutcome : Outcome Marwood.Num → String
  | .ok n => "ok " ++ showNum n
  | .err c => "err " ++ c
  | .panic _ => "panic"

def showOptOutcome : Outcome (Option Marwood.Num) → String
  | .ok (some n) => "ok " ++ showNum n
  | .ok none => "err none"
  | .err c => "err " ++ c
  | .panic _ => "panic"

def showBool (b : Bool) : String := if b then "ok b1" else "ok b0"

def showBoolOutcome : Outcome Bool → String
  | .ok b => showBool b
  | .err c => "err " ++ c
  | .panic _ => "panic"

def decArgs (ws : List String) : Option (List Marwood.Num) := ws.mapM decNum

/-! ## model -/

def modelNum (op : String) (args : List String) : Option String :=
  match op, args with
  | "pow", [a, e] => do
    let a ← decNum a
    let e ← e.toNat?
    (pow a e).map fun r => "ok " ++ showNum r
  | _, [a, b] => do
    let a ← decNum a
    let b ← decNum b
    match op with
    | "add" => some ("ok " ++ showNum (add a b))
    | "sub" => some ("ok " ++ showNum (sub a b))
    | "mul" => some ("ok " ++ showNum (mul a b))
    | "div" => some (showOutcome (div a b))
    | "quotient" => (quotient a b).map showOptOutcome
    | "rem" => (rem a b).map showOptOutcome
    | "modulo" => (modulo a b).map showOptOutcome
    | "eq" => some (showBool (Cmp.eq a b))
    | "lt" => some (showBool (Cmp.lt a b))
    | "gt" => some (showBool (Cmp.gt a b))
    | "le" => some (showBool (Cmp.le a b))
    | "ge" => some (showBool (Cmp.ge a b))
    | _ => none
  | _, [a] => do
    let a ← decNum a
    let r ← match op with
      | "abs" => abs a
      | "floor" => floor a
      | "ceil" => ceil a
      | "trunc" => truncate a
      | "round" => round a
      | "numer" => numerator a
      | "denom" => denominator a
      | _ => none
    pure ("ok " ++ showNum r)
  | _, _ => none

def modelScm (proc : String) (args : List Marwood.Num) : Option String :=
  match proc with
  | "+" => some (showOutcome (scmPlus args))
  | "-" => some (showOutcome (scmMinus args))
  | "*" => some (showOutcome (scmTimes args))
  | "/" => some (showOutcome (scmDivide args))
  | "quotient" => (scmQuotient args).map showOutcome
  | "remainder" => (scmRemainder args).map showOutcome
  | "modulo" => (scmModulo args).map showOutcome
  | "abs" => (scmUnary abs args).map showOutcome
  | "floor" => (scmUnary floor args).map showOutcome
  | "ceiling" => (scmUnary ceil args).map showOutcome
  | "truncate" => (scmUnary truncate args).map showOutcome
  | "round" => (scmUnary round args).map showOutcome
  | "numerator" => (scmUnary numerator args).map showOutcome
  | "denominator" => (scmUnary denominator args).map showOutcome
  | "expt" => (scmExpt args).map showOutcome
  | "=" => some (showBoolOutcome (Cmp.scmEq args))
  | "<" => some (showBoolOutcome (Cmp.scmLt args))
  | ">" => some (showBoolOutcome (Cmp.scmGt args))
  | "<=" => some (showBoolOutcome (Cmp.scmLe args))
  | ">=" => some (showBoolOutcome (Cmp.scmGe args))
  | "zero?" => some (showBoolOutcome (Cmp.scmPred Cmp.isZero args))
  | "positive?" => some (showBoolOutcome (Cmp.scmPred Cmp.isPositive args))
  | "negative?" => some (showBoolOutcome (Cmp.scmPred Cmp.isNegative args))
  | "min" => some (showOutcome (Cmp.scmMin args))
  | "max" => some (showOutcome (Cmp.scmMax args))
  | _ => none

/-! ## specification -/
open Marwood.NumSpec

inductive Resp
  | num (n : Marwood.Num)
  | bool (b : Bool)
  | err
  | panic

def decResp : List String → Option Resp
  | ["ok", "b1"] => some (.bool true)
  | ["ok", "b0"] => some (.bool false)
  | ["ok", w] => (decNum w).map .num
  | "err" :: _ => some .err
  | ["panic"] => some .panic
  | _ => none

/-- what the property demands of a question -/
inductive Demand
  | value (r : Rat) (mags : List Rat) (mustBeExact : Bool)   -- C08: this exact value
  | error                                                     -- the call has no value: an error, not a crash
  | truth (b : Bool)                                          -- C09: this boolean
  | extreme (target : Ext) (args : List Ext)                  -- C09: an argument with this value
  | outside (why : String)                                    -- not quantified over by the property

def exactVals (args : List Marwood.Num) : Option (List Rat) :=
  args.mapM fun a => if isExact a then val a else none

def mags (vs : List Rat) : List Rat := vs.map absR

/-- canonical arithmetic names: the direct API and the procedures share one table -/
def canonOp : String → String
  | "add" => "+" | "sub" => "-" | "mul" => "*" | "div" => "/"
  | "rem" => "remainder" | "ceil" => "ceiling" | "trunc" => "truncate"
  | "numer" => "numerator" | "denom" => "denominator"
  | "eq" => "=" | "lt" => "<" | "gt" => ">" | "le" => "<=" | "ge" => ">="
  | s => s

def demandArith (direct : Bool) (op : String) (vs : List Rat) : Option Demand :=
  let v (r : Rat) (ex : Bool := false) : Option Demand := some (.value r (mags vs) ex)
  let opt (r : Option Rat) (ex : Bool := false) : Option Demand :=
    match r with
    | some r => some (.value r (mags vs) ex)
    | none => some .error
  match op, vs with
  | "+", _ => if direct && vs.length != 2 then none else v (vs.foldl (· + ·) 0)
  | "*", _ => if direct && vs.length != 2 then none else v (vs.foldl (· * ·) 1)
  | "-", [] => some .error
  | "-", [a] => v (-a)
  | "-", a :: rest => v (a - rest.foldl (· + ·) 0)
  | "/", [y] => if direct then none else opt (specDiv 1 y)
  | "/", [x, y] => opt (specDiv x y)
  | "/", _ => some .error
  | "quotient", [x, y] => opt (specQuotient x y) true
  | "remainder", [x, y] => opt (specRemainder x y) true
  | "modulo", [x, y] => opt (specModulo x y) true
  | "abs", [x] => v (absR x)
  | "floor", [x] => v (specFloor x) true
  | "ceiling", [x] => v (specCeil x) true
  | "truncate", [x] => v (specTrunc x) true
  | "numerator", [x] => v (x.num : Int) true
  | "denominator", [x] => v (x.den : Nat) true
  | "quotient", _ => some .error
  | "remainder", _ => some .error
  | "modulo", _ => some .error
  | "abs", _ => some .error
  | "floor", _ => some .error
  | "ceiling", _ => some .error
  | "truncate", _ => some .error
  | "numerator", _ => some .error
  | "denominator", _ => some .error
  | "expt", [x, e] =>
    if e.den == 1 && 0 ≤ e.num && e.num ≤ 4294967295 then v (x ^ e.num.toNat)
    else some (.outside "exponent-not-a-u32")
  | "expt", _ => some .error
  | _, _ => none

def demandCmp (op : String) (es : List Ext) : Option Demand :=
  let zero : Ext := .fin 0
  match op, es with
  | "zero?", [x] => some (.truth (x == zero))
  | "positive?", [x] => some (.truth (Ext.lt zero x))
  | "negative?", [x] => some (.truth (Ext.lt x zero))
  | "zero?", _ => some .error
  | "positive?", _ => some .error
  | "negative?", _ => some .error
  | "min", a :: b :: rest =>
    some (.extreme ((b :: rest).foldl (fun m x => if Ext.lt x m then x else m) a) es)
  | "max", a :: b :: rest =>
    some (.extreme ((b :: rest).foldl (fun m x => if Ext.lt m x then x else m) a) es)
  | "min", _ => some .error
  | "max", _ => some .error
  | _, [] => if ["=", "<", ">", "<=", ">="].contains op then some .error else none
  | _, _ =>
    match op with
    | "=" => some (.truth (chain (· == ·) es))
    | "<" => some (.truth (chain Ext.lt es))
    | ">" => some (.truth (chain (fun a b => Ext.lt b a) es))
    | "<=" => some (.truth (chain Ext.le es))
    | ">=" => some (.truth (chain (fun a b => Ext.le b a) es))
    | _ => none

def isCmpOp (op : String) : Bool :=
  ["=", "<", ">", "<=", ">=", "zero?", "positive?", "negative?", "min", "max"].contains op

def demand (direct : Bool) (op : String) (args : List Marwood.Num) : Option Demand :=
  let op := canonOp op
  if isCmpOp op then
    match args.mapM ext with
    | some es => demandCmp op es
    | none => some (.outside "nan-operand")
  else
    match exactVals args with
    | some vs => demandArith direct op vs
    | none => some (.outside "inexact-operand")

def judge (d : Demand) (r : Resp) : Verdict :=
  match d, r with
  | .outside w, _ => .outside w
  | _, .panic => .violates "panic"
  | .error, .err => .conforms
  | .error, _ => .violates "value-where-no-value-exists"
  | .value _ _ _, .err => .violates "error-on-defined-operation"
  | .value r m ex, .num x => judgeValue r m ex x
  | .value _ _ _, .bool _ => .violates "boolean-for-number"
  | .truth _, .err => .violates "error-on-defined-comparison"
  | .truth b, .bool c => if b == c then .conforms else .violates "wrong-truth-value"
  | .truth _, .num _ => .violates "number-for-boolean"
  | .extreme _ _, .err => .violates "error-on-defined-operation"
  | .extreme t _, .num x =>
    match ext x with
    | some e => if e == t then .conforms else .violates "not-the-extreme-value"
    | none => .violates "nan-result"
  | .extreme _ _, .bool _ => .violates "boolean-for-number"

def splitArrow : List String → List String → Option (List String × List String)
  | _, [] => none
  | acc, "=>" :: rest => some (acc.reverse, rest)
  | acc, w :: rest => splitArrow (w :: acc) rest

def specCmd (args : List String) : Option String := do
  let (req, resp) ← splitArrow [] args
  let r ← decResp resp
  match req with
  | "num" :: "pow" :: [a, e] =>
    let a ← decNum a
    let e ← e.toNat?
    let d ← demand true "expt" [a, .fix e]
    pure (judge d r).show
  | "num" :: op :: ws =>
    let xs ← decArgs ws
    let d ← demand true op xs
    pure (judge d r).show
  | "scm" :: proc :: ws =>
    let xs ← decArgs ws
    let d ← demand false proc xs
    pure (judge d r).show
  | _ => none

/-! ## C14: `eqv?` / `equal?` / `memv` … on two numbers -/

/-- the eight forms of the stream `eqv-numbers`, each through its own definition, for a leaf test -/
def eqvForms (test : Marwood.Num → Marwood.Num → Bool) (a b : Marwood.Num) : List Bool :=
  let eq (x y : Marwood.Num) : Bool := NTree.equal test (.num x) (.num y)
  [ test a b,
    eq a b,
    NTree.equal test (NTree.list [.num (.fix 1), .num a]) (NTree.list [.num (.fix 1), .num b]),
    NTree.equal test (.vec [.num a]) (.vec [.num b]),
    memTest test a b,
    memTest eq a b,
    assTest test a b,
    assTest eq a b ]

def showForms (bs : List Bool) : String :=
  "ok" ++ String.join (bs.map fun b => if b then " b1" else " b0")

def eqvCmd (spec : Bool) (a b : String) : Option String := do
  let a ← decNum a
  let b ← decNum b
  if spec then
    if bothNaN a b then pure "outside nan-nan"
    else pure (showForms (eqvForms eqvSpecB a b))
  else pure (showForms (eqvForms Eqv.eqvNum a b))

def handle (cmd : String) (args : List String) : Option String :=
  match cmd, args with
  | "eqv", [a, b] => eqvCmd false a b
  | "eqvspec", [a, b] => eqvCmd true a b
  | "num", op :: rest => modelNum op rest
  | "scm", proc :: rest => do
    let xs ← decArgs rest
    modelScm proc xs
  | "spec", _ => specCmd args
  | _, _ => none

end Marwood.Driver.Num
