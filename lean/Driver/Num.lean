import Driver.Wire
/-! Driver commands of the Num area (filled in by the area's owner). -/
namespace Marwood.Driver.Num

def handle (_cmd : String) (_args : List String) : Option String := none

end Marwood.Driver.Num
