import Driver.Eval
import Marwood.Spec.EvalK
/-! Driver command of the CPS specification with first-class continuations (C05).

`spec-evalk <steps> <tag> <form-text>…` — `<steps>` = machine steps allowed per top-level form, `<tag>` =
the generator's distribution tag (ignored here); every further argument is the wire text of one top-level
form, read with the reader model and evaluated by `Spec.EvalK` in a fresh instance. Answer: as
`eval-session`: per-form `ok <datum>` / `err <class>` / `timeout` joined by ` | `, then ` || ` and the
output log. `timeout` = no outcome within the steps (no verdict). -/
namespace Marwood.Driver.EvalK
open Marwood Marwood.Wire Marwood.Spec.Eval Marwood.Spec.EvalK Marwood.Driver.Eval

def showSessionK (fuel : Nat) (forms : List Datum) : String :=
  let (rs, fin) := runSessionK fuel forms initSess
  let out := match fin with
    | some s => s.σ.out.map fun (w, d) => (if w then "w:" else "d:") ++ encDatum d
    | none => ["?"]
  " | ".intercalate (rs.map showRes) ++ " || " ++ " ".intercalate out

def handle (args : List String) : Option String :=
  match args with
  | fuel :: _tag :: forms => do
    let n ← fuel.toNat?
    let ds ← forms.mapM readForm
    pure (showSessionK n ds)
  | _ => none

end Marwood.Driver.EvalK
