import Marwood.Vm.Verify
import Driver.VmStep
import Driver.VmCompile
/-! `vbc <cells>`: run the bytecode verifier on one code object dumped from the real heap (answer:
kind, maximal number of temporaries, number of argument cells its `BasePointerOffset` operands address);
`vat <cells> <offset>`: the number of temporaries the verifier assigns to an instruction offset. -/
namespace Marwood.Driver.VmVerify
open Marwood.Vm Marwood.Vm.Verify

/-- a cell of the compiler model's bytecode as a machine cell, as far as the verifier looks at it -/
def bcCell : BC → VCell
  | .op o => .opcode o
  | .acc => .acc
  | .global _ => .globSlot 0
  | .envSlot _ => .lexEnvSlot 0
  | .bpOffset i => .bpOffset i
  | .argc n => .argc n
  | .target o => .ptr o
  | .void => .void
  | .datum _ | .newVector | .lambda _ => .ptr 0

def handle (cmd : String) (args : List String) : Option String :=
  match cmd, args with
  | "vcompile", args => do
      -- the compiler MODEL's output through the verifier: every code object it produces for the form
      let (d, rest) ← Marwood.Wire.decDatum args
      if !rest.isEmpty then none else
      pure (match compileTop d (4 * VmCompile.datumSize d + 16) with
        | .error _ => "err"
        | .ok (st, l) =>
          let all := l :: st.lambdas
          match all.findSome? (fun (lam : LambdaM) =>
              match verify (lam.bc.map bcCell) with
              | .ok (t, _) => if t.entry then some "reject 0 not-procedure-code" else none
              | .error r => some s!"reject {r.off} {r.why.replace " " "-"}") with
          | some r => r
          | none => s!"ok {all.length}")
  | "vbc", [cells] => do
      let bc ← VmStep.decCells cells
      pure (match verify bc with
        | .ok (t, h) => s!"ok {if t.entry then "entry" else "proc"} {h} {argNeed bc}"
        | .error r => s!"reject {r.off} {r.why.replace " " "-"}")
  | "vat", [cells, off] => do
      let bc ← VmStep.decCells cells
      let o ← off.toNat?
      pure (match verify bc with
        | .ok (t, _) =>
          match stateAt t.tm o with
          | some .pre => "ok pre"
          | some (.body a) => s!"ok {a.length}"
          | some (.call a) => s!"ok {a.length}"
          | none => "reject-offset"
        | .error r => s!"reject {r.off} {r.why.replace " " "-"}")
  | _, _ => none

end Marwood.Driver.VmVerify
