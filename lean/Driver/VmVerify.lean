import Marwood.Vm.Verify
import Marwood.Vm.Encode
import Driver.VmStep
import Driver.VmCompile
/-! `vbc <cells>`: run the bytecode verifier on one code object dumped from the real heap (answer:
kind, maximal number of temporaries, number of argument cells its `BasePointerOffset` operands address);
`vat <cells> <offset>`: the number of temporaries the verifier assigns to an instruction offset;
`vcompile <datum>`: the compiler MODEL's output for a form (every code object, canonically loaded by
`Vm.encodeLam`) through the verifier. -/
namespace Marwood.Driver.VmVerify
open Marwood.Vm Marwood.Vm.Verify

def handle (cmd : String) (args : List String) : Option String :=
  match cmd, args with
  | "vcompile", args => do
      -- the compiler MODEL's output through the verifier: every code object it produces for the form
      let (d, rest) ← Marwood.Wire.decDatum args
      if !rest.isEmpty then none else
      -- `Vm.verifyCompiled` = `verify (encodeLam ·)` of every code object of `compileRunnable` (the table, the
      -- top-level lambda, the entry lambda): the executable form of theorem `compile_verifies` (Proofs/C04)
      pure (match verifyCompiled d (4 * VmCompile.datumSize d + 16) with
        | .error _ => "err"
        | .ok (.error r) => s!"reject {r.off} {r.why.replace " " "-"}"
        | .ok (.ok n) => s!"ok {n}")
  | "vbc", [cells] => do
      let bc ← VmStep.decCells cells
      pure (match verify bc with
        | .ok (t, h) => s!"ok {if t.entry then "entry" else "proc"} {h} {argNeed bc}"
        | .error r => s!"reject {r.off} {r.why.replace " " "-"}")
  | "vat", [cells, off] => do
      let bc ← VmStep.decCells cells
      let o ← off.toNat?
      pure (match verify bc with
        | .ok (t, _) =>
          match stateAt t.tm o with
          | some .pre => "ok pre"
          | some (.body a) => s!"ok {a.length}"
          | some (.call a) => s!"ok {a.length}"
          | none => "reject-offset"
        | .error r => s!"reject {r.off} {r.why.replace " " "-"}")
  | _, _ => none

end Marwood.Driver.VmVerify
