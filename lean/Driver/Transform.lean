import Driver.Wire
/-! Driver commands of the Transform area (filled in by the area's owner). -/
namespace Marwood.Driver.Transform

def handle (_cmd : String) (_args : List String) : Option String := none

end Marwood.Driver.Transform
