import Driver.Wire
import Marwood.Transform.Model
import Marwood.Spec.Match
/-!
Driver commands of the Transform area (C17).

* `tr-def <datum>`                 model `Transform.tryNew`            → `ok` | `err <class>` | `panic` | `hang`
* `tr-use <def datum> <use datum>` model `tryNew` then `transform`     → `def-err` | `ok <datum>` | `err <class>` | `panic` | `hang`
* `tr-use-vm <def> <use>`          same as `tr-use` (the harness went through `define-syntax` in a `Vm`)
* `tr-gap <def> <use>`             `gap` | `nogap`: does some rule meet `Spec.Match.zeroRepTail` on this use
* `spec-tr-use <def> <use>`        R7RS spec (`Spec.Match`)            → `ok <datum>` | `nomatch` | `mismatch` | `malformed` | `malformed-def`
The two datums travel in one token list (prefix code, so the boundary is unambiguous).
-/
namespace Marwood.Driver.Transform
open Marwood Marwood.Wire Marwood.Transform

def errName : TErr → String
  | .syntax => "syntax"
  | .pair => "pair"

def showRes {α} (f : α → String) : Res α → String
  | .ok a => f a
  | .err e => "err " ++ errName e
  | .panic _ => "panic"
  | .fuel => "hang"

def dec2 (args : List String) : Option (Datum × Datum) := do
  let (d, rest) ← decDatum args
  let (u, rest) ← decDatum rest
  if rest.isEmpty then pure (d, u) else none

def handle (cmd : String) (args : List String) : Option String :=
  match cmd with
  | "tr-def" => do
    let (d, rest) ← decDatum args
    if !rest.isEmpty then none
    else pure (showRes (fun _ => "ok") (Transform.tryNew (defFuel d) d))
  | "tr-gap" => do
    -- decidable guard of the `_partial` theorems / predicate of finding C17-empty-ellipsis-before-tail
    let (d, u) ← dec2 args
    match Spec.Match.parseDef d with
    | none => pure "malformed-def"
    | some rs => pure (if rs.rules.any (fun r => Spec.Match.zeroRepTailRule rs.ctx r u) then "gap" else "nogap")
  | "tr-use" | "tr-use-vm" => do
    let (d, u) ← dec2 args
    match Transform.tryNew (defFuel d) d with
    | .ok t => pure (showRes (fun e => "ok " ++ encDatum e) (t.transform (useFuel d u) u))
    | .err _ => pure "def-err"
    | .panic _ => pure "def-panic"
    | .fuel => pure "def-hang"
  | "spec-tr-use" => do
    let (d, u) ← dec2 args
    match Spec.Match.parseDef d with
    | none => pure "malformed-def"
    | some rs =>
      pure (match Spec.Match.specExpand rs.ctx rs.rules u with
        | .ok e => "ok " ++ encDatum e
        | .noMatch => "nomatch"
        | .mismatch => "mismatch"
        | .malformed => "malformed")
  | _ => none

end Marwood.Driver.Transform
