import Driver.Wire
import Marwood.Transform.Model
import Marwood.Spec.Match
import Marwood.Transform.Driver
import Marwood.Spec.ExpandAll
import Marwood.Gen.Prelude
/-!
Driver commands of the Transform area (C17).

* `tr-def <datum>`                 model `Transform.tryNew`            → `ok` | `err <class>` | `panic` | `hang`
* `tr-use <def datum> <use datum>` model `tryNew` then `transform`     → `def-err` | `ok <datum>` | `err <class>` | `panic` | `hang`
* `tr-use-vm <def> <use>`          same as `tr-use` (the harness went through `define-syntax` in a `Vm`)
* `tr-gap <def> <use>`             `gap` | `nogap`: does some rule meet `Spec.Match.zeroRepTail` on this use
* `spec-tr-use <def> <use>`        R7RS spec (`Spec.Match`)            → `ok <datum>` | `nomatch` | `mismatch` | `malformed` | `malformed-def`
The two datums travel in one token list (prefix code, so the boundary is unambiguous).

The expansion driver (`Vm::transform`, T17.3), in a `Vm` that has loaded the prelude and then evaluated `k`
top-level `define-syntax` forms:
* `tr-expand <k> <def>… <form>`              model `Transform.expandForm` (table: prelude macros, then the accepted
                                              definitions, later ones first) → `D<k bits> ok <datum>` | `D<bits> err <class>` |
                                              `D<bits> panic` | `hang`; bit i = definition i was accepted
* `spec-tr-expand <bits> <k> <def>… <form>`  R7RS `Spec.ExpandAll.specExpandAll`; only the definitions the implementation
                                              accepted (`bits`) are installed (rejecting a definition is always allowed)
                                              → `D<bits> ok <datum>` | `D<bits> nomatch|mismatch|malformed` | `hang`
* `tr-expand-why <bits> <k> <def>… <form>`   which test of `Spec.ExpandAll.expandGuard` excludes the form:
                                              `ok` | `use` | `binding` | `template`
-/
namespace Marwood.Driver.Transform
open Marwood Marwood.Wire Marwood.Transform

def errName : TErr → String
  | .syntax => "syntax"
  | .pair => "pair"

def showRes {α} (f : α → String) : Res α → String
  | .ok a => f a
  | .err e => "err " ++ errName e
  | .panic _ => "panic"
  | .fuel => "hang"

def dec2 (args : List String) : Option (Datum × Datum) := do
  let (d, rest) ← decDatum args
  let (u, rest) ← decDatum rest
  if rest.isEmpty then pure (d, u) else none

/-- nested expansions the driver commands allow before answering `hang` -/
def expandFuel : Nat := 200

/-- the macros of `prelude.scm`, in file order (a keyword defined twice: the later definition wins) -/
def preludeTable : MacroTable := tableOf (Gen.Prelude.macros.map (·.2))

def installSpec (T : Spec.ExpandAll.STable) (d : Datum) : Spec.ExpandAll.STable :=
  match d, Spec.Match.parseDef d with
  | .pair _ (.pair (.sym k) _), some rs => (k, rs) :: T
  | _, _ => T

def preludeSpecTable : Spec.ExpandAll.STable := (Gen.Prelude.macros.map (·.2)).foldl installSpec []

def decN : Nat → List String → Option (List Datum × List String)
  | 0, rest => some ([], rest)
  | n + 1, args => do
    let (d, rest) ← decDatum args
    let (ds, rest) ← decN n rest
    pure (d :: ds, rest)

/-- `<k> <def>… <form>` -/
def decSession (args : List String) : Option (List Datum × Datum) :=
  match args with
  | k :: rest => do
    let k ← k.toNat?
    if k > 64 then none else
    let (defs, rest) ← decN k rest
    let (form, rest) ← decDatum rest
    if rest.isEmpty then pure (defs, form) else none
  | [] => none

def bitsOf (bs : List Bool) : String := "D" ++ String.ofList (bs.map fun b => if b then '1' else '0')

def decBits (s : String) (k : Nat) : Option (List Bool) :=
  match s.toList with
  | 'D' :: cs =>
    if cs.length = k ∧ cs.all (fun c => c = '0' ∨ c = '1') then some (cs.map (· = '1')) else none
  | _ => none

/-- the specification's table: prelude, then the definitions the implementation accepted -/
def specTableFor (bits : List Bool) (defs : List Datum) : Spec.ExpandAll.STable :=
  (bits.zip defs).foldl (fun T bd => if bd.1 then installSpec T bd.2 else T) preludeSpecTable

def handle (cmd : String) (args : List String) : Option String :=
  match cmd with
  | "tr-expand" => do
    let (defs, form) ← decSession args
    -- every definition is a top-level form of the session: transformed (returned as it is), then run
    let step : MacroTable × List Bool → Datum → MacroTable × List Bool := fun (M, bs) d =>
      match expandForm M expandFuel d with
      | .ok e =>
        let M' := installMacro M e
        (M', bs ++ [decide (M'.length = M.length + 1)])
      | _ => (M, bs ++ [false])
    let (M, bits) := defs.foldl step (preludeTable, [])
    pure (match expandForm M expandFuel form with
      | .fuel => "hang"
      | r => bitsOf bits ++ " " ++ showRes (fun e => "ok " ++ encDatum e) r)
  | "spec-tr-expand" =>
    match args with
    | b :: rest => do
      let (defs, form) ← decSession rest
      let bits ← decBits b defs.length
      pure (match Spec.ExpandAll.specExpandAll expandFuel (specTableFor bits defs) form with
        | .ok e => b ++ " ok " ++ encDatum e
        | .noMatch => b ++ " nomatch"
        | .mismatch => b ++ " mismatch"
        | .malformed => b ++ " malformed"
        | .fuel => "hang")
    | [] => none
  | "tr-expand-why" =>
    match args with
    | b :: rest => do
      let (defs, form) ← decSession rest
      let bits ← decBits b defs.length
      let T := specTableFor bits defs
      let g := fun sel => Spec.ExpandAll.expandGuardSel sel expandFuel T form
      pure (if !g ⟨true, false, false⟩ then "use"
        else if !g ⟨false, true, false⟩ then "binding"
        else if !g ⟨false, false, true⟩ then "template"
        else "ok")
    | [] => none
  | "tr-def" => do
    let (d, rest) ← decDatum args
    if !rest.isEmpty then none
    else pure (showRes (fun _ => "ok") (Transform.tryNew (defFuel d) d))
  | "tr-gap" => do
    -- decidable guard of the `_partial` theorems / predicate of finding C17-empty-ellipsis-before-tail
    let (d, u) ← dec2 args
    match Spec.Match.parseDef d with
    | none => pure "malformed-def"
    | some rs => pure (if rs.rules.any (fun r => Spec.Match.zeroRepTailRule rs.ctx r u) then "gap" else "nogap")
  | "tr-use" | "tr-use-vm" => do
    let (d, u) ← dec2 args
    match Transform.tryNew (defFuel d) d with
    | .ok t => pure (showRes (fun e => "ok " ++ encDatum e) (t.transform (useFuel d u) u))
    | .err _ => pure "def-err"
    | .panic _ => pure "def-panic"
    | .fuel => pure "def-hang"
  | "spec-tr-use" => do
    let (d, u) ← dec2 args
    match Spec.Match.parseDef d with
    | none => pure "malformed-def"
    | some rs =>
      pure (match Spec.Match.specExpand rs.ctx rs.rules u with
        | .ok e => "ok " ++ encDatum e
        | .noMatch => "nomatch"
        | .mismatch => "mismatch"
        | .malformed => "malformed")
  | _ => none

end Marwood.Driver.Transform
