import Driver.Wire
/-! Driver commands of the Syntax area (filled in by the area's owner). -/
namespace Marwood.Driver.Syntax

def handle (_cmd : String) (_args : List String) : Option String := none

end Marwood.Driver.Syntax
