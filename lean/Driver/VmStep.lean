import Marwood.Vm.Machine
/-!
Decoder / encoder for the lock-step `step` request: machine state before one instruction plus the
facts about the heap the instruction consults (recorded from the real heap), run through the Lean
model of `run_one`.
-/
namespace Marwood.Driver.VmStep
open Marwood.Vm

def opOfName : String → Option Op
  | "cons" => some .cons | "jmp" => some .jmp | "jnt" => some .jnt | "mov" => some .mov
  | "movImm" => some .movImm | "push" => some .push | "pushAcc" => some .pushAcc
  | "pushImm" => some .pushImm | "halt" => some .halt | "vpushAcc" => some .vpushAcc
  | "callAcc" => some .callAcc | "closureAcc" => some .closureAcc | "enter" => some .enter
  | "ret" => some .ret | "tcallAcc" => some .tcallAcc | "varArg" => some .varArg
  | _ => none

def opName : Op → String
  | .cons => "cons" | .jmp => "jmp" | .jnt => "jnt" | .mov => "mov" | .movImm => "movImm"
  | .push => "push" | .pushAcc => "pushAcc" | .pushImm => "pushImm" | .halt => "halt"
  | .vpushAcc => "vpushAcc" | .callAcc => "callAcc" | .closureAcc => "closureAcc"
  | .enter => "enter" | .ret => "ret" | .tcallAcc => "tcallAcc" | .varArg => "varArg"

def natOrMax (s : String) : Option Nat :=
  if s == "max" then some 18446744073709551615 else s.toNat?

def showNatOrMax (n : Nat) : String := if n == 18446744073709551615 then "max" else toString n

def two (s : String) : Option (Nat × Nat) :=
  match s.splitOn ":" with
  | [a, b] => do let a ← natOrMax a; let b ← natOrMax b; pure (a, b)
  | _ => none

def hexNat (s : String) : Option Nat :=
  if s.isEmpty then none else
  s.toList.foldlM (fun acc c =>
    if '0' ≤ c ∧ c ≤ '9' then some (acc * 16 + (c.toNat - 48))
    else if 'a' ≤ c ∧ c ≤ 'f' then some (acc * 16 + (c.toNat - 87))
    else none) 0

def decCell (w : String) : Option VCell :=
  if w == "T" then some (.bool true) else if w == "F" then some (.bool false)
  else if w == "N" then some .nil else if w == "U" then some .undefined
  else if w == "V" then some .void else if w == "acc" then some .acc
  else if w.startsWith "op" then (opOfName (w.drop 2).toString).map .opcode
  else match w.toList with
    | 'O' :: _ => some (.opaque w)
    | 'Q' :: r => (two (String.ofList r)).map fun (a, d) => .pair a d
    | 'C' :: r => (two (String.ofList r)).map fun (a, d) => .closure a d
    | 'L' :: r => (hexNat (String.ofList r)).map .lambda
    | 'K' :: r => (hexNat (String.ofList r)).map .continuation
    | 'X' :: r => (hexNat (String.ofList r)).map .builtin
    | 'S' :: r => (String.ofList r).toNat?.map .lexEnvSlot
    | 'D' :: r => (two (String.ofList r)).map fun (a, d) => .lexEnvPtr a d
    | 'A' :: r => (String.ofList r).toNat?.map .argc
    | 'B' :: r => (String.ofList r).toNat?.map .basePtr
    | 'R' :: r => (String.ofList r).toInt?.map .bpOffset
    | 'E' :: r => (natOrMax (String.ofList r)).map .envPtr
    | 'G' :: r => (String.ofList r).toNat?.map .globSlot
    | 'I' :: r => (two (String.ofList r)).map fun (a, d) => .instrPtr a d
    | 'P' :: r => (natOrMax (String.ofList r)).map .ptr
    | _ => none

def hex (n : Nat) : String := String.ofList (Nat.toDigits 16 n)

def encCell : VCell → String
  | .bool true => "T" | .bool false => "F" | .nil => "N" | .undefined => "U" | .void => "V"
  | .opaque t => t
  | .pair a d => s!"Q{a}:{d}" | .closure l e => s!"C{l}:{e}"
  | .lambda i => "L" ++ hex i | .continuation i => "K" ++ hex i | .builtin i => "X" ++ hex i
  | .lexEnvSlot n => s!"S{n}" | .lexEnvPtr e n => s!"D{e}:{n}"
  | .acc => "acc" | .argc n => s!"A{n}" | .basePtr n => s!"B{n}" | .bpOffset i => s!"R{i}"
  | .envPtr e => "E" ++ showNatOrMax e | .globSlot n => s!"G{n}"
  | .instrPtr l o => s!"I{showNatOrMax l}:{o}" | .opcode op => "op" ++ opName op
  | .ptr a => "P" ++ showNatOrMax a

def decCells (s : String) : Option (List VCell) :=
  if s == "-" || s == "" then some [] else (s.splitOn ",").mapM decCell

/-- the facts of one request, as a heap -/
structure OHeap where
  ipL : Nat
  ipO : Nat
  code : List VCell
  free : List Nat
  callee : Callee
  largc : List (Nat × Nat)
  derefs : List (VCell × VCell)
  load : Option VCell
  envs : List ((Nat × Nat) × VCell)
  bres : Option (Except String VCell)   -- result of a generic builtin / of eval's compilation
  isProc : Bool
  contId : Nat                           -- id of the continuation object call/cc will create
  allocs : Nat := 0

def errOfName : String → Err
  | "InvalidStackIndex" => .invalidStackIndex 0
  | "InvalidBytecode" => .invalidBytecode
  | "InvalidNumArgs" => .invalidNumArgs
  | "InvalidProcedure" => .invalidProcedure
  | "InvalidSyntax" => .invalidSyntax
  | "ExpectedType" => .expectedType
  | "VariableNotBound" => .variableNotBound
  | n => .builtin n

def errName : Err → String
  | .invalidStackIndex _ => "InvalidStackIndex"
  | .invalidBytecode => "InvalidBytecode"
  | .invalidNumArgs => "InvalidNumArgs"
  | .invalidProcedure => "InvalidProcedure"
  | .invalidSyntax => "InvalidSyntax"
  | .expectedType => "ExpectedType"
  | .variableNotBound => "VariableNotBound"
  | .builtin n => n

/-- `Heap::alloc`: next address from the (recorded) free list -/
def OHeap.alloc (h : OHeap) : OHeap × Nat :=
  match h.free with
  | a :: r => ({ h with free := r, allocs := h.allocs + 1 }, a)
  | [] => (h, 0)   -- recorder never emits a step whose allocations exceed the recorded prefix

def OHeap.put (h : OHeap) (v : VCell) : OHeap × VCell :=
  match v with
  | .ptr _ => (h, v)
  | _ => let (h, a) := h.alloc; (h, .ptr a)

def OHeap.maybePut (h : OHeap) (v : VCell) : OHeap × VCell :=
  match v with
  | .ptr _ | .bool _ | .nil | .void | .undefined => (h, v)
  | .opaque t =>
    -- numbers and characters are immediate; strings/vectors/symbols are not produced here because
    -- the recorded builtin result is already the final accumulator value
    if t.startsWith "On" || t.startsWith "Oc" then (h, v) else let (h, a) := h.alloc; (h, .ptr a)
  | _ => let (h, a) := h.alloc; (h, .ptr a)

def OHeap.deref (h : OHeap) (v : VCell) : VCell :=
  match v with
  | .ptr _ => match h.derefs.find? (fun p => p.1 == v) with
    | some p => p.2
    | none => .undefined
  | v => v

def oracleOps : HeapOps OHeap where
  fetch h l o := if l == h.ipL ∧ h.ipO ≤ o then h.code[o - h.ipO]? else none
  isLambda _ _ := true
  callee h _ := h.callee
  lambdaInfo h l := (h.largc.find? (fun p => p.1 == l)).map fun p => ⟨p.2⟩
  deref h v := h.deref v
  getAt h _ := h.load.getD .undefined
  setAt h _ _ := h
  put h v := h.put v
  maybePut h v := h.maybePut v
  newCont h _ := let (h, a) := h.alloc; (h, .ptr a)
  globGet h _ := h.load.getD .undefined
  globPut h _ _ := h
  envGet h e k := (h.envs.find? (fun p => p.1 == (e, k))).map (·.2)
  envPut h _ _ _ := some h
  makeClosure h _ _ _ _ :=
    match h.bres with
    | some (.error e) => .err (errOfName e)
    | _ => let (h, _) := h.alloc; let (h, c) := h.alloc; .ok (h, .ptr c)
  makeActivation h _ _ _ _ :=
    match h.bres with
    | some (.error e) => .err (errOfName e)
    | _ => let (h, e) := h.alloc; .ok (h, e)
  vectorPush h vec _ :=
    match vec with
    | .opaque t => if t.startsWith "Ov" then .ok h else .err .expectedType
    | _ => .err .expectedType
  builtinKind h _ := match h.callee with
    | .builtin 1 => .apply | .builtin 2 => .eval | .builtin 3 => .callcc | _ => .generic
  builtinEval h _ _ :=
    match h.bres with
    | some (.ok v) => .ok (h, v)
    | some (.error e) => .err (errOfName e)
    | none => .panic "no recorded builtin result"
  compileEval h _ :=
    match h.bres with
    | some (.ok v) => .ok (h, v)
    | some (.error e) => .err (errOfName e)
    | none => .panic "no recorded eval result"
  isProcedure h _ := h.isProc

def kv (args : List String) (k : String) : Option String :=
  (args.find? (·.startsWith (k ++ "="))).map fun a => (a.drop (k.length + 1)).toString

def decStack (cap : Nat) (cells : List VCell) : Stack :=
  { cells := cells ++ List.replicate (cap - cells.length) .undefined, sp := cells.length - 1 }

def decCallee (s : String) : Option Callee :=
  match s.splitOn "/" with
  | ["other"] => some .other
  | ["L"] => some .lambda
  | ["C", l, e] => do let l ← natOrMax l; let e ← natOrMax e; pure (.closure l e)
  | ["X", _, kind] =>
    some (.builtin (match kind with | "apply" => 1 | "eval" => 2 | "callcc" => 3 | _ => 0))
  | ["K", sp, ep, ip, bp, cells] => do
    let sp ← sp.toNat?
    let ep ← natOrMax ep
    let (l, o) ← two ip
    let bp ← bp.toNat?
    let cs ← decCells cells
    pure (.continuation { stack := { cells := cs, sp := sp }, ep := ep, ipL := l, ipO := o, bp := bp })
  | _ => none

def decRes (s : String) : Option (Except String VCell) :=
  if s.startsWith "ok:" then (decCell (s.drop 3).toString).map .ok
  else if s.startsWith "err:" then some (.error (s.drop 4).toString)
  else none

def showState (s : St OHeap) : String :=
  let cells := (s.stack.cells.take (s.stack.sp + 1)).map encCell
  s!"sp={s.stack.sp} bp={s.bp} ep={showNatOrMax s.ep} ip={showNatOrMax s.ipL}:{s.ipO} acc={encCell s.acc} stack={",".intercalate cells}"

def handleStep (args : List String) : Option String := do
  let sp ← (← kv args "sp").toNat?
  let bp ← (← kv args "bp").toNat?
  let ep ← natOrMax (← kv args "ep")
  let (ipL, ipO) ← two (← kv args "ip")
  let acc ← decCell (← kv args "acc")
  let cells ← decCells (← kv args "stack")
  let cap ← (← kv args "cap").toNat?
  let code ← decCells (← kv args "code")
  let free ← match ← kv args "free" with
    | "-" => some []
    | s => (s.splitOn ",").mapM (·.toNat?)
  let callee ← decCallee (← kv args "callee")
  let largc ← ((← kv args "largc").splitOn ",").mapM two
  let derefs ← ((← kv args "deref").splitOn ",").mapM fun p =>
    match p.splitOn ">" with
    | [a, b] => do let a ← decCell a; let b ← decCell b; pure (a, b)
    | _ => none
  let load ← match kv args "load" with
    | some s => (decCell s).map some
    | none => some none
  let envs ← match kv args "env" with
    | some s => (s.splitOn ",").mapM fun p =>
        match p.splitOn ">" with
        | [a, b] => do let a ← two a; let b ← decCell b; pure (a, b)
        | _ => none
    | none => some []
  let bres ← match kv args "bres" with
    | some s => (decRes s).map some
    | none => some none
  let isProc := kv args "isproc" == some "1"
  if cells.length ≠ sp + 1 then none else
  let h : OHeap := { ipL, ipO, code, free, callee, largc, derefs, load, envs, bres, isProc, contId := 0 }
  let s : St OHeap := { heap := h, stack := decStack cap cells, acc, ep, ipL, ipO, bp }
  let ops := oracleOps
  pure (match step ops s with
    | .ok (s', halt) => s!"ok {showState s'} halt={if halt then 1 else 0}"
    | .err e => "err " ++ errName e
    | .panic site => "panic " ++ site)

end Marwood.Driver.VmStep
