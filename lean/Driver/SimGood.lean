import Driver.SimStep
import Marwood.Heap.Check
/-!
Driver command `simgood`: the executable counterparts of the side conditions `Good` that the heap
simulation theorems (Lemmas/SimMain.lean, T03.5 / T13.3) assume of every state along a run, evaluated on a
complete real state (same request format as `simstep`). Answers `ok`, or `bad <first violated clause>`.
-/
namespace Marwood.Driver.SimGood
open Marwood Marwood.Vm Marwood.Vm.Concrete Marwood.Driver.SimStep

def plainValB : VCell → Bool
  | .lexEnvPtr _ _ | .instrPtr _ _ => false
  | _ => true

def addrFreeB : VCell → Bool
  | .pair _ _ | .closure _ _ | .lexEnvPtr _ _ | .envPtr _ | .instrPtr _ _ | .ptr _ => false
  | _ => true

def goodCheck (s : St CHeap) : Option String :=
  let h := s.heap
  if !(h.cells.size ≤ 2 ^ 63) then some "size" else
  if !(h.cells.all fun c => match c with | .val v => plainValB v | _ => true) then some "plain-cells" else
  if !(h.globals.all fun v => isPtr v || addrFreeB v) then some "plain-globals" else
  if !(h.cells.all fun c => match c with | .cont k => decide (k.stack.sp < k.stack.cells.length) | _ => true) then
    some "plain-conts" else
  if !(h.cells.all fun c => match c with
      | .lambda l => l.envmap.all fun p => match p.2 with | .iofArg _ => false | _ => true
      | _ => true) then some "no-iof-arg" else
  match Heap.Check.wfCheck true (toHeap h) (rootsOf s) with
  | some e => some ("wf-" ++ e)
  | none =>
    match lambdaAt h s.ipL with
    | none => none
    | some l =>
      if !(match l.bc[s.ipO + 1]? with
          | some (.bpOffset off) => decide ((s.bp : Int) + off ≤ (s.stack.sp : Int))
          | _ => true) then some "bp-live" else
      match l.bc[s.ipO]? with
      | some (.opcode .ret) | some (.opcode .tcallAcc) =>
        if s.bp + 4 ≤ s.stack.sp then none else some "frame-live"
      | _ => none

/-! ## the invariant form (`Lemmas/Good*.lean`): `GoodI` and the frame discipline `StackDisc`

Executable counterparts of the clauses that `Lemmas/GoodDefs.lean` adds to `Good`: `acc` holds a value, the
code discipline of every lambda object (`LamOk`: MOV / MOVIMM never address a heap cell through a `Ptr` operand
and MOVIMM loads a value), the environment discipline (`EnvOk`), and — the hypothesis along the run — the stack
cells the current instruction consumes as values hold values (`StackDisc.src/cons/call/enter`). The code-discipline
clause is not evaluated on hand-assembled bytecode (info token `…+syn…`: it violates it on purpose). -/

def valueB (v : VCell) : Bool := isPtr v || addrFreeB v

def notPtrB : VCell → Bool
  | .ptr _ => false
  | _ => true

def opndAllB (P : VCell → Bool) : Option VCell → Bool
  | some v => P v
  | none => true

def lamOkB (l : CLambda) : Bool :=
  (List.range l.bc.length).all fun j =>
    match l.bc[j]? with
    | some (.opcode .mov) => opndAllB notPtrB l.bc[j + 1]? && opndAllB notPtrB l.bc[j + 2]?
    | some (.opcode .movImm) => opndAllB valueB l.bc[j + 1]? && opndAllB notPtrB l.bc[j + 2]?
    | _ => true

def slotOkB (h : CHeap) (v : VCell) : Bool :=
  valueB v || (match v with
    | .lexEnvPtr e k => (match h.cells[e]? with
      | some (.lexEnv ss) => (match ss[k]? with
        | some w => valueB w
        | none => false)
      | _ => false)
    | _ => false)

/-- `ArgBlock st k` -/
def argBlockB (st : Stack) (k : Nat) : Bool :=
  match st.cells[k]? with
  | some (.argc n) => (List.range k).all fun i => !(k ≤ i + n) || (match st.cells[i]? with
    | some v => valueB v
    | none => true)
  | _ => true

def goodICheck (syn : Bool) (s : St CHeap) : Option String :=
  let h := s.heap
  if !valueB s.acc then some "acc-value" else
  if !syn && !(h.cells.all fun c => match c with | .lambda l => lamOkB l | _ => true) then some "code-ok" else
  if !(h.cells.all fun c => match c with | .lexEnv ss => ss.all (slotOkB h) | _ => true) then some "env-ok" else
  match lambdaAt h s.ipL with
  | none => none
  | some l =>
    match l.bc[s.ipO]? with
    | some (.opcode .mov) =>
      (match l.bc[s.ipO + 1]? with
       | some (.bpOffset off) =>
         let i := (s.bp : Int) + off
         if 0 ≤ i then (match s.stack.cells[i.toNat]? with
           | some v => if valueB v then none else some "disc-src"
           | none => none) else none
       | _ => none)
    | some (.opcode .cons) =>
      if (List.range (s.stack.sp + 1)).all fun i => !(s.stack.sp ≤ i + 1) || (match s.stack.cells[i]? with
        | some v => valueB v
        | none => true) then none else some "disc-cons"
    | some (.opcode .callAcc) | some (.opcode .tcallAcc) =>
      if argBlockB s.stack s.stack.sp then none else some "disc-call"
    | some (.opcode .enter) | some (.opcode .varArg) =>
      if argBlockB s.stack (s.stack.sp - 2) then none else some "disc-enter"
    | _ => none

def isSynthetic (info : String) : Bool := (info.splitOn "+syn").length > 1

def handle (args : List String) : Option String :=
  match args with
  | info :: ts => do
    let (r, ts) ← decRegs ts
    let (h, ts) ← decHeap ts
    let (_, ts) ← decExt ts
    if !ts.isEmpty then none else
    let s : St CHeap := { heap := h, stack := r.stack, acc := r.acc, ep := r.ep, ipL := r.ipL, ipO := r.ipO, bp := r.bp }
    pure (match goodCheck s with
      | some e => "bad " ++ e
      | none =>
        match goodICheck (isSynthetic info) s with
        | none => "ok"
        | some e => "bad " ++ e)
  | [] => none

end Marwood.Driver.SimGood
