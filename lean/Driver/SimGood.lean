import Driver.SimStep
import Marwood.Heap.Check
/-!
Driver command `simgood`: the executable counterparts of the side conditions `Good` that the heap
simulation theorems (Lemmas/SimMain.lean, T03.5 / T13.3) assume of every state along a run, evaluated on a
complete real state (same request format as `simstep`). Answers `ok`, or `bad <first violated clause>`.
-/
namespace Marwood.Driver.SimGood
open Marwood Marwood.Vm Marwood.Vm.Concrete Marwood.Driver.SimStep

def plainValB : VCell → Bool
  | .lexEnvPtr _ _ | .instrPtr _ _ => false
  | _ => true

def addrFreeB : VCell → Bool
  | .pair _ _ | .closure _ _ | .lexEnvPtr _ _ | .envPtr _ | .instrPtr _ _ | .ptr _ => false
  | _ => true

def goodCheck (s : St CHeap) : Option String :=
  let h := s.heap
  if !(h.cells.size ≤ 2 ^ 63) then some "size" else
  if !(h.cells.all fun c => match c with | .val v => plainValB v | _ => true) then some "plain-cells" else
  if !(h.globals.all fun v => isPtr v || addrFreeB v) then some "plain-globals" else
  if !(h.cells.all fun c => match c with | .cont k => decide (k.stack.sp < k.stack.cells.length) | _ => true) then
    some "plain-conts" else
  if !(h.cells.all fun c => match c with
      | .lambda l => l.envmap.all fun p => match p.2 with | .iofArg _ => false | _ => true
      | _ => true) then some "no-iof-arg" else
  match Heap.Check.wfCheck true (toHeap h) (rootsOf s) with
  | some e => some ("wf-" ++ e)
  | none =>
    match lambdaAt h s.ipL with
    | none => none
    | some l =>
      if !(match l.bc[s.ipO + 1]? with
          | some (.bpOffset off) => decide ((s.bp : Int) + off ≤ (s.stack.sp : Int))
          | _ => true) then some "bp-live" else
      match l.bc[s.ipO]? with
      | some (.opcode .ret) | some (.opcode .tcallAcc) =>
        if s.bp + 4 ≤ s.stack.sp then none else some "frame-live"
      | _ => none

def handle (args : List String) : Option String :=
  match args with
  | _info :: ts => do
    let (r, ts) ← decRegs ts
    let (h, ts) ← decHeap ts
    let (_, ts) ← decExt ts
    if !ts.isEmpty then none else
    let s : St CHeap := { heap := h, stack := r.stack, acc := r.acc, ep := r.ep, ipL := r.ipL, ipO := r.ipO, bp := r.bp }
    pure (match goodCheck s with
      | none => "ok"
      | some e => "bad " ++ e)
  | [] => none

end Marwood.Driver.SimGood
