import Driver.SimStep
import Marwood.Heap.Check
import Marwood.Vm.Verify
import Marwood.Vm.ProcInv
import Marwood.Vm.NoPanicCheck
import Marwood.Vm.EnvInvCheck
import Marwood.Vm.InlineCheck
/-!
Driver command `simgood`: the executable counterparts of the side conditions `Good` that the heap
simulation theorems (Lemmas/SimMain.lean, T03.5 / T13.3) assume of every state along a run, evaluated on a
complete real state (same request format as `simstep`). Answers `ok`, or `bad <first violated clause>`.
-/
namespace Marwood.Driver.SimGood
open Marwood Marwood.Vm Marwood.Vm.Concrete Marwood.Driver.SimStep

def plainValB : VCell → Bool
  | .lexEnvPtr _ _ | .instrPtr _ _ => false
  | _ => true

def addrFreeB : VCell → Bool
  | .pair _ _ | .closure _ _ | .lexEnvPtr _ _ | .envPtr _ | .instrPtr _ _ | .ptr _ => false
  | _ => true

def goodCheck (s : St CHeap) : Option String :=
  let h := s.heap
  if !(h.cells.size ≤ 2 ^ 63) then some "size" else
  if !(h.cells.all fun c => match c with | .val v => plainValB v | _ => true) then some "plain-cells" else
  if !(h.globals.all fun v => isPtr v || addrFreeB v) then some "plain-globals" else
  if !(h.cells.all fun c => match c with | .cont k => decide (k.stack.sp < k.stack.cells.length) | _ => true) then
    some "plain-conts" else
  if !(h.cells.all fun c => match c with
      | .lambda l => l.envmap.all fun p => match p.2 with | .iofArg _ => false | _ => true
      | _ => true) then some "no-iof-arg" else
  match Heap.Check.wfCheck true (toHeap h) (rootsOf s) with
  | some e => some ("wf-" ++ e)
  | none =>
    match lambdaAt h s.ipL with
    | none => none
    | some l =>
      if !(match l.bc[s.ipO + 1]? with
          | some (.bpOffset off) => decide ((s.bp : Int) + off ≤ (s.stack.sp : Int))
          | _ => true) then some "bp-live" else
      match l.bc[s.ipO]? with
      | some (.opcode .ret) | some (.opcode .tcallAcc) =>
        if s.bp + 4 ≤ s.stack.sp then none else some "frame-live"
      | _ => none

/-! ## the invariant form (`Lemmas/Good*.lean`): `GoodI` and the frame discipline `StackDisc`

Executable counterparts of the clauses that `Lemmas/GoodDefs.lean` adds to `Good`: `acc` holds a value, the
code discipline of every lambda object (`LamOk`: MOV / MOVIMM never address a heap cell through a `Ptr` operand
and MOVIMM loads a value), the environment discipline (`EnvOk`), and — the hypothesis along the run — the stack
cells the current instruction consumes as values hold values (`StackDisc.src/cons/call/enter`). The code-discipline
clause is not evaluated on hand-assembled bytecode (info token `…+syn…`: it violates it on purpose). -/

def valueB (v : VCell) : Bool := isPtr v || addrFreeB v

def notPtrB : VCell → Bool
  | .ptr _ => false
  | _ => true

def opndAllB (P : VCell → Bool) : Option VCell → Bool
  | some v => P v
  | none => true

def lamOkB (l : CLambda) : Bool :=
  (List.range l.bc.length).all fun j =>
    match l.bc[j]? with
    | some (.opcode .mov) => opndAllB notPtrB l.bc[j + 1]? && opndAllB notPtrB l.bc[j + 2]?
    | some (.opcode .movImm) => opndAllB valueB l.bc[j + 1]? && opndAllB notPtrB l.bc[j + 2]?
    | _ => true

def slotOkB (h : CHeap) (v : VCell) : Bool :=
  valueB v || (match v with
    | .lexEnvPtr e k => (match h.cells[e]? with
      | some (.lexEnv ss) => (match ss[k]? with
        | some w => valueB w
        | none => false)
      | _ => false)
    | _ => false)

/-- `ArgBlock st k` -/
def argBlockB (st : Stack) (k : Nat) : Bool :=
  match st.cells[k]? with
  | some (.argc n) => (List.range k).all fun i => !(k ≤ i + n) || (match st.cells[i]? with
    | some v => valueB v
    | none => true)
  | _ => true

def goodICheck (syn : Bool) (s : St CHeap) : Option String :=
  let h := s.heap
  if !valueB s.acc then some "acc-value" else
  if !syn && !(h.cells.all fun c => match c with | .lambda l => lamOkB l | _ => true) then some "code-ok" else
  if !(h.cells.all fun c => match c with | .lexEnv ss => ss.all (slotOkB h) | _ => true) then some "env-ok" else
  match lambdaAt h s.ipL with
  | none => none
  | some l =>
    match l.bc[s.ipO]? with
    | some (.opcode .mov) =>
      (match l.bc[s.ipO + 1]? with
       | some (.bpOffset off) =>
         let i := (s.bp : Int) + off
         if 0 ≤ i then (match s.stack.cells[i.toNat]? with
           | some v => if valueB v then none else some "disc-src"
           | none => none) else none
       | _ => none)
    | some (.opcode .cons) =>
      if (List.range (s.stack.sp + 1)).all fun i => !(s.stack.sp ≤ i + 1) || (match s.stack.cells[i]? with
        | some v => valueB v
        | none => true) then none else some "disc-cons"
    | some (.opcode .callAcc) | some (.opcode .tcallAcc) =>
      if argBlockB s.stack s.stack.sp then none else some "disc-call"
    | some (.opcode .enter) | some (.opcode .varArg) =>
      if argBlockB s.stack (s.stack.sp - 2) then none else some "disc-enter"
    | _ => none

/-! ## the value-typed frame of the current instruction (`Lemmas/StackWF*.lean`: `MatchSt` / `Frames.frame`)

Executable counterpart of what WF-stack over the value-typed verifier says about the CURRENT frame of a real
state: the code object `ip.0` points to passes `Verify.verifyLam`; the temporaries above the frame header are as
many as the verifier's abstract stack at `ip.1` says and every cell typed `val` / `argc n` holds a value / that
`ArgumentCount`; under a CALL / TCALL the argument block holds values; in a prologue the argument block CALL left
holds values; a complete frame has at least `argNeed` argument cells, each holding a value. (Entry code runs at
the entry stack pointer 0.) Not evaluated on hand-assembled bytecode. -/

def cellOkB : Verify.ACell → VCell → Bool
  | .any, _ => true
  | .val, v => valueB v
  | .argc n, v => decide (v = .argc n)

def matchAtB (st : Stack) : List Verify.ACell → Nat → Nat → Bool
  | [], top, lo => top == lo
  | t :: r, top, lo => decide (lo < top) && cellOkB t (st.cells[top]?.getD .undefined) && matchAtB st r (top - 1) lo

def rangeValsB (st : Stack) (lo hi : Nat) : Bool :=
  (List.range (hi + 1)).all fun i => !(decide (lo < i)) || valueB (st.cells[i]?.getD .undefined)

def typedCheck (s : St CHeap) : Option String :=
  match lambdaAt s.heap s.ipL with
  | none => none
  | some l =>
    match Verify.verifyLam l.bc with
    | none => some "typed-reject"
    | some t =>
      let sp := s.stack.sp
      let cell := fun (i : Nat) => s.stack.cells[i]?.getD .undefined
      let lo := if t.entry then 0 else s.bp + 4
      let argsOk : Bool := t.entry || (match cell (s.bp + 1) with
        | .argc n => decide (n ≤ s.bp) && decide (Verify.argNeed l.bc ≤ n) && decide (Verify.argNeed l.bc ≤ l.args.length) &&
            rangeValsB s.stack (s.bp - n) s.bp
        | _ => false)
      match Verify.stateAt t.tm s.ipO with
      | none => none
      | some (.body a) =>
        if !matchAtB s.stack a sp lo then some "typed-temps" else if !argsOk then some "typed-args" else none
      | some (.call a) =>
        (match cell sp with
         | .argc m =>
           if !(decide (lo + m + 1 ≤ sp) && rangeValsB s.stack (sp - 1 - m) (sp - 1)) then some "typed-block"
           else if !matchAtB s.stack a (sp - 1 - m) lo then some "typed-temps"
           else if !argsOk then some "typed-args" else none
         | _ => some "typed-block")
      | some .pre =>
        (match cell (sp - 2) with
         | .argc n => if decide (n + 3 ≤ sp) && rangeValsB s.stack (sp - 3 - n) (sp - 3) then none else some "typed-pre"
         | _ => some "typed-pre")

/-! ## "no value leads to entry code" (`Vm/ProcInv.lean`; `Lemmas/ProcInv*.lean`: `PInv`)

The two clauses that make the callee guard (`CalleeOk`) an invariant, on the whole real state: every closure cell's
lambda is a lambda cell holding procedure code; `acc`, the live stack cells, global slots, environment slots, vector
elements, car / cdr of pair cells, continuation stack copies, MOVIMM / PUSHIMM immediates and symbol-table entries
never point to an entry lambda (`statePB`; `statePB_sound : statePB s = true → PInv s`). -/

def procCheck (s : St CHeap) : Option String := statePWhy s

/-! ## T06.6: what `run_one` needs in order not to panic (`Vm/NoPanicCheck.lean`; `Lemmas/NoPanic*.lean`: `NPInv`)

Every lambda object whose code contains VARARG has a formal, `Argument(a)` sources stay within the formals
(`np-lambda`); every continuation object's stack copy fits the current stack capacity (`np-cont-fits`: the
`split_at_mut` of `restore_continuation`); the slot-index `expect`s of CLOSURE's / ENTER's environment construction at
the current instruction (`np-env-slots`). The lambda clause is not evaluated on hand-assembled bytecode. -/

def noPanicCheck (syn : Bool) (s : St CHeap) : Option String :=
  if !syn && !heapNPB s.heap then some "np-lambda" else
  if !contFitsB s then some "np-cont-fits" else
  if !envSlotsB s then some "np-env-slots" else
  -- the invariant form of the slot clause (evaluated on every real state; not yet proved preserved)
  if !closFitB s.heap then some "np-clos-fit" else
  if !syn && !childEnvB s.heap then some "np-child-env" else
  if !frameEnvB s then some "np-frame-env" else
  -- `EnvInv` (`Vm/EnvInvCheck.lean`; `Lemmas/EnvInv*.lean`): the slot clause as an invariant
  stateEnvWhy syn s

def isSynthetic (info : String) : Bool := (info.splitOn "+syn").length > 1

/-! ## no dereferenced vector in a value position (`Vm/InlineCheck.lean`; `Proofs/C03.lean: vpush_acc_is_pointer`)

An inline `Vector(Rc)` (wire token `Ov`) in `%acc`, a stack slot, a global slot, an environment slot, a vector element,
a pair field or a continuation's stack copy is not a root path for the collector. Before fix 43d0413 VPUSH left one in
`%acc` and every `(define v `#(,x))` put it into a global slot; since the fix compiled code never produces one. Not
evaluated on hand-assembled bytecode (a `MOV Ptr(vector) %acc` dereferences on purpose). -/

def inlineCheck (syn : Bool) (s : St CHeap) : Option String :=
  if !syn && !noInlineVecB s then some "inline-vector" else none

def handle (args : List String) : Option String :=
  match args with
  | info :: ts => do
    let (r, ts) ← decRegs ts
    let (h, ts) ← decHeap ts
    let (_, ts) ← decExt ts
    if !ts.isEmpty then none else
    let s : St CHeap := { heap := h, stack := r.stack, acc := r.acc, ep := r.ep, ipL := r.ipL, ipO := r.ipO, bp := r.bp }
    pure (match goodCheck s with
      | some e => "bad " ++ e
      | none =>
        match inlineCheck (isSynthetic info) s with
        | some e => "bad " ++ e
        | none =>
        match goodICheck (isSynthetic info) s with
        | some e => "bad " ++ e
        | none =>
          match (if isSynthetic info then none else typedCheck s) with
          | some e => "bad " ++ e
          | none =>
            match procCheck s with
            | some e => "bad " ++ e
            | none =>
              match noPanicCheck (isSynthetic info) s with
              | none => "ok"
              | some e => "bad " ++ e)
  | [] => none

end Marwood.Driver.SimGood
