import Driver.Wire
import Driver.Reader
import Marwood.Print
import Marwood.Symbol
import Marwood.Print.Store
import Marwood.Heap.Gc
/-! Driver commands of the Print area (C10, C18).

* `print <oracle> <alt> <datum>`            model of `format!("{}")` / `format!("{:#}")`
* `c10-rt <oracle> <datum>`                 write, read back with `parse_text`, write again
* `spec-c10-rt <datum>`                     the datum with numbers as value + exactness
* `c10-eval <datum>`                        `Vm::eval` of `(quote d)` (store model)
* `spec-id <datum>`                         the datum itself
* `sym-enc <text>` / `sym-enc-pinned <text>` spelling built by `string->symbol`
* `sym-dec <text>`                          `symbol->string` of a spelling
* `sym-rt <text>` / `spec-text <text>`      `(symbol->string (string->symbol s))` / `s`
* `sym-rt2 <text>` / `spec-c18-true`        `(eq? y (string->symbol (symbol->string y)))` / `#t`
* `c18-eq <mode> <sp1> <sp2>`               two interned symbols on the heap model, collection between
* `spec-c18-eq <sp1> <sp2>`                 `eq?` iff names equal
-/
namespace Marwood.Driver.Print
open Marwood Marwood.Wire Marwood.Driver.Reader

def oneDatum (ws : List String) : Option Datum :=
  match decDatum ws with
  | some (d, []) => some d
  | _ => none

/-- doubles of a datum that the printer will ask the oracle about -/
def showRt (fo : FloatOps) (d : Datum) : String :=
  let w := write fo d
  if textPoisoned w then "oracle-missing" else
  match parseText fo w with
  | .ok (d', rest) =>
    if datumPoisoned d' then "oracle-missing" else
    let w2 := write fo d'
    if textPoisoned w2 then "oracle-missing" else
    "ok " ++ encText w ++ " | " ++ encDatum d' ++ " | "
      ++ (match rest with | some t => encText t | none => "none") ++ " | " ++ encText w2
  | .err e => "ok " ++ encText w ++ " | err " ++ parseErrName e
  | .panic _ => "ok " ++ encText w ++ " | panic"

/-- source text `(quote <written>)` → reader → heap → result → text -/
def showTrip (fo : FloatOps) (d : Datum) : String :=
  let w := write fo d
  if textPoisoned w then "oracle-missing" else
  let head := "ok " ++ encText w ++ " | "
  match parseText fo ("(quote ".toList ++ w ++ [')']) with
  | .ok (.pair (.sym q) (.pair d' .nil), none) =>
    if q != quoteName then head ++ "model-unsupported" else
    if datumPoisoned d' then "oracle-missing" else
    (match PStore.evalQuote d' with
      | .ok r =>
        let w2 := write fo r
        if textPoisoned w2 then "oracle-missing" else head ++ encDatum r ++ " | " ++ encText w2
      | .err _ => head ++ "err"
      | .panic _ => head ++ "panic")
  | .ok (_, some _) => head ++ "trailing"
  | .ok (_, none) => head ++ "model-unsupported"
  | .err e => head ++ "err Parse:" ++ parseErrName e
  | .panic _ => head ++ "panic"

/-- a datum with numbers replaced by value and exactness (what `≈` of T10.1 compares) -/
partial def canonDatum : Datum → String
  | .num n => canonNum n
  | .pair a d => "pair " ++ canonDatum a ++ " " ++ canonDatum d
  | .vec e =>
    let xs := e.listElems
    s!"vec{xs.length}" ++ String.join (xs.map fun x => " " ++ canonDatum x)
  | d => encDatum d

def showStore (r : PStore.R Datum) : String :=
  match r with
  | .ok d => "ok " ++ encDatum d
  | .err _ => "err InvalidSyntax"
  | .panic _ => "panic"

def errName (e : ParseErr) : String := "err Parse:" ++ parseErrName e

def showBool (b : Bool) : String := if b then "b1" else "b0"

/-! ## C18: two productions of symbols on the heap model -/

open Marwood.Heap in
def rootsOf (ps : List Nat) : Roots :=
  { globalSyms := ps, globalSlots := [], stack := [], acc := .atom .undefined,
    ipLam := 2^63, ep := 2^63 }

open Marwood.Heap in
/-- `put` of a symbol value; the address it is interned at -/
def intern (h : Heap) (s : Text) : Except String (Heap × Nat) :=
  match h.maybePut (.symbol s) with
  | .ok (h', .ptr p) => .ok (h', p)
  | .ok _ => .error "maybe_put did not return a pointer"
  | .error e => .error e

open Marwood.Heap in
def forceGc (h : Heap) (keep : List Nat) : Except String Heap :=
  match Heap.runGc true true h (rootsOf keep) with
  | .ok (.collected h') => .ok h'
  | .ok (.skipped h') => .ok h'
  | .ok .fuelExhausted => .error "fuel"
  | .error e => .error e

open Marwood.Heap in
/-- modes: `none` — intern, intern; `keep` — intern, collect with the first rooted, intern;
`drop` — intern `s1`, collect with nothing rooted (the entry is swept), intern `s2`, intern `s1` again,
collect with both rooted, compare the last two -/
def internEq (mode : String) (s1 s2 : Text) : Except String (Bool × Bool) := do
  let h0 ← Heap.new 8
  -- some unrelated live and dead cells around
  let (h0, x) ← intern h0 "live".toList
  let (h0, _) ← intern h0 "dead".toList
  match mode with
  | "none" =>
    let (h1, p) ← intern h0 s1
    let (h2, q) ← intern h1 s2
    match h2.eqvSym p q with
    | some b => pure (b, p == q)
    | none => throw "not symbols"
  | "keep" =>
    let (h1, p) ← intern h0 s1
    let h1 ← forceGc h1 [x, p]
    let (h2, q) ← intern h1 s2
    let h2 ← forceGc h2 [x, p, q]
    match h2.eqvSym p q with
    | some b => pure (b, p == q)
    | none => throw "not symbols"
  | "drop" =>
    let (h1, _) ← intern h0 s1
    let h1 ← forceGc h1 [x]
    let (h2, q) ← intern h1 s2
    let (h3, r) ← intern h2 s1
    let h3 ← forceGc h3 [x, q, r]
    match h3.eqvSym q r with
    | some b => pure (b, q == r)
    | none => throw "not symbols"
  | _ => throw "mode"

def showNameEq (s1 s2 : Text) : String :=
  match symbolToString s1, symbolToString s2 with
  | .ok a, .ok b => showBool (a == b)
  | _, _ => "err"

def isCanonical (y : Text) : Bool :=
  match reencode y with
  | .ok z => z == y
  | .error _ => false

def handle (cmd : String) (args : List String) : Option String :=
  match cmd, args with
  | "print", o :: alt :: ws => do
      let o ← decOracle o
      let d ← oneDatum ws
      let alt ← (if alt == "1" then some true else if alt == "0" then some false else none)
      let t := printD (oracleOps o) alt d
      pure (if textPoisoned t then "oracle-missing" else "ok " ++ encText t)
  | "c10-rt", o :: ws => do
      let o ← decOracle o
      let d ← oneDatum ws
      pure (showRt (oracleOps o) d)
  | "c10-trip", o :: ws => do
      let o ← decOracle o
      let d ← oneDatum ws
      pure (showTrip (oracleOps o) d)
  | "spec-c10-rt", ws => (oneDatum ws).map fun d => canonDatum d
  | "c10-eval", ws => (oneDatum ws).map fun d => showStore (PStore.evalQuote d)
  | "spec-id", ws => (oneDatum ws).map fun d => "ok " ++ encDatum d
  | "sym-enc", [t] => (decText t).map fun s => "ok " ++ encText (stringToSymbol s)
  | "sym-enc-pinned", [t] => (decText t).map fun s => "ok " ++ encText (stringToSymbolP true s)
  | "sym-dec", [t] => (decText t).map fun y =>
      match symbolToString y with
      | .ok s => "ok " ++ encText s
      | .error e => errName e
  | "sym-rt", [t] => (decText t).map fun s =>
      match symbolToString (stringToSymbol s) with
      | .ok s' => "ok " ++ encText s'
      | .error e => errName e
  | "spec-text", [t] => (decText t).map fun s => "ok " ++ encText s
  | "sym-rt2", [t] => (decText t).map fun y =>
      match reencode y with
      | .ok z => "ok " ++ showBool (z == y)
      | .error e => errName e
  | "spec-c18-true", [] => some "ok b1"
  | "c18-eq", mode :: a :: b :: _tag => do
      let s1 ← decText a
      let s2 ← decText b
      pure (match internEq mode s1 s2 with
        | .ok (e, samePtr) =>
          -- interning: `eq?` (which also compares names) and pointer identity agree
          if e != samePtr then "model-ptr-mismatch" else "ok " ++ showBool e ++ " " ++ showNameEq s1 s2
        | .error m => "model-error " ++ m)
  | "spec-c18-eq", [a, b] => do
      let s1 ← decText a
      let s2 ← decText b
      let canon := (if isCanonical s1 then "1" else "0") ++ (if isCanonical s2 then "1" else "0")
      pure (match symbolToString s1, symbolToString s2 with
        | .ok x, .ok y => "ok " ++ showBool (x == y) ++ " " ++ showBool (x == y) ++ " canon=" ++ canon
        | _, _ => "ok " ++ showBool (s1 == s2) ++ " err canon=" ++ canon)
  | _, _ => none

end Marwood.Driver.Print
