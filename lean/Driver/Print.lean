import Driver.Wire
/-! Driver commands of the Print area (filled in by the area's owner). -/
namespace Marwood.Driver.Print

def handle (_cmd : String) (_args : List String) : Option String := none

end Marwood.Driver.Print
