import Marwood.Vm.PrepareCheck
import Marwood.Vm.PrepareCheckFast
import Driver.Wire
import Driver.SimStep
import Driver.VmCompile
/-!
# Driver command `prepcheck`: the relation `Installs` against the real `Vm::prepare_eval`

Counterpart of `simstep prep <n>` (harness/src/bin/simstep.rs + harness/src/prep_forms.rs), stream
"prepare-installs". The request carries the complete state of the real VM immediately BEFORE and AFTER
`vm.prepare_eval(&expanded)` and the macro-expanded form; the answer is `ok` iff the executable checker of
`Marwood/Vm/PrepareCheck.lean` accepts the pair (`installsB` when the real compiler accepted the form, `garbageB` when
it rejected it), otherwise a token naming the first failing clause.

```
request := prepcheck <info> <mode> regs heap regs' delta GR <n> addr*n <rendered> datum…
  mode     := ok | err | errgc      (real prepare_eval: Ok / Err without a collection / Err and `run_gc` collected)
  regs, heap, delta as in Driver/SimStep.lean (`decRegs`, `decHeap`, `decDelta`; the after-heap is
             `applyDelta heap delta`), followed by the binding keys that DISAPPEARED (`GR`, which `delta` cannot show)
  rendered := `render_lambda` of the real top-level lambda (mode ok) | `-`
  datum    := the macro-expanded form (`Wire.decDatum`); the model compiler runs with fuel `4 * datumSize d + 16`
The answer `ok` means `installsB … = true` (mode ok) / `garbageB … = true` and the model compiler rejects too (mode err);
the driver evaluates `installsFastB … || installsB …` (= `installsB …` by `installsFast_or`).
answer  := ok | bad regs | bad ipo | bad shrink | bad replay <k> <address> <clause> | bad glob <y> | bad resym <field>
         | bad entry <why> | bad names | model-err <CErr> | model-ok | bad unknown
```
`Installs` relates the states before `prepare` points `ip` at the entry: the after-state handed to `installsB` has
`ipL` / `ipO` reset to the before-values, `entry` is the after-snapshot's `ipL`, and its `ipO` must be 0.
-/
namespace Marwood.Driver.Prep
open Marwood Marwood.Vm Marwood.Vm.Concrete Marwood.Wire
open Marwood.Driver.SimStep (Toks decRegs decHeap decDelta applyDelta many one Regs Delta)

def decGR : Toks → Option (List Nat × Toks)
  | "GR" :: n :: ts => do
    let n ← n.toNat?
    let (gs, ts) ← many (one String.toNat?) n ts #[]
    pure (gs.toList, ts)
  | _ => none

def mkSt (r : Regs) (h : CHeap) : St CHeap :=
  { heap := h, stack := r.stack, acc := r.acc, ep := r.ep, ipL := r.ipL, ipO := r.ipO, bp := r.bp }

/-! ## the representation of the after-heap's symbol table

The real table is a `HashMap`; the snapshot lists it sorted by name and `applyDelta` appends the new entries to the old
list. Any list with the same entries represents it. The one chosen here coincides with what `replay` builds when the
form is accepted (new symbols consed in allocation order in front of the old table), so that the fast path
`installsFastB` (Marwood/Vm/PrepareCheckFast.lean: list equality instead of the quadratic lookup comparison) applies;
if it does not, the answer is still `installsB`'s. -/

/-- position of address `a` in allocator order: its index in the free list, addresses of a later chunk after them,
    highest first (`Heap::grow` pushes them ascending, `alloc` pops the last) -/
def allocRank (free : List Nat) (cap : Nat) (a : Nat) : Nat :=
  let i := free.idxOf a
  if i < free.length then i else free.length + (cap - a)

def canonSymtab (h0 : CHeap) (d : Delta) : List (Text × Nat) :=
  let gone (n : Text) : Bool := d.symRem.contains n || d.symAdd.any (·.1 == n)
  let ranked := d.symAdd.map fun e => (allocRank h0.free d.cap e.2, e)
  let add := (ranked.mergeSort fun a b => b.1 ≤ a.1).map (·.2)
  add ++ h0.symtab.filter (fun p => !gone p.1)

/-! ## diagnostics (ad hoc; only the Boolean functions of PrepareCheck.lean are proved about) -/

def lamWhy (objs : Option (List LambdaM × List LambdaM)) (h : CHeap) (cl : CLambda) : String :=
  match objs with
  | some (tbl, objs) =>
    if !(objs.any (loadedB · cl)) then
      (if !(objs.any (fun m => encListB m.bc cl.bc)) then "lambda-not-loaded"
       else if !(objs.any (fun m => encListB m.bc cl.bc && cl.envmap.all (iofOkB m))) then "lambda-iof"
       else "lambda-envlen")
    else if !(objs.any (fun m => loadedB m cl && immLoadedB tbl h m cl)) then "lambda-imm"
    else if !npArgsB cl then "lambda-np" else if !plainB cl then "lambda-plain" else "lambda?"
  | none =>
    if !(Verify.verifyLam cl.bc).isSome then "code-verify" else
    if !noIofB cl then "code-iof" else
    if !decide (Verify.argNeed cl.bc ≤ cl.args.length) then "code-argneed" else
    if !lamOkB cl then "code-lamok" else
    if !npArgsB cl then "code-np" else if !plainB cl then "code-plain" else
    if !immTF (capAt h) cl.bc then "code-env-imm" else if !sitesFB h cl then "code-env-sites" else "code?"

def cellWhy (objs : Option (List LambdaM × List LambdaM)) (Q : CHeap → CLambda → Bool) (h : CHeap) (c : CCell) :
    Option String :=
  if !newCellB (Q h) c then
    some (match c with
      | .lambda cl => lamWhy objs h cl
      | .val _ => "newcell-val"
      | .lexEnv _ => "newcell-env"
      | .cont _ => "newcell-cont"
      | .vector _ => "newcell-vector")
  else if !crefsOkB h c then
    let bad := (Marwood.Heap.crefs true (eraseC c)).filter fun y => !nfB h y
    some s!"crefs:{bad.head?.getD 0}"
  else if !cellPB h c then some "cellp"
  else if !dataEB h c then some "data-env"
  else none

def replayWhy (objs : Option (List LambdaM × List LambdaM)) (Q : CHeap → CLambda → Bool) (after : CHeap) : Nat → Nat → CHeap → Except String CHeap
  | 0, _, h => .ok h
  | k + 1, i, h =>
    let a := (calloc h).2
    match after.cells[a]? with
    | none => .error s!"bad replay {i} {a} nocell"
    | some c =>
      match c with
      | .val v =>
        (match symOf v with
         | some name =>
           if (symLookup h name).isNone then replayWhy objs Q after k (i + 1) (putNew h v).1
           else .error s!"bad replay {i} {a} sym-known"
         | none =>
           match cellWhy objs Q h c with
           | some w => .error s!"bad replay {i} {a} {w}"
           | none => replayWhy objs Q after k (i + 1) (cput h c).1)
      | c =>
        match cellWhy objs Q h c with
        | some w => .error s!"bad replay {i} {a} {w}"
        | none => replayWhy objs Q after k (i + 1) (cput h c).1

def globWhy : List Nat → CHeap → Except String CHeap
  | [], h => .ok h
  | y :: ys, h => if nonFreeB h y then globWhy ys (globPush h y) else .error s!"bad glob {y}"

def firstDiff {α : Type} [DecidableEq α] (a b : Array α) : String :=
  if a.size ≠ b.size then s!"size:{a.size}:{b.size}" else
  match (List.range a.size).find? (fun i => decide (a[i]? ≠ b[i]?)) with
  | some i => s!"at:{i}"
  | none => "?"

def resymWhy (h after : CHeap) : Option String :=
  if h.chunk ≠ after.chunk then some "bad resym chunk" else
  if h.cells ≠ after.cells then some ("bad resym cells " ++ firstDiff h.cells after.cells) else
  if h.gc ≠ after.gc then some ("bad resym gc " ++ firstDiff h.gc after.gc) else
  if h.free ≠ after.free then some s!"bad resym free {h.free.length}:{after.free.length}" else
  if h.globals ≠ after.globals then some ("bad resym globals " ++ firstDiff h.globals after.globals) else
  if !((tabNames h.symtab ++ tabNames after.symtab).all fun n => decide (symLookup after n = symLookup h n)) then
    some "bad resym symtab" else
  if !(after.globSyms.all fun y => h.globSyms.contains y) then some "bad resym globsyms-new" else
  if !(h.globSyms.all fun y => after.globSyms.contains y) then some "bad resym globsyms-lost" else none

def stepsWhy (objs : Option (List LambdaM × List LambdaM)) (Q : CHeap → CLambda → Bool) (before after : CHeap) : Option String :=
  match replayWhy objs Q after (newCount before after) 0 before with
  | .error e => some e
  | .ok h =>
    match globWhy (newGlobs before after) h with
    | .error e => some e
    | .ok h => resymWhy h after

def regsWhy (s s' : St CHeap) : Option String :=
  if s'.stack ≠ s.stack then some "bad regs stack" else
  if s'.acc ≠ s.acc then some "bad regs acc" else
  if s'.ep ≠ s.ep then some "bad regs ep" else
  if s'.bp ≠ s.bp then some "bad regs bp" else
  if s'.ipL ≠ s.ipL ∨ s'.ipO ≠ s.ipO then some "bad regs ip" else none

/-! ## the command -/

/-- the register part of `Vm.onError` (stack wiped at its length, `sp = bp = 0`, `ep = usize::MAX`, `acc` undefined) -/
def abandonRegs (s : St CHeap) : St CHeap :=
  { s with stack := { cells := List.replicate s.stack.cells.length .undefined, sp := 0 },
           bp := 0, ep := usizeMax, acc := .undefined }

def fuelOf (d : Datum) : Nat := 4 * VmCompile.datumSize d + 16

def answerOk (e : Datum) (s s' : St CHeap) (entry : Nat) (ipO : Nat) (rendered : String) : String :=
  let fuel := fuelOf e
  if ipO ≠ 0 then "bad ipo" else
  match compileRunnable e fuel with
  | .error err => "model-err " ++ VmCompile.cErrName err
  | .ok (st, lam, ent) =>
    if installsFastB e fuel s s' entry || installsB e fuel s s' entry then
      (if rendered == VmCompile.renderLambda st lam then "ok" else "bad names")
    else
      match regsWhy s s' with
      | some w => w
      | none =>
        let objs := lam :: ent :: st.lambdas
        let tbl := st.lambdas ++ [lam]
        match stepsWhy (some (tbl, objs)) (loadedQB tbl objs) s.heap s'.heap with
        | some w => w
        | none =>
          if !entryB ent s'.heap entry then "bad entry not-loaded" else
          if !nonFreeB s'.heap entry then "bad entry free" else
          if nonFreeB s.heap entry then "bad entry old" else "bad unknown"

def answerErr (e : Datum) (s s' : St CHeap) : String :=
  match compileRunnable e (fuelOf e) with
  | .ok _ => "model-ok"
  | .error _ =>
    if garbageFastB s s' || garbageB s s' then "ok" else
    match regsWhy s s' with
    | some w => w
    | none => (stepsWhy none codeOkHB s.heap s'.heap).getD "bad unknown"

def handle (args : List String) : Option String :=
  match args with
  | _info :: mode :: ts => do
    let (r0, ts) ← decRegs ts
    let (h0, ts) ← decHeap ts
    let (r1, ts) ← decRegs ts
    let (d, ts) ← decDelta ts
    let (gr, ts) ← decGR ts
    match ts with
    | rendered :: ts => do
      let (e, rest) ← decDatum ts
      if !rest.isEmpty then none else
      if d.cap < h0.cells.size ∨ d.glen < h0.globals.size then pure "bad shrink" else
      let h1 := applyDelta h0 d
      let h1 := { h1 with globSyms := h1.globSyms.filter (fun y => !gr.contains y), symtab := canonSymtab h0 d }
      let s := mkSt r0 h0
      let s' := mkSt { r1 with ipL := r0.ipL, ipO := r0.ipO } h1
      match mode with
      | "ok" =>
        -- since fix f829f65: an ACCEPTED form abandons an evaluation that is still suspended (sp ≠ 0): the real
        -- `prepare_eval` then first resets the registers and wipes the stack exactly as the error path does
        -- (`Vm.onError`); on an idle machine (sp = 0) it leaves them alone. `Installs` is judged from there.
        let sA := if s.stack.sp = 0 then s else abandonRegs s
        pure (answerOk e sA s' r1.ipL r1.ipO rendered)
      | "err" => pure (answerErr e s s')
      | "errgc" => pure (match regsWhy s (mkSt r1 h1) with | some w => w | none => "ok")
      | _ => none
    | [] => none
  | _ => none

end Marwood.Driver.Prep
