import Driver.Wire
import Driver.Store
import Driver.Num
import Driver.Reader
import Marwood.Gen.Builtins
import Marwood.Total
/-!
Driver commands of the Total area (C06).

* `call <name> <tok>…` / `xcall …` — outcome CLASS of the builtin call `(name arg…)` on the boundary
  palette of `harness/src/bin/total.rs`: `ok | err <class> | err | panic <site> | diverge | no-model`.
  Order of the answer: (1) the regenerated table `Gen.builtins` decides arity errors of the Rust
  builtins; (2) all-numeric arguments go to the Num model (`Driver.Num.modelScm`, class only);
  (3) arguments representable in the Store model go to `Driver.Store.runModel` (`list?` to the
  repaired `isListTH`); (4) otherwise `no-model` — the exploration alone stands for that case.
* `value <tok>`  — class of using the palette value as the value of an evaluation (`ok`, or
  `diverge` for circular structure: the result conversion recurses without bound).
* `palette <tok>` — the wire form of the palette value (cross-check of this table against the real VM).
* `text <enc>`   — `scan=<class> parse=<class>` of the text entry points from the Lex/Parse models.
* `gen <name>`   — the arity window of the regenerated table.
-/
namespace Marwood.Driver.Total
open Marwood Marwood.Wire Marwood.Store

/-- token ↦ wire datum of every non-circular palette value (checked against the real VM on every run) -/
def paletteWire : List (String × String) := [
  ("0", "fix:0"),
  ("-1", "fix:-1"),
  ("1", "fix:1"),
  ("2", "fix:2"),
  ("3", "fix:3"),
  ("10", "fix:10"),
  ("37", "fix:37"),
  ("55296", "fix:55296"),
  ("1114112", "fix:1114112"),
  ("1000000", "fix:1000000"),
  ("i32max", "fix:2147483647"),
  ("i32min", "fix:-2147483648"),
  ("i32max+1", "fix:2147483648"),
  ("i32min-1", "fix:-2147483649"),
  ("i64max", "fix:9223372036854775807"),
  ("i64min", "fix:-9223372036854775808"),
  ("i64max+1", "big:9223372036854775808"),
  ("i64min-1", "big:-9223372036854775809"),
  ("u64max", "big:18446744073709551615"),
  ("2^64", "big:18446744073709551616"),
  ("big", "big:100000000000000000000000000000000000000"),
  ("-big", "big:-100000000000000000000000000000000000000"),
  ("1/2", "rat:1/2"),
  ("-1/2", "rat:-1/2"),
  ("rat31", "rat:2147483647/2147483646"),
  ("ratmin", "rat:-2147483648/3"),
  ("ratbig", "flo:43fce97ca0f21055"),
  ("rat0", "rat:0/1"),
  ("rat2", "rat:2/1"),
  ("big0", "big:0"),
  ("big1", "big:1"),
  ("0.0", "flo:0000000000000000"),
  ("-0.0", "flo:8000000000000000"),
  ("1.5", "flo:3ff8000000000000"),
  ("-2.5", "flo:c004000000000000"),
  ("1e308", "flo:7fe1ccf385ebc8a0"),
  ("1e19", "flo:43e158e460913d00"),
  ("5e-324", "flo:0000000000000001"),
  ("+inf", "flo:7ff0000000000000"),
  ("-inf", "flo:fff0000000000000"),
  ("nan", "flo:fff8000000000000"),
  ("ch-a", "c97"),
  ("ch-A", "c65"),
  ("ch-0", "c0"),
  ("ch-9", "c57"),
  ("ch-sp", "c32"),
  ("ch-lam", "c955"),
  ("ch-ss", "c223"),
  ("ch-max", "c1114111"),
  ("ch-arab3", "c1635"),
  ("ch-half", "c189"),
  ("ch-roman4", "c8547"),
  ("ch-fw5", "c65301"),
  ("s-empty", "str:-"),
  ("s-a", "str:97"),
  ("s-abc", "str:97,98,99"),
  ("s-uni", "str:955,120,8594,223,119070"),
  ("s-num", "str:49,48"),
  ("s-1e400", "str:49,101,52,48,48"),
  ("s-lit", "str:108,105,116"),
  ("sym", "sym:97"),
  ("sym-uni", "sym:955"),
  ("sym-quote", "sym:113,117,111,116,101"),
  ("#t", "b1"),
  ("#f", "b0"),
  ("nil", "nil"),
  ("l1", "pair fix:1 nil"),
  ("l3", "pair fix:1 pair fix:2 pair fix:3 nil"),
  ("l-chars", "pair c97 pair c955 nil"),
  ("l-dot", "pair fix:1 fix:2"),
  ("l-dot3", "pair fix:1 pair fix:2 fix:3"),
  ("l-shared", "pair pair fix:1 pair fix:2 nil pair pair fix:1 pair fix:2 nil nil"),
  ("l-alist", "pair pair fix:1 fix:2 pair pair sym:97 sym:98 pair fix:3 nil"),
  ("l-lit", "pair fix:1 pair fix:2 nil"),
  ("l-expr", "pair sym:43 pair fix:1 pair fix:2 nil"),
  ("l-nest", "pair pair pair pair pair pair pair pair fix:1 nil nil nil nil nil nil nil nil"),
  ("v0", "vec0"),
  ("v1", "vec1 fix:1"),
  ("v3", "vec3 fix:1 fix:2 fix:3"),
  ("v-chars", "vec2 c97 c955"),
  ("v-lit", "vec2 fix:1 fix:2"),
  ("v-shared", "vec2 vec2 fix:1 fix:2 vec2 fix:1 fix:2"),
  ("v-nest", "vec1 vec1 vec1 pair vec0 nil"),
  ("p-builtin", "proc:99,97,114"),
  ("p-lambda", "proc:40,955,32,40,120,41,41"),
  ("p-varargs", "proc:40,955,32,97,114,103,115,41"),
  ("p-thunk", "proc:40,955,32,40,41,41"),
  ("p-prelude", "proc:40,955,32,40,108,105,115,116,41,41"),
  ("p-closure", "proc:40,955,32,40,120,41,41"),
  ("cont", "cont"),
  ("macro", "macro"),
  ("unspec", "void"),
  ("l-proc", "pair sym:113,117,111,116,101 pair proc:99,97,114 nil"),
  ("v-proc", "vec1 proc:99,97,114"),
  ("l-cont", "pair cont nil"),
  ("l-unspec", "pair void nil")
]

def circTokens : List String := ["circ-cdr", "circ-self", "circ-car", "circ-vec", "circ-vl", "circ-lv"]

def decPalette (tok : String) : Option Datum := do
  let w ← paletteWire.lookup tok
  let (d, rest) ← decDatum ((w.splitOn " ").filter (· ≠ ""))
  if rest.isEmpty then some d else none

/-! ## loading palette values into the Store model -/

def resOk : Marwood.Store.Res → Option (Store × VCell)
  | .ok r => some r
  | _ => none

/-- a datum as the VM builds it (`cons` / `vector` / string and symbol cells); `none` when the
    Store model has no such value (rationals, doubles, closures, continuations, macros) -/
partial def load (s : Store) : Datum → Option (Store × VCell)
  | .bool b => some (s, .bool b)
  | .char c => some (s, .char c)
  | .nil => some (s, .nil)
  | .void => some (s, .void)
  | .undefined => some (s, .undef)
  | .num (.fix n) => some (s, .num n)
  | .num (.big n) => some (s, .num n)
  | .num _ => none
  | .sym t => some (s.put (.sym t))
  | .str t => let (s, v) := s.newStr t; some (s.put v)
  | .pair a d => do
    let (s, av) ← load s a
    let (s, dv) ← load s d
    resOk (Store.cons s [av, dv])
  | .vec e => do
    let (s, vs) ← e.listElems.foldlM (init := (s, ([] : List VCell))) fun (acc : Store × List VCell) x => do
      let (s, v) ← load acc.1 x
      pure (s, acc.2 ++ [v])
    resOk (Store.vector s vs)
  | .procedure (some d) => if d == "car".toList then some (s.put (.builtin "car")) else none
  | _ => none

/-- the circular palette values, built the way the Scheme expressions build them -/
def loadCirc (s : Store) (tok : String) : Option (Store × VCell) := do
  let (s, one) := s.put (.num 1)
  let (s, two) := s.put (.num 2)
  let (s, nilv) := s.put .nil
  let o ← (one.asPtr : Outcome Nat) |> fun | .ok a => some a | _ => none
  let t ← (two.asPtr : Outcome Nat) |> fun | .ok a => some a | _ => none
  let n ← (nilv.asPtr : Outcome Nat) |> fun | .ok a => some a | _ => none
  let okS : Outcome Store → Option Store := fun | .ok s => some s | _ => none
  match tok with
  | "circ-cdr" =>
    -- (let ((c (list 1 2))) (set-cdr! (cdr c) c) c)
    let (s, p2) := s.alloc (.pair t n)
    let (s, p1) := s.alloc (.pair o p2)
    let s ← okS (s.setCell p2 (.pair t p1))
    some (s, .ptr p1)
  | "circ-self" =>
    let (s, p1) := s.alloc (.pair o n)
    let s ← okS (s.setCell p1 (.pair o p1))
    some (s, .ptr p1)
  | "circ-car" =>
    let (s, p2) := s.alloc (.pair t n)
    let (s, p1) := s.alloc (.pair o p2)
    let s ← okS (s.setCell p1 (.pair p1 p2))
    some (s, .ptr p1)
  | "circ-vec" =>
    let (s, v) := s.newVec [.num 1, .num 2]
    let (s, a) := s.alloc v
    let id := s.vecs.length - 1
    let s ← okS (s.vecSet id [.ptr a, .num 2])
    some (s, .ptr a)
  | "circ-vl" =>
    let (s, v) := s.newVec [.num 1]
    let (s, a) := s.alloc v
    let id := s.vecs.length - 1
    let (s, b) := s.alloc (.pair a n)
    let s ← okS (s.vecSet id [.ptr b])
    some (s, .ptr a)
  | "circ-lv" =>
    let (s, p2) := s.alloc (.pair t n)
    let (s, p1) := s.alloc (.pair o p2)
    let (s, v) := s.newVec [.ptr p1]
    let (s, a) := s.alloc v
    let s ← okS (s.setCell p2 (.pair a n))
    some (s, .ptr p1)
  | _ => none

def loadTok (s : Store) (tok : String) : Option (Store × VCell) :=
  if circTokens.contains tok then loadCirc s tok
  else (decPalette tok).bind (load s)

def loadArgs (s : Store) : List String → Option (Store × List VCell)
  | [] => some (s, [])
  | t :: ts => do
    let (s, v) ← loadTok s t
    let (s, vs) ← loadArgs s ts
    some (s, v :: vs)

/-! ## classes -/

def errClass : Err → String
  | .arity => "arity"
  | .pair => "type"
  | .type => "type"
  | .syntax => "syntax"
  | .vindex => "range"
  | .sindex => "range"
  | .unbound => "unbound"
  | .notProc => "not-procedure"

def classOfRes : Marwood.Store.Res → String
  | .ok _ => "ok"
  | .err e => "err " ++ errClass e
  | .panic site => "panic " ++ site.replace " " "_"
  | .diverge => "diverge"

def classOfNum (r : String) : String :=
  if r.startsWith "ok" then "ok"
  else if r.startsWith "err" then "err"
  else "panic num-model"

def numOfTok (tok : String) : Option Marwood.Num :=
  match decPalette tok with
  | some (.num n) => some n
  | _ => none

def genWindow (name : String) : Option (Nat × Option Nat) :=
  (Marwood.Gen.builtins.find? (·.1 == name)).map (·.2)

def outsideWindow (w : Nat × Option Nat) (argc : Nat) : Bool :=
  argc < w.1 || (match w.2 with | some mx => argc > mx | none => false)

def callClass (name : String) (toks : List String) : Option String := do
  -- every token must be a palette token
  if !(toks.all fun t => circTokens.contains t || (paletteWire.lookup t).isSome) then none
  let arityErr := match genWindow name with
    | some w => outsideWindow w toks.length
    | none => false
  if arityErr then some "err arity"
  else
    match toks.mapM numOfTok with
    | some nums =>
      match (if nums.isEmpty then none else Marwood.Driver.Num.modelScm name nums) with
      | some r => some (classOfNum r)
      | none => storeClass name toks
    | none => storeClass name toks
where
  storeClass (name : String) (toks : List String) : Option String :=
    match loadArgs Store.empty toks with
    | none => some "no-model"
    | some (s, args) =>
      let fuel := 4 * (Marwood.Driver.Store.fuelOf s) + 64
      if name == "list?" then some (classOfRes (isListTH fuel s args))
      -- `map` / `for-each` (prelude closures; since the repair `(map f)` without a list is the arity error
      -- of the closure, which `Store.map` / `Store.forEach` answer themselves): the procedure argument is a
      -- palette VALUE, i.e. a reference to the builtin's cell — the C14 callee model wants the name
      else if name == "map" || name == "for-each" then
        let args' := match args with
          | f :: ls => (match s.get f with | .ok (.builtin n) => VCell.builtin n | _ => f) :: ls
          | [] => []
        match Marwood.Driver.Store.runModel (Marwood.Driver.Store.tableOf []) s name args' with
        | some r => some (classOfRes r)
        | none => some "no-model"
      else
        match Marwood.Driver.Store.runModel (Marwood.Driver.Store.tableOf []) s name args with
        | some r => some (classOfRes r)
        | none => some "no-model"

def valueClass (tok : String) : Option String :=
  if circTokens.contains tok then some "diverge"
  else (paletteWire.lookup tok).map fun _ => "ok"

def parseClass (e : ParseErr) : String :=
  match e with
  | .lex _ => "err_parse-other"   -- `parse::Error::LexError` inside `Error::ParseError`
  | .incomplete => "err_parse-incomplete"
  | _ => "err_parse-other"

def textClass (cs : Text) : String :=
  let sc := match scan cs with
    | .ok _ => "ok"
    | .error _ => "err_lex"
  let pc := match parseText (Marwood.Driver.Reader.oracleOps []) cs with
    | .ok (d, _) => if Marwood.Driver.Reader.datumPoisoned d then "unknown" else "ok"
    | .err e => parseClass e
    | .panic m => "panic_" ++ m.replace " " "_"
  s!"scan={sc} parse={pc}"

/-- `=k` as an argument token: the very same object as argument `k` (the harness binds it once and passes it
    twice). The models are value based — sharing cannot change the outcome CLASS of a call — so the token is
    replaced by the one it refers to. -/
def resolveShared (toks : List String) : List String :=
  toks.map fun t =>
    match t.toList with
    | '=' :: ds => (match (String.ofList ds).toNat? with
        | some k => toks.getD k t
        | none => t)
    | _ => t

def handle (cmd : String) (args : List String) : Option String :=
  match cmd, args with
  | "call", name :: toks => callClass name (resolveShared toks)
  | "xcall", name :: toks => callClass name toks
  | "value", [tok] => valueClass tok
  | "palette", [tok] =>
    if circTokens.contains tok then some "circular"
    else (paletteWire.lookup tok).map fun w => "ok " ++ w
  | "text", [t] => (decText t).map textClass
  | "gen", [name] => (genWindow name).map fun w =>
      s!"{w.1} " ++ (match w.2 with | some m => toString m | none => "inf")
  | _, _ => none

end Marwood.Driver.Total
