import Driver.Wire
/-! Driver commands of the Total area (filled in by the area's owner). -/
namespace Marwood.Driver.Total

def handle (_cmd : String) (_args : List String) : Option String := none

end Marwood.Driver.Total
