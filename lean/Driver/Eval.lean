import Driver.Wire
import Driver.Reader
import Marwood.Spec.Eval
/-! Driver commands of the Eval area (C01).

`eval-session <fuel> F:<features> <form-text>…` — the second argument is the generator's feature tag
(ignored here, histogram material for the plugin); every argument after it is the wire text of one top-level
form; the forms are read with the reader model (`parseText`) and evaluated by `Spec.Eval` in a fresh
instance. Answer: the per-form results `ok <datum>` / `err <class>` / `timeout` joined by ` | `, then
` || ` and the output log (`d:<datum>` for display, `w:<datum>` for write). -/
namespace Marwood.Driver.Eval
open Marwood Marwood.Wire Marwood.Spec.Eval

/-- error classes at the granularity R7RS gives them: an unbound variable, a non-procedure in operator
    position, an error raised by `error`, and "it is an error" for everything else (arity, domain,
    index, syntax — the implementation spreads these over several classes: `(if 1 2 3 4)` is an arity
    error, `(quote)` a type error, `(+ 1 "a")` a syntax error) -/
def errName : ErrClass → String
  | .unbound => "unbound" | .notProcedure => "not-procedure" | .user => "user" | .internal => "internal"
  | .arity | .type | .syntax | .range => "wrong"

def showRes : FormRes → String
  | .ok d => "ok " ++ encDatum d
  | .err e => "err " ++ errName e
  | .timeout => "timeout"

/-- the grammar has no inexact numbers: no spelling is a double (a spelling that is one reads as a
    symbol here and the comparison with the implementation fails loudly) -/
def noFloats : FloatOps where
  parseF64 _ _ := none
  bigRatToF64 _ _ := ⟨0⟩
  toExact _ := none
  toInexact _ := ⟨0⟩
  fmtExp _ := []
  fmtFix1 _ := []
  fmtShort _ := []
  fmtRadix _ _ := []

def readForm (w : String) : Option Datum := do
  let t ← decText w
  match parseText noFloats t with
  | .ok (d, none) => some d
  | _ => none

def showSession (fuel : Nat) (forms : List Datum) : String :=
  let (rs, fin) := runSession fuel forms initSt
  let out := match fin with
    | some st => st.out.map fun (w, d) => (if w then "w:" else "d:") ++ encDatum d
    | none => ["?"]
  " | ".intercalate (rs.map showRes) ++ " || " ++ " ".intercalate out

def handle (cmd : String) (args : List String) : Option String :=
  match cmd, args with
  | "eval-session", fuel :: _features :: forms => do
    let n ← fuel.toNat?
    let ds ← forms.mapM readForm
    pure (showSession n ds)
  | _, _ => none

end Marwood.Driver.Eval
