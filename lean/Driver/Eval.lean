import Driver.Wire
/-! Driver commands of the Eval area (filled in by the area's owner). -/
namespace Marwood.Driver.Eval

def handle (_cmd : String) (_args : List String) : Option String := none

end Marwood.Driver.Eval
