; a continuation captured BETWEEN a counter guard and the jump it guards re-runs the jump without the guard;
; two such sites can form a cycle (found while writing the generator: both VM and spec loop). Here bounded by g.
(define kk0 #f)
(define kk1 #f)
(define g 0)
(define c 0)
(+ 1 (call/cc (lambda (k) (set! kk0 k) 1)))
(if (< c 1) (begin (set! c (+ c 1)) (kk0 (call/cc (lambda (j) (set! kk1 j) 5)))) 'skipped)
(begin (set! g (+ g 1)) (if (< g 4) (kk1 g) 'done))
g
