; a STORED CONTINUATION as the receiver of call/cc (coroutine hand-off): a continuation is a procedure, so call/cc passes
; it the current continuation (seed C05f-2). Kept well typed: the continuation value lands in a list, never in arithmetic
; (marwood answers #f, not an error, when < is given a non-number; R7RS leaves that open and the specification chooses an error).
(define k0 #f)
(define c 0)
(define r (list 'a (call/cc (lambda (k) (set! k0 k) 1)) 'z))
r
(if (< c 1) (begin (set! c (+ c 1)) (list 'handed (call/cc k0))) 'done)
(procedure? (car (cdr r)))
(car r)
(define back (car (cdr r)))
(if (< c 2) (begin (set! c (+ c 1)) (back 'resumed)) 'done)
c
(define ping #f)
(define log '())
(define (pong-side) (set! log (cons 'pong log)) (if (procedure? ping) (call/cc ping) 'no-ping))
(define res (list (call/cc (lambda (k) (set! ping k) 'first)) (length log)))
res
(if (< (length log) 2) (pong-side) 'enough)
(procedure? (car res))
log
