; hand-written session: every C05 scenario family + the derived forms of Spec.Eval through the CPS machine
(define kk #f)
(define g 0)
(+ 1 (call/cc (lambda (k) (* 2 (k 5)))))
(+ 1 (call/cc (lambda (k) 7)))
(define r (+ 3 (call/cc (lambda (k) (set! kk k) 4))))
r
(begin (set! g (+ g 1)) (kk 10) 'never)
r
g
(define cnt 0)
(define lst (list (begin (set! cnt (+ cnt 1)) cnt) (call/cc (lambda (k) (set! kk k) 5)) (begin (set! cnt (+ cnt 10)) cnt)))
lst
(kk 9)
lst
(call/cc (lambda (k) (k)))
(+ 2 (call/cc (lambda (k) (k 1 2 3))))
(call/cc 5)
(procedure? (call/cc (lambda (k) k)))
(call/cc (lambda (k) k))
(define r (map (lambda (x) (call/cc (lambda (k) (if (= x 2) (set! kk k)) (+ x 1)))) '(1 2 3)))
(define first r)
(if (< g 3) (begin (set! g (+ g 1)) (kk 50)) 'done)
r
first
(+ 1 (apply call/cc (list (lambda (k) (+ 100 (k 3))))))
(define total (let loop ((i 0) (acc 0)) (if (= i 3) acc (loop (+ i 1) (+ acc (call/cc (lambda (k) (if (= i 1) (set! kk k)) 2)))))))
total
(kk 10)
total
(list (call/cc (lambda (k) k)) 1)
`(1 ,(+ 1 1) #(a ,(call/cc (lambda (k) (k 3)))))
(let ((x 1) (y 2)) (define z 3) (+ x y z))
(let* ((x 1) (y (+ x 1))) (cond ((= y 3) 'no) ((assv 2 '((1 . a) (2 . b))) => cdr) (else 'e)))
(letrec ((ev? (lambda (n) (if (= n 0) #t (od? (- n 1))))) (od? (lambda (n) (if (= n 0) #f (ev? (- n 1)))))) (ev? 10))
(case 3 ((1 2) 'a) ((3) 'b) (else 'c))
(force (delay (+ 1 2)))
(eval '(+ 1 2))
(for-each (lambda (x) (display x)) '(1 2))
(and 1 2 (or #f 3))
(when (> 1 0) 'x 'y)
(unless (> 1 0) 'x 'y)
(call-with-current-continuation (lambda (k) (map (lambda (x) (if (= x 2) (k 'out) x)) '(1 2 3))))
