; one datum per line, read by the real reader; every line goes through write/read/write, the
; source-text -> heap -> result -> text trip, and eval of (quote d)
; --- the quote sugar and its neighbours
(quote x)
(quote)
(quote a b)
(quote . a)
(a quote b)
(a . (quote b))
((quote quote) (quote (quote ())))
(quasiquote (a (unquote b)))
#((quote a) quote a)
; --- characters and strings with every escape of the printer
(#\space #\newline #\x7 #\x0 #\x7f #\x9f #\xa0 #\x #\a #\( #\) #\; #\" #\\ #\' #\x41 #\λ)
"a\"b\\c\td\ne\rf\x1b;g\x7;h\x8;i\xb;j\xc;k\x1;l\x7f;m\x9f;n\xa0;o"
""
#\x2028
; --- numbers of every representation
(0 -0 1 -1 9223372036854775807 -9223372036854775808 9223372036854775808 -9223372036854775809)
(1/2 -1/2 2147483647/2 -2147483648/3 123456789012345678901234567890)
(0.0 -0.0 1.0 -1.0 0.5 0.1 1e10 10000000001.0 1e11 1e21 1e22 1.7976931348623157e308 5e-324 -1e11 12345.678)
; --- symbols: plain, peculiar, number-like tokens that are not numbers
(+ - ... -> 1+ -a a.b .. .a +. 1/0 12ab 1.2.3 a;b a\x41;b \ inf -inf +inf nan)
; --- a symbol the reader produces only behind a radix prefix (known finding C10-prefix-symbol)
#b12
(#o9 #b1/2)
; --- shapes
()
(())
(() . ())
(a . b)
(a b . c)
((a . b) . (c . d))
#()
#(#() (#()) #(a (b)))
(a . #(1 2))
(1 . 2.5)
(a. . b)
