; the stack pointer reaches the LAST slot of the 256-slot stack vector with the sole reference to a fresh closure in it,
; under a collection before every instruction (seed C03f-2: a root scan clamped to len-1); alignment 7 of 9, fresh VM per file
(define (keep a b c f rest) (cons (f) rest))
(define (go n) (if (= n 0) '() (keep n n n (lambda () (cons n n)) (go (- n 1)))))
(vector 0 0 0 0 0 0 0 (go 70))
