;; design-time witness (pinned tree, before any fix): with a collection forced every 5 instructions this
;; session panics with "%ip is not a procedure" at (define l1 ...): the marker treats JMP/JNT operands
;; (bytecode offsets stored as VCell::Ptr) as heap pointers, re-marks a free cell as allocated, and the
;; next sweep pushes it on the free list twice. Without forced collections every form succeeds.
(define (big n) (cond ((= n 0) 0) ((= n 1) 1) ((= n 2) 2) ((= n 3) 3) ((= n 4) 4) ((= n 5) 5) ((= n 6) 6) ((= n 7) 7) ((= n 8) 8) ((= n 9) 9) ((= n 10) 10) ((= n 11) 11) ((= n 12) 12) ((= n 13) 13) ((= n 14) 14) ((= n 15) 15) ((= n 16) 16) ((= n 17) 17) ((= n 18) 18) ((= n 19) 19) ((= n 20) 20) ((= n 21) 21) ((= n 22) 22) ((= n 23) 23) ((= n 24) 24) ((= n 25) 25) ((= n 26) 26) ((= n 27) 27) ((= n 28) 28) ((= n 29) 29) ((= n 30) 30) ((= n 31) 31) ((= n 32) 32) ((= n 33) 33) ((= n 34) 34) ((= n 35) 35) ((= n 36) 36) ((= n 37) 37) ((= n 38) 38) ((= n 39) 39) ((= n 40) 40) ((= n 41) 41) ((= n 42) 42) ((= n 43) 43) ((= n 44) 44) ((= n 45) 45) ((= n 46) 46) ((= n 47) 47) ((= n 48) 48) ((= n 49) 49) ((= n 50) 50) ((= n 51) 51) ((= n 52) 52) ((= n 53) 53) ((= n 54) 54) ((= n 55) 55) ((= n 56) 56) ((= n 57) 57) ((= n 58) 58) ((= n 59) 59) (else (list n (big (- n 1))))))
(define (churn n) (if (= n 0) 'ok (begin (list n n n) (churn (- n 1)))))
(big 63)
(churn 300)
(define (big n) n)
(churn 300)
(define (iota n acc) (if (= n 0) acc (iota (- n 1) (cons n acc))))
(define l1 (iota 3000 '()))
(define l2 (iota 3000 '()))
(define (sum l acc) (if (null? l) acc (sum (cdr l) (+ acc (car l)))))
(sum l1 0)
(sum l2 0)
(length l1)
(length l2)
