; fixed in 43d0413: VPUSH left the DEREFERENCED vector in %acc; MOV stored that inline Vector(Rc) in a global
; slot, which run_gc does not follow (global slots are marked only when they are pointers), so after a few
; collections (vector-ref v 0) was #<undefined> or whatever had reused the cell (under every forced-collection
; schedule 1..16, 64 the transcript differed from the schedule-free one). Kept small on purpose: on the
; unrepaired code longer read-backs walk recycled cells and can exhaust the native stack.
(define v `#(,(list 1 2)))
(define (f x) `#(1 ,x))
(define u (f (list 5 6)))
(define (churn n) (if (= n 0) 'ok (begin (list n n n) (churn (- n 1)))))
(churn 300)
(vector-ref v 0)
(vector-ref u 1)
