; fixed in e0db8cb: a quasiquoted vector template was one vector shared by all evaluations
(define (h) `#(1 ,(+ 1 1)))
(h)
(h)
(define v1 (h))
(vector-set! v1 0 'z)
(h)
v1
(define (h2 a) `(1 #(,a #(,(* a 2)) x) ,a))
(h2 1)
(h2 2)
(let loop ((i 0) (acc '())) (if (< i 3) (loop (+ i 1) (cons `#(,i) acc)) acc))
