; internal definitions that shadow a lexical variable of the enclosing procedure (parameter, internal define,
; let variable shared with a sibling closure, captured variable): the inner define makes a NEW local
(define (outer y) (define (inner) (define y 10) (+ y 1)) (let ((r (inner))) (list r y)))
(outer 1)
(outer 5)
(define y 100)
((lambda (x) (define y 10) (+ x y)) 20)
y
(define (make) (define x 1) (define (get) x) (define (shadow) (define x 99) x) (list (shadow) (get) x))
(make)
(define (f) (let ((acc '())) (define (push! x) (set! acc (cons x acc))) (define (helper) (define acc 'local) acc) (push! 1) (helper) (push! 2) acc))
(f)
(define (g v) (lambda () (define (h) (define v 'inner) v) (list (h) v)))
((g 'outer))
(define (k h) (define (inner) (define (h v i) (+ v i)) (h 1 2)) (list (inner) (h 10)))
(k (lambda (z) (* z 2)))
