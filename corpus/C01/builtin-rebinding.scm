; late binding of globals that currently hold BUILT-IN procedures: code compiled earlier must see a later
; redefinition / assignment of car, abs, or of a user alias of a builtin
(define (second l) (car (cdr l)))
(define pick car)
(define (first-of l) (pick l))
(second '(1 2 3))
(first-of '(1 2 3))
(define (car p) 'mine)
(second '(1 2 3))
(car '(9))
(set! pick cdr)
(first-of '(1 2 3))
(define (mag x) (abs x))
(mag -5)
(define (abs x) 'no-abs)
(mag -5)
; a zero-parameter procedure with an internal definition, activated twice through the same closure: separate
; activations get separate locations
(define (make-counter) (define count 0) (lambda () (set! count (+ count 1)) count))
(define c1 (make-counter))
(define c2 (make-counter))
(list (c1) (c1) (c2) (c1))
(define (walk) (define depth 0) (define (in n) (if (= n 0) depth (begin (set! depth (+ depth 1)) (in (- n 1))))) (in 2))
(list (walk) (walk))
