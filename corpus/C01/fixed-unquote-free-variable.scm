; fixed in f2dec47: free variables of unquoted expressions were not captured by an enclosing lambda
(define (f x) (lambda (y) `(,x ,y)))
((f 1) 2)
(define (g2 a) (lambda (b) (lambda (c) `(,a #(,b ,c) (x ,(+ a b c)) `(n ,(m ,a))))))
(((g2 1) 2) 3)
(define (g3 a) (lambda () `(a ,a 'a)))
((g3 7))
