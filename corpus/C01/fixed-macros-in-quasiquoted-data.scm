; fixed in 9750711: macros were expanded inside quasiquoted data
`(1 (when 2 3) ,(+ 1 2))
`(let ((a 1)) a)
`(1 ,(when #t 5) (and 1 2))
(let ((x 2)) `(or ,(or #f x) #(when ,(and x 1))))
`(1 `(2 ,(when ,(when #t 4))))
(when #t `(when 1 2))
(list `(unless ,(unless #f 'u)))
