//! C16: number->string / string->number through the VM (Scheme-level results), with the
//! float oracle for everything about doubles that the Lean side does not model.
use super::rp::*;
use marwood::cell::Cell;
use marwood::error::Error;
use marwood::number::Number;
use marwood::vm::Vm;
use mwv::rng::Rng;
use mwv::wire::*;
use num::bigint::BigInt;
use num::Rational32;
use std::panic::AssertUnwindSafe;

pub fn vm_err_class(e: &Error) -> String {
    match e {
        Error::InvalidNumArgs(_) => "InvalidNumArgs".into(),
        Error::InvalidSyntax(_) => "InvalidSyntax".into(),
        Error::InvalidArgs(_, _, _) => "InvalidArgs".into(),
        Error::VariableNotBound(_) => "VariableNotBound".into(),
        Error::ParseError(p) => format!("Parse:{}", parse_err_class(p)),
        Error::LexError(_) => "Lex".into(),
        _ => "Other".into(),
    }
}

/// call a builtin on argument *values* (quoted, so any representation passes through)
pub fn call(vm: &mut Vm, name: &str, args: &[Cell]) -> Result<Result<Cell, Error>, String> {
    let mut form = vec![Cell::new_symbol(name)];
    for a in args {
        form.push(Cell::new_list(vec![Cell::new_symbol("quote"), a.clone()]));
    }
    let form = Cell::new_list(form);
    let mut vmref = AssertUnwindSafe(vm);
    catch(move || vmref.eval(&form))
}

pub fn show_call(r: &Result<Result<Cell, Error>, String>) -> String {
    match r {
        Err(_) => "panic".into(),
        Ok(Ok(c)) => format!("ok {}", enc_datum(c)),
        Ok(Err(e)) => format!("err {}", vm_err_class(e)),
    }
}

fn random_bits_f64(rng: &mut Rng) -> f64 {
    match rng.below(10) {
        0 => *rng.pick(&[0.0, -0.0, 1.0, -1.0, 0.5, 0.1, 1e10, 1e10 + 1.0, 9999999999.0, 1e21, 1e22, 1e23,
                         1e-7, 1.5e-10, 123456789012345680.0, 4.9e-324, 1.7976931348623157e308,
                         2.2250738585072014e-308, 9007199254740992.0, 9007199254740993.0, 0.3, 2.5, 1e15, 1e16,
                         12345.678, -1e10, -1e11, 10000000000.5, f64::INFINITY, f64::NEG_INFINITY, f64::NAN]),
        1 => (rng.range(-100000, 100000) as f64) / 8.0,
        2 => rng.range(-1000000, 1000000) as f64,
        3 => (rng.next() >> 11) as f64 * (1.0 / (1u64 << 53) as f64),
        4 => {
            // near the 1e10 switch and integral boundaries
            let b = 1e10f64.to_bits() as i64 + rng.range(-3, 3);
            f64::from_bits(b as u64)
        }
        _ => f64::from_bits(rng.next()),
    }
}

pub fn random_number(rng: &mut Rng) -> Number {
    match rng.below(12) {
        0 => Number::Fixnum(*rng.pick(&[0, 1, -1, 5, -5, 255, -255, i64::MAX, i64::MIN, i64::MAX - 1, i64::MIN + 1,
                                        i32::MAX as i64, i32::MIN as i64, 1 << 53, -(1 << 53), 10000000000])),
        1 | 2 => Number::Fixnum(rng.next() as i64 >> rng.below(64)),
        3 => Number::Fixnum(rng.range(-1000, 1000)),
        4 => {
            // bignums across the fixnum boundary, and small values in BigInt representation
            let base = BigInt::from(*rng.pick(&[i64::MAX, i64::MIN, 0i64, 1, -1, 1000]));
            Number::new_bigint(base + BigInt::from(rng.range(-3, 3)))
        }
        5 | 6 => {
            let mut b = BigInt::from(rng.next());
            for _ in 0..rng.below(4) {
                b = b * BigInt::from(rng.next()) + BigInt::from(rng.below(1000));
            }
            if rng.chance(1, 2) {
                b = -b;
            }
            Number::new_bigint(b)
        }
        7 | 8 => loop {
            let n = match rng.below(4) {
                0 => *rng.pick(&[i32::MAX, i32::MIN, i32::MIN + 1, 1, -1]),
                1 => rng.range(-100, 100) as i32,
                _ => rng.next() as i32 >> rng.below(32),
            };
            let d = match rng.below(4) {
                0 => *rng.pick(&[i32::MAX, 2, 3, 7]),
                1 => rng.range(2, 100) as i32,
                _ => (rng.next() as i32 >> rng.below(31)).checked_abs().unwrap_or(7),
            };
            if d < 2 {
                continue;
            }
            let r = Rational32::new(n, d);
            if !r.is_integer() {
                break Number::Rational(r);
            }
        },
        _ => Number::Float(random_bits_f64(rng)),
    }
}

fn is_exact(n: &Number) -> bool {
    !matches!(n, Number::Float(_))
}

/// the two procedures in sequence, as Scheme sees them
pub fn roundtrip_line(vm: &mut Vm, z: &Number, radix: u32) -> String {
    let mut o = Oracle::default();
    if let Number::Float(f) = z {
        o.add_print(*f, true);
    }
    let zc = Cell::Number(z.clone());
    let rc = Cell::Number(Number::Fixnum(radix as i64));
    let s = call(vm, "number->string", &[zc, rc.clone()]);
    let imp = match &s {
        Ok(Ok(Cell::String(text))) => {
            o.add_parse(text, radix, false);
            let back = call(vm, "string->number", &[Cell::String(text.clone()), rc]);
            format!("ok {} {}", enc_text(text), show_call(&back).trim_start_matches("ok "))
        }
        other => show_call(other),
    };
    format!("c16-roundtrip {} {} {}\t{}\tspec-canon {}", o.render(), enc_num(z), radix, imp, enc_num(z))
}

pub fn random_arg(rng: &mut Rng) -> Cell {
    match rng.below(10) {
        0 => Cell::new_string(*rng.pick(&["10", "ff", "-1101", "1/2", "abc", "", "1e3", "z", "1_0"])),
        1 => Cell::Bool(rng.chance(1, 2)),
        2 => Cell::new_symbol("x"),
        3 => Cell::Char('a'),
        4 => Cell::Nil,
        5 => Cell::Number(Number::Float(*rng.pick(&[10.0, 2.0, 16.5, -1.0, f64::NAN]))),
        6 => Cell::Number(Number::new_bigint(BigInt::from(*rng.pick(&[10i64, 16, 2, -1, 0, 37])))),
        7 => Cell::Number(Number::new_bigint(
            BigInt::from(u64::MAX) + BigInt::from(*rng.pick(&[0i64, 1, 11])),
        )),
        _ => Cell::Number(Number::Fixnum(*rng.pick(&[
            0, 1, 2, 3, 7, 8, 10, 16, 35, 36, 37, 100, -1, -16, 4294967296 + 10, 4294967296 + 16, 4294967296,
            4294967296 + 1, i64::MAX,
        ]))),
    }
}

pub fn proc_line(vm: &mut Vm, rng: &mut Rng) -> String {
    let n2s = rng.chance(1, 2);
    let argc = *rng.pick(&[0usize, 1, 1, 2, 2, 2, 2, 3]);
    let mut args: Vec<Cell> = vec![];
    let mut o = Oracle::default();
    for i in 0..argc {
        let a = if i == 0 && rng.chance(3, 4) {
            if n2s {
                Cell::Number(random_number(rng))
            } else {
                let r = *rng.pick(&[2u32, 8, 10, 16, 36, 3]);
                Cell::new_string(&gen_number_spelling(rng, r))
            }
        } else {
            random_arg(rng)
        };
        args.push(a);
    }
    // oracle: every double among the arguments printed every way; every string parsed in the radix
    for a in &args {
        if let Cell::Number(Number::Float(f)) = a {
            o.add_print(*f, true);
        }
    }
    if !n2s {
        if let Some(Cell::String(s)) = args.first() {
            let radix = match args.get(1) {
                None => Some(10u32),
                Some(Cell::Number(n)) => n.to_usize().map(|u| u as u32),
                _ => None,
            };
            if let Some(r) = radix {
                o.add_parse(s, r, false);
            }
        }
    }
    let name = if n2s { "number->string" } else { "string->number" };
    let r = call(vm, name, &args);
    let enc: Vec<String> = args.iter().map(enc_datum).collect();
    format!(
        "{} {} {}\t{}",
        if n2s { "proc-n2s" } else { "proc-s2n" },
        o.render(),
        enc.join(" "),
        show_call(&r)
    )
}

/// a printed number used as a source literal with the radix prefix, against string->number
pub fn literal_line(vm: &mut Vm, z: &Number, radix: u32) -> Option<String> {
    let zc = Cell::Number(z.clone());
    let rc = Cell::Number(Number::Fixnum(radix as i64));
    let s = match call(vm, "number->string", &[zc, rc.clone()]) {
        Ok(Ok(Cell::String(s))) => s,
        _ => return None,
    };
    let prefix = match radix {
        2 => "#b",
        8 => "#o",
        16 => "#x",
        _ => "#d",
    };
    let src = format!("(quote {}{})", prefix, s);
    let mut o = Oracle::default();
    o.add_parse(&s, radix, true);
    let mut vmref = AssertUnwindSafe(&mut *vm);
    let lit = match catch(move || {
        vmref
            .eval_text(&src)
            .map(|(c, rest)| (c, rest.map(|r| r.to_string())))
    }) {
        Err(_) => "panic".to_string(),
        Ok(Ok((c, None))) => enc_datum(&c),
        Ok(Ok((_, Some(_)))) => "trailing".to_string(),
        Ok(Err(Error::ParseError(p))) => format!("err:{}", parse_err_class(&p)),
        Ok(Err(e)) => format!("err:{}", vm_err_class(&e)),
    };
    let via = match call(vm, "string->number", &[Cell::String(s.clone()), rc]) {
        Err(_) => "panic".to_string(),
        Ok(Ok(c)) => enc_datum(&c),
        Ok(Err(e)) => format!("err:{}", vm_err_class(&e)),
    };
    Some(format!("c16-literal {} {} {}\tok {} {}", o.render(), enc_text(&s), radix, lit, via))
}

/// decimal spellings with a signed exponent (fix c1c04ca), spellings the printers produce, and the
/// hand-written near-miss family; only characters that cannot end the datum inside `(quote …)`
pub fn gen_source_spelling(vm: &mut Vm, rng: &mut Rng) -> String {
    let s = match rng.below(8) {
        0 | 1 => {
            // what marwood's printer produces (radix 10)
            let z = random_number(rng);
            match call(vm, "number->string", &[Cell::Number(z)]) {
                Ok(Ok(Cell::String(s))) => s,
                _ => "0".to_string(),
            }
        }
        2 | 3 => {
            // what Rust's {:e} produces for a double, with the marker / sign variants string->number accepts
            let f = match random_number(rng) {
                Number::Float(f) => f,
                other => other.to_inexact().and_then(|n| if let Number::Float(f) = n { Some(f) } else { None }).unwrap_or(1e-7),
            };
            let mut t = format!("{:e}", f);
            if rng.chance(1, 3) {
                t = t.replace('e', "E");
            }
            if rng.chance(1, 2) {
                // an explicit plus on a non-negative exponent
                if let Some(i) = t.find(['e', 'E']) {
                    if !t[i + 1..].starts_with('-') {
                        t.insert(i + 1, '+');
                    }
                }
            }
            if rng.chance(1, 6) && !t.starts_with('-') {
                t.insert(0, '+');
            }
            if rng.chance(1, 6) && (t.starts_with("0.") || t.starts_with("-0.")) {
                t = t.replacen("0.", ".", 1);
            }
            t
        }
        _ => gen_signed_exponent(rng),
    };
    s.chars()
        .filter(|c| c.is_ascii_alphanumeric() || ".+-/_@#".contains(*c))
        .collect()
}

/// a spelling used as an unprefixed source literal, against string->number of the spelling
pub fn source_line(vm: &mut Vm, s: &str) -> String {
    let src = format!("(quote {})", s);
    let mut o = Oracle::default();
    o.add_parse(s, 10, true);
    oracle_for_text(&src, &mut o);
    let mut vmref = AssertUnwindSafe(&mut *vm);
    let src2 = src.clone();
    let lit = match catch(move || {
        vmref
            .eval_text(&src2)
            .map(|(c, rest)| (c, rest.map(|r| r.to_string())))
    }) {
        Err(_) => "panic".to_string(),
        Ok(Ok((c, None))) => enc_datum(&c),
        Ok(Ok((_, Some(_)))) => "trailing".to_string(),
        Ok(Err(Error::ParseError(p))) => format!("err:{}", parse_err_class(&p)),
        Ok(Err(e)) => format!("err:{}", vm_err_class(&e)),
    };
    let via = match call(vm, "string->number", &[Cell::String(s.to_string())]) {
        Err(_) => "panic".to_string(),
        Ok(Ok(c)) => enc_datum(&c),
        Ok(Err(e)) => format!("err:{}", vm_err_class(&e)),
    };
    format!("c16-source {} {}\tok {} {}", o.render(), enc_text(s), lit, via)
}

pub fn exact_only(rng: &mut Rng) -> Number {
    loop {
        let n = random_number(rng);
        if is_exact(&n) {
            return n;
        }
    }
}
