//! Reader/printer side of the correspondence (C11, C10, C16): runs the real parse / print /
//! number code, and supplies the *float oracle* — what Rust did with doubles on this input —
//! because float text and float arithmetic are deliberately not modelled in Lean.
use marwood::cell::Cell;
use marwood::lex::{self, TokenType};
use marwood::number::Number;
use marwood::parse;
use mwv::rng::Rng;
use mwv::wire::*;
use num::bigint::BigInt;
use num::{BigRational, Num};
use std::collections::BTreeMap;

pub fn parse_err_class(e: &parse::Error) -> String {
    use parse::Error::*;
    match e {
        Incomplete => "Incomplete".into(),
        UnexpectedToken(_) => "UnexpectedToken".into(),
        ExpectedOneTokenAfterDot => "ExpectedOneTokenAfterDot".into(),
        ExpectedTokenBeforeDot => "ExpectedTokenBeforeDot".into(),
        ExpectedListTerminator(_, _) => "ExpectedListTerminator".into(),
        ExpectedVectorTerminator(_) => "ExpectedVectorTerminator".into(),
        SyntaxError(_) => "SyntaxError".into(),
        UnknownChar(_) => "UnknownChar".into(),
        LexError(lex::Error::Incomplete) => "Lex:Incomplete".into(),
        LexError(lex::Error::UnexpectedToken(_)) => "Lex:UnexpectedToken".into(),
        LexError(lex::Error::UnexpectedCharacterFollowing(_, _)) => {
            "Lex:UnexpectedFollowing".into()
        }
    }
}

pub fn impl_parse_text(text: &str) -> String {
    let t = text.to_string();
    let r = catch(move || {
        parse::parse_text(&t).map(|(c, rest)| (enc_datum(&c), rest.map(|s| s.to_string())))
    });
    match r {
        Err(_) => "panic".into(),
        Ok(Ok((d, rest))) => format!(
            "ok {} | {}",
            d,
            rest.map(|s| enc_text(&s)).unwrap_or_else(|| "none".into())
        ),
        Ok(Err(e)) => format!("err {}", parse_err_class(&e)),
    }
}

/// `Vm::eval_text`-style iteration over the reader alone: parse_text on the remaining text
/// until nothing remains or an error occurs.
pub fn impl_read_all(text: &str) -> String {
    let mut data: Vec<String> = vec![];
    let mut cur = text.to_string();
    let mut rounds = 0usize;
    let end;
    loop {
        rounds += 1;
        if rounds > text.len() + 2 {
            end = "no-progress".to_string();
            break;
        }
        let t = cur.clone();
        let r = catch(move || {
            parse::parse_text(&t).map(|(c, rest)| (enc_datum(&c), rest.map(|s| s.to_string())))
        });
        match r {
            Err(_) => {
                end = "panic".into();
                break;
            }
            Ok(Err(e)) => {
                end = format!("err {}", parse_err_class(&e));
                break;
            }
            Ok(Ok((d, rest))) => {
                data.push(d);
                match rest {
                    None => {
                        end = "end".into();
                        break;
                    }
                    Some(r) => cur = r,
                }
            }
        }
    }
    let mut out = format!("ok {}", data.len());
    for d in &data {
        out.push_str(" | ");
        out.push_str(d);
    }
    out.push_str(" | ");
    out.push_str(&end);
    out
}

// ---------------------------------------------------------------- float oracle

#[derive(Default)]
pub struct Oracle(pub BTreeMap<String, String>);

impl Oracle {
    pub fn render(&self) -> String {
        if self.0.is_empty() {
            return "-".into();
        }
        self.0
            .iter()
            .map(|(k, v)| format!("{}={}", k, v))
            .collect::<Vec<_>>()
            .join(";")
    }

    /// everything `Number::parse_with_exactness(s, _, radix)` can ask of doubles
    pub fn add_parse(&mut self, s: &str, radix: u32, conversions: bool) {
        if !(2..=36).contains(&radix) {
            return;
        }
        let int_ok = i64::from_str_radix(s, radix).is_ok() || BigInt::from_str_radix(s, radix).is_ok();
        if !int_ok {
            let so = s.to_string();
            match catch(move || Number::parse_rational(&so, radix)) {
                Ok(None) => {
                    let v = match <f64 as Num>::from_str_radix(s, radix) {
                        Ok(f) => format!("flo:{:016x}", f.to_bits()),
                        Err(_) => "none".into(),
                    };
                    self.0.insert(format!("F{}:{}", radix, enc_text(s)), v);
                }
                Ok(Some(Number::Float(f))) => {
                    if let Ok(q) = BigRational::from_str_radix(s, radix) {
                        self.0.insert(
                            format!("Q{}/{}", q.numer(), q.denom()),
                            format!("flo:{:016x}", f.to_bits()),
                        );
                    }
                }
                _ => {}
            }
        }
        if conversions {
            let so = s.to_string();
            if let Ok(Some(n)) = catch(move || Number::parse(&so, radix)) {
                self.add_conversions(&n);
            }
        }
    }

    pub fn add_conversions(&mut self, n: &Number) {
        match n {
            Number::Float(f) => {
                let n2 = n.clone();
                let v = match catch(move || n2.to_exact()) {
                    Ok(Some(e)) => enc_num(&e),
                    _ => "none".into(),
                };
                self.0.insert(format!("E{:016x}", f.to_bits()), v);
            }
            _ => {
                let n2 = n.clone();
                if let Ok(Some(Number::Float(f))) = catch(move || n2.to_inexact()) {
                    self.0
                        .insert(format!("I{}", enc_num(n)), format!("flo:{:016x}", f.to_bits()));
                }
            }
        }
    }

    /// the three decimal formats and (optionally) the radix formats of one double
    pub fn add_print(&mut self, f: f64, radixes: bool) {
        let b = f.to_bits();
        self.0.insert(format!("Pe{:016x}", b), enc_text(&format!("{:e}", f)));
        self.0.insert(format!("Pf{:016x}", b), enc_text(&format!("{:.1}", f)));
        self.0.insert(format!("Ps{:016x}", b), enc_text(&format!("{}", f)));
        if radixes {
            let n = Number::Float(f);
            self.0.insert(format!("R16:{:016x}", b), enc_text(&format!("{:x}", n)));
            self.0.insert(format!("R8:{:016x}", b), enc_text(&format!("{:o}", n)));
            self.0.insert(format!("R2:{:016x}", b), enc_text(&format!("{:b}", n)));
        }
    }

    pub fn add_print_cell(&mut self, c: &Cell) {
        match c {
            Cell::Number(Number::Float(f)) => self.add_print(*f, false),
            Cell::Pair(a, d) => {
                self.add_print_cell(a);
                self.add_print_cell(d);
            }
            Cell::Vector(v) => {
                for x in v {
                    self.add_print_cell(x);
                }
            }
            _ => {}
        }
    }
}

/// oracle entries for every number spelling the datum parser can reach in `text`
pub fn oracle_for_text(text: &str, o: &mut Oracle) {
    let t = text.to_string();
    let tokens = match catch(move || lex::scan(&t)) {
        Ok(Ok(ts)) => ts,
        _ => return,
    };
    let mut radix = 10u32;
    let mut prefixed = false;
    for tok in &tokens {
        let span = match text.get(tok.span.0..tok.span.1) {
            Some(s) => s,
            None => return,
        };
        match tok.token_type {
            TokenType::NumberPrefix => {
                prefixed = true;
                match span {
                    "#d" => radix = 10,
                    "#b" => radix = 2,
                    "#o" => radix = 8,
                    "#x" => radix = 16,
                    _ => {}
                }
            }
            TokenType::Number => {
                o.add_parse(span, radix, prefixed);
                radix = 10;
                prefixed = false;
            }
            TokenType::Symbol if prefixed => {
                o.add_parse(span, radix, true);
                radix = 10;
                prefixed = false;
            }
            _ => {
                radix = 10;
                prefixed = false;
            }
        }
    }
}

pub fn oracle_text(text: &str) -> String {
    let mut o = Oracle::default();
    oracle_for_text(text, &mut o);
    o.render()
}

/// oracle for a whole read-all iteration (the remaining texts are suffixes, so one pass suffices
/// unless the scan of the full text fails; then each round's text is visited)
pub fn oracle_read_all(text: &str) -> String {
    let mut o = Oracle::default();
    let mut cur = text.to_string();
    let mut rounds = 0;
    loop {
        rounds += 1;
        if rounds > 64 {
            break;
        }
        oracle_for_text(&cur, &mut o);
        let t = cur.clone();
        match catch(move || parse::parse_text(&t).map(|(_, r)| r.map(|s| s.to_string()))) {
            Ok(Ok(Some(r))) => {
                // a suffix of a text that scanned: its tokens are a suffix too
                if lex::scan(text).is_ok() {
                    break;
                }
                cur = r
            }
            _ => break,
        }
    }
    o.render()
}

// ---------------------------------------------------------------- source text generators

pub fn random_scalar(rng: &mut Rng) -> char {
    loop {
        let v = match rng.below(6) {
            0 => rng.below(0x80),
            1 => rng.below(0x100),
            2 => rng.below(0x300),
            3 => rng.below(0x10000),
            4 => 0x2000 + rng.below(0x40), // general punctuation incl. Unicode spaces
            _ => rng.below(0x110000),
        } as u32;
        if let Some(c) = char::from_u32(v) {
            return c;
        }
    }
}

fn digits(rng: &mut Rng, n: usize, radix: u32) -> String {
    let mut s = String::new();
    for _ in 0..n {
        let d = rng.below(radix as u64) as u32;
        let c = std::char::from_digit(d, radix).unwrap();
        s.push(if rng.chance(1, 4) { c.to_ascii_uppercase() } else { c });
    }
    s
}

pub fn gen_integer(rng: &mut Rng, radix: u32) -> String {
    let sign = *rng.pick(&["", "", "", "-", "+"]);
    let body = match rng.below(10) {
        0 => "0".to_string(),
        1 => digits(rng, 1, radix),
        2 | 3 => { let n = 1 + rng.below(6) as usize; digits(rng, n, radix) }
        4 => { let n = 8 + rng.below(5) as usize; digits(rng, n, radix) }
        5 => { let n = 17 + rng.below(6) as usize; digits(rng, n, radix) }
        6 => { let n = 20 + rng.below(30) as usize; digits(rng, n, radix) }
        7 => {
            // around the i64 / i32 boundaries
            let base: i128 = *rng.pick(&[
                i64::MAX as i128,
                -(i64::MIN as i128),
                i32::MAX as i128,
                -(i32::MIN as i128),
                u32::MAX as i128,
                u64::MAX as i128,
            ]);
            let v = base + rng.range(-2, 2) as i128;
            to_radix(v as u128, radix)
        }
        8 => format!("00{}", digits(rng, 3, radix)),
        _ => { let n = 1 + rng.below(12) as usize; digits(rng, n, radix) }
    };
    format!("{}{}", sign, body)
}

pub fn to_radix(mut v: u128, radix: u32) -> String {
    if v == 0 {
        return "0".into();
    }
    let mut s = vec![];
    while v > 0 {
        s.push(std::char::from_digit((v % radix as u128) as u32, radix).unwrap());
        v /= radix as u128;
    }
    s.iter().rev().collect()
}

/// hand-written family around fix c1c04ca (the sign of an exponent belongs to the number token):
/// spellings that now are one Number token, and near misses that must stay symbols / two tokens
pub const SIGNED_EXP_FAMILY: [&str; 24] = [
    "1e-7", "2.5E+3", ".5e-1", "-1e+2", "1e-", "1e-x", "1ee-7", ".e-1", ".5e-x", "1e-7x", "#x1e-7",
    "#d1e-7", "#e1e-2", "1.e-2", "1e--7", "1e+-7", "+1e-7", "-.5E-2", "1.2.3e-4", "1/2e-3", "1e-7e-7",
    "..5e-1", "+e-1", "-e+1",
];

/// decimal mantissa, exponent marker, sign, digits — with the occasional defect in each part
pub fn gen_signed_exponent(rng: &mut Rng) -> String {
    if rng.chance(1, 4) {
        return rng.pick(&SIGNED_EXP_FAMILY).to_string();
    }
    let mut s = String::new();
    s.push_str(*rng.pick(&["", "", "", "-", "+"]));
    let a = rng.below(4) as usize;
    s.push_str(&digits(rng, a, 10));
    match rng.below(8) {
        0..=2 => {}
        7 => s.push_str(*rng.pick(&["..", "/", "a", "e", "-", "_"])),
        _ => {
            s.push('.');
            let b = rng.below(4) as usize;
            s.push_str(&digits(rng, b, 10));
        }
    }
    s.push(*rng.pick(&['e', 'E', 'e', 'E', 'e', 'd', 'f']));
    s.push_str(*rng.pick(&["-", "+", "-", "+", "-", "+", "", "--", "+-", "-+"]));
    let d = *rng.pick(&[0usize, 1, 1, 1, 2, 2, 3]);
    s.push_str(&digits(rng, d, 10));
    if rng.chance(1, 6) {
        s.push_str(*rng.pick(&["x", ".", ".5", "e", "e-1", "-", "+1", "/2", ";", "@", "a", "E+2"]));
    }
    s
}

pub fn gen_number_spelling(rng: &mut Rng, radix: u32) -> String {
    match rng.below(16) {
        14 | 15 => gen_signed_exponent(rng),
        0..=4 => gen_integer(rng, radix),
        5 | 6 | 7 => format!("{}/{}", gen_integer(rng, radix), gen_integer(rng, radix).trim_start_matches(['+', '-'])),
        8 => format!("{}/{}", gen_integer(rng, radix), gen_integer(rng, radix)),
        9 => { let a = rng.below(4) as usize; let b = 1 + rng.below(5) as usize;
               format!("{}{}.{}", rng.pick(&["", "-", "+"]), digits(rng, a, radix), digits(rng, b, radix)) }
        10 => { let a = 1 + rng.below(3) as usize;
                format!("{}{}e{}", rng.pick(&["", "-"]), digits(rng, a, 10), rng.below(400)) }
        11 => { let a = 1 + rng.below(3) as usize; let b = 1 + rng.below(3) as usize;
                format!("{}.{}e{}", digits(rng, a, 10), digits(rng, b, 10), rng.below(30)) }
        12 => rng.pick(&["1/0", "0/0", "-0", "1.", ".5", "-.5", "+.5", "1_000", "1__0", "_1", "1_",
                         "-2147483648/1", "1/-2147483648", "2147483648/2", "-2147483648/-2147483648",
                         "-2147483648/2147483647", "4294967296/2", "10000000000/3", "1/3/4",
                         "9223372036854775807", "9223372036854775808", "-9223372036854775808",
                         "-9223372036854775809", "+-5", "-+5", "++5", "1e5", "1E5", "1e", "e1", "1e+5", "1e-5",
                         "0x10", "1p3", "1.8p3", "inf", "-inf", "+inf", "nan", "NaN", "infinity", "-",
                         "+", "...", "1+", "-a", "+a", "1a", "12ab", "1.2.3", "1/2/3", "/2", "1/"]).to_string(),
        _ => { let n = 1 + rng.below(4) as usize; let m = 1 + rng.below(3) as usize;
               format!("{}{}", digits(rng, n, 16), digits(rng, m, radix)) }
    }
}

fn gen_prefixed_number(rng: &mut Rng) -> String {
    let mut s = String::new();
    let mut radix = 10;
    let n = 1 + rng.below(3);
    for _ in 0..n {
        let p = *rng.pick(&["#e", "#i", "#d", "#b", "#o", "#x", "#x", "#b"]);
        match p {
            "#d" => radix = 10,
            "#b" => radix = 2,
            "#o" => radix = 8,
            "#x" => radix = 16,
            _ => {}
        }
        s.push_str(p);
        if rng.chance(1, 10) {
            s.push(' ');
        }
    }
    if rng.chance(1, 12) {
        // something that is not a number spelling after the prefix
        s.push_str(*rng.pick(&["(", ")", "\"a\"", "#\\a", "'", "#t", ".", "#(", "foo", ""]));
    } else {
        let r = if rng.chance(1, 8) { 10 } else { radix };
        s.push_str(&gen_number_spelling(rng, r));
    }
    s
}

fn gen_char_literal(rng: &mut Rng) -> String {
    match rng.below(8) {
        0 => format!("#\\{}", rng.pick(&["space", "newline", "alarm", "backspace", "delete", "escape",
                                          "null", "return", "tab", "foo", "Space", "nul", "x", "xx", "a1"])),
        1 => format!("#\\x{:x}", rng.below(0x110000 + 0x1000)),
        2 => format!("#\\x{}", rng.pick(&["0", "41", "03bb", "3BB", "d800", "110000", "ffffffff",
                                          "100000000", "g", "4g", "1f436"])),
        3 => format!("#\\{}", random_scalar(rng)),
        4 => format!("#\\{}", rng.pick(&["(", ")", " ", ";", "\"", "#", "'", "\\", "λ", "😀", "\n", "\t"])),
        _ => format!("#\\{}", (b'a' + rng.below(26) as u8) as char),
    }
}

fn gen_string_literal(rng: &mut Rng) -> String {
    let mut s = String::from("\"");
    let n = rng.below(7);
    for _ in 0..n {
        match rng.below(12) {
            0 => s.push_str(*rng.pick(&["\\n", "\\t", "\\r", "\\a", "\\b", "\\e", "\\v", "\\f", "\\\\", "\\\""])),
            1 => s.push_str(&format!("\\x{:x};", rng.below(0x110000 + 0x800))),
            2 => s.push_str(*rng.pick(&["\\x;", "\\x41", "\\xzz;", "\\x110000;", "\\xd800;", "\\xffffffff;",
                                       "\\x100000000;", "\\q", "\\(", "\\x0041;", "\\X41;", "\\ "])),
            3 => s.push(random_scalar(rng)),
            4 => s.push_str(*rng.pick(&[" ", "(", ")", ";", "'", "#", "λ", "日本", "😀", "\n", "\t", "|"])),
            _ => s.push((b'a' + rng.below(26) as u8) as char),
        }
    }
    // an unescaped quote or a trailing backslash inside would change the token; repair lexically
    let body: String = {
        let inner = &s[1..];
        let mut out = String::new();
        let mut esc = false;
        for c in inner.chars() {
            if c == '"' && !esc {
                out.push('\\');
            }
            esc = c == '\\' && !esc;
            out.push(c);
        }
        if esc {
            out.push('\\');
        }
        out
    };
    format!("\"{}\"", body)
}

fn gen_symbol(rng: &mut Rng) -> String {
    match rng.below(8) {
        0 => rng.pick(&["+", "-", "...", "->x", "a.b", "1+", "-a", "<=?", "!x", "$%&*/:<=>?^_~",
                         "quote", "quasiquote", "unquote", "lambda", "λ", "a@b", "a;b", "x1", "..", ".a",
                         "+.", "-.", "a\\b", "\\", "日本", "é", "a+", "a-b"]).to_string(),
        1 => { let mut s = String::new(); s.push(random_scalar(rng)); s.push('a'); s }
        _ => {
            let n = 1 + rng.below(6);
            let mut s = String::new();
            for i in 0..n {
                let c = if i > 0 && rng.chance(1, 5) {
                    *rng.pick(&['0', '7', '+', '-', '.', '@', '!', '?', '*'])
                } else {
                    (b'a' + rng.below(26) as u8) as char
                };
                s.push(c);
            }
            s
        }
    }
}

pub fn gen_atom(rng: &mut Rng) -> String {
    match rng.below(12) {
        0 | 1 => gen_number_spelling(rng, 10),
        2 => gen_prefixed_number(rng),
        3 => gen_char_literal(rng),
        4 | 5 => gen_string_literal(rng),
        6 => rng.pick(&["#t", "#f"]).to_string(),
        7 => gen_integer(rng, 10),
        _ => gen_symbol(rng),
    }
}

pub fn gen_sep(rng: &mut Rng) -> String {
    match rng.below(12) {
        0 => "\n".into(),
        1 => "  ".into(),
        2 => "\t".into(),
        3 => "; c (\n".into(),
        4 => " ;\"\n ".into(),
        5 => "\u{a0}".into(),
        6 => "\r\n".into(),
        _ => " ".into(),
    }
}

pub fn gen_datum(rng: &mut Rng, depth: u32, out: &mut String) {
    let k = if depth == 0 { 0 } else { rng.below(10) };
    match k {
        0..=3 => out.push_str(&gen_atom(rng)),
        4 | 5 | 6 => {
            let (o, c) = *rng.pick(&[("(", ")"), ("(", ")"), ("[", "]"), ("{", "}")]);
            out.push_str(o);
            if rng.chance(1, 4) {
                out.push_str(&gen_sep(rng));
            }
            let n = rng.below(5);
            for i in 0..n {
                if i > 0 {
                    out.push_str(&gen_sep(rng));
                }
                gen_datum(rng, depth - 1, out);
            }
            if n > 0 && rng.chance(1, 4) {
                out.push_str(" . ");
                gen_datum(rng, depth - 1, out);
            }
            if rng.chance(1, 4) {
                out.push_str(&gen_sep(rng));
            }
            out.push_str(c);
        }
        7 => {
            out.push_str("#(");
            let n = rng.below(4);
            for i in 0..n {
                if i > 0 {
                    out.push_str(&gen_sep(rng));
                }
                gen_datum(rng, depth - 1, out);
            }
            out.push(')');
        }
        _ => {
            out.push_str(*rng.pick(&["'", "'", "`", ","]));
            if rng.chance(1, 6) {
                out.push(' ');
            }
            gen_datum(rng, depth - 1, out);
        }
    }
}

/// a sequence of data, separated so that adjacent atoms do not fuse
pub fn gen_program(rng: &mut Rng, max_data: u64, depth: u32) -> String {
    let mut s = String::new();
    if rng.chance(1, 6) {
        s.push_str(&gen_sep(rng));
    }
    let n = 1 + rng.below(max_data);
    for i in 0..n {
        if i > 0 {
            s.push_str(&gen_sep(rng));
        }
        let d = rng.below(depth as u64 + 1) as u32;
        gen_datum(rng, d, &mut s);
    }
    if rng.chance(1, 3) {
        s.push_str(&gen_sep(rng));
    }
    s
}

pub fn mutate(rng: &mut Rng, text: &str) -> String {
    let mut cs: Vec<char> = text.chars().collect();
    let n = 1 + rng.below(3);
    for _ in 0..n {
        let len = cs.len();
        match rng.below(7) {
            0 if len > 0 => {
                cs.remove(rng.below(len as u64) as usize);
            }
            1 => {
                let piece = *rng.pick(&["(", ")", "[", "]", "}", "#(", "\"", ";", ".", " . ", "'", "#", "#\\",
                                        "\\", "#e", "#x", " ", "\n", "|", "#;", ",@", "e-", "E+", "e-7", "1e-7", ".5e-1",
                                        "e", "-", "+"]);
                let at = rng.below(len as u64 + 1) as usize;
                for (i, c) in piece.chars().enumerate() {
                    cs.insert(at + i, c);
                }
            }
            2 if len > 0 => {
                let at = rng.below(len as u64) as usize;
                cs[at] = random_scalar(rng);
            }
            3 if len > 1 => {
                let a = rng.below(len as u64) as usize;
                let b = rng.below(len as u64) as usize;
                cs.swap(a, b);
            }
            4 if len > 0 => {
                cs.truncate(rng.below(len as u64) as usize);
            }
            5 if len > 0 => {
                let at = rng.below(len as u64) as usize;
                let c = cs[at];
                cs.insert(at, c);
            }
            _ => {
                let at = rng.below(len as u64 + 1) as usize;
                cs.insert(at, random_scalar(rng));
            }
        }
    }
    cs.into_iter().collect()
}

// ---------------------------------------------------------------- well-formed data only
// (every atom is a valid literal, brackets match): the reader must answer each with a datum,
// and each proper token prefix with Incomplete — the oracle for these is Spec.Reader.

/// like gen_sep, but a comment never touches the preceding token (`;` continues a symbol)
pub fn gen_sep_wf(rng: &mut Rng) -> String {
    let s = gen_sep(rng);
    if s.starts_with(';') {
        format!(" {}", s)
    } else {
        s
    }
}

pub fn gen_wf_atom(rng: &mut Rng) -> String {
    match rng.below(12) {
        0 | 1 => gen_integer(rng, 10),
        2 => { let d = 1 + rng.below(99999); format!("{}/{}", gen_integer(rng, 10), d) }
        3 if rng.chance(1, 3) => {
            // decimal with a signed exponent: one Number token since fix c1c04ca
            let a = 1 + rng.below(3) as usize;
            let b = rng.below(3) as usize;
            let m = match rng.below(3) {
                0 => digits(rng, a, 10),
                1 => format!("{}.{}", digits(rng, a, 10), digits(rng, b, 10)),
                _ => format!(".{}", digits(rng, a, 10)),
            };
            format!("{}{}{}{}{}", rng.pick(&["", "-", "+"]), m, rng.pick(&["e", "E"]), rng.pick(&["-", "+"]),
                    rng.below(40))
        }
        3 => { let a = 1 + rng.below(3) as usize; let b = 1 + rng.below(4) as usize;
               format!("{}{}.{}", rng.pick(&["", "-"]), digits(rng, a, 10), digits(rng, b, 10)) }
        4 => match rng.below(5) {
            0 => format!("#x{}", gen_integer(rng, 16)),
            1 => format!("#b{}", gen_integer(rng, 2)),
            2 => format!("#o{}", gen_integer(rng, 8)),
            3 => format!("#e{}.5", rng.below(1000)),
            _ => format!("#i#x{}", gen_integer(rng, 16)),
        },
        5 => match rng.below(4) {
            0 => format!("#\\{}", rng.pick(&["space", "newline", "alarm", "backspace", "delete", "escape",
                                              "null", "return", "tab"])),
            1 => {
                let c = random_scalar(rng);
                format!("#\\x{:x}", c as u32)
            }
            2 => format!("#\\{}", random_scalar(rng)),
            _ => format!("#\\{}", rng.pick(&["(", ")", " ", ";", "\"", "#", "'", "\\", "λ", "😀", "a", "Z", "0"])),
        },
        6 | 7 => {
            let mut s = String::from("\"");
            let n = rng.below(6);
            for _ in 0..n {
                match rng.below(8) {
                    0 => s.push_str(*rng.pick(&["\\n", "\\t", "\\r", "\\a", "\\b", "\\e", "\\v", "\\f", "\\\\", "\\\""])),
                    1 => { let c = random_scalar(rng); s.push_str(&format!("\\x{:x};", c as u32)) }
                    2 => {
                        let c = random_scalar(rng);
                        if c != '"' && c != '\\' {
                            s.push(c)
                        }
                    }
                    3 => s.push_str(*rng.pick(&[" ", "(", ")", ";", "'", "#", "λ", "日本", "😀", "\n", "\t"])),
                    _ => s.push((b'a' + rng.below(26) as u8) as char),
                }
            }
            s.push('"');
            s
        }
        8 => rng.pick(&["#t", "#f"]).to_string(),
        _ => loop {
            // a spelling the scanner reads as exactly one symbol token
            let s = gen_symbol(rng);
            if let Ok(ts) = lex::scan(&s) {
                if ts.len() == 1 && ts[0].span == (0, s.len()) && ts[0].token_type == TokenType::Symbol {
                    break s;
                }
            }
        },
    }
}

pub fn gen_wf_datum(rng: &mut Rng, depth: u32, out: &mut String) {
    let k = if depth == 0 { 0 } else { rng.below(10) };
    match k {
        0..=3 => out.push_str(&gen_wf_atom(rng)),
        4 | 5 | 6 => {
            let (o, c) = *rng.pick(&[("(", ")"), ("(", ")"), ("[", "]"), ("{", "}")]);
            out.push_str(o);
            if rng.chance(1, 4) {
                out.push_str(&gen_sep_wf(rng));
            }
            let n = rng.below(5);
            for i in 0..n {
                if i > 0 {
                    out.push_str(&gen_sep_wf(rng));
                }
                gen_wf_datum(rng, depth - 1, out);
            }
            if n > 0 && rng.chance(1, 4) {
                out.push_str(" . ");
                gen_wf_datum(rng, depth - 1, out);
                // parse_improper_list_tail accepts any closing bracket; keep the matching one
            }
            if rng.chance(1, 4) {
                out.push_str(&gen_sep_wf(rng));
            }
            out.push_str(c);
        }
        7 => {
            out.push_str("#(");
            let n = rng.below(4);
            for i in 0..n {
                if i > 0 {
                    out.push_str(&gen_sep_wf(rng));
                }
                gen_wf_datum(rng, depth - 1, out);
            }
            out.push(')');
        }
        _ => {
            out.push_str(*rng.pick(&["'", "'", "`", ","]));
            gen_wf_datum(rng, depth - 1, out);
        }
    }
}

pub fn gen_wf_program(rng: &mut Rng, max_data: u64, depth: u32) -> String {
    let mut s = String::new();
    if rng.chance(1, 6) {
        s.push_str(&gen_sep_wf(rng));
    }
    let n = 1 + rng.below(max_data);
    for i in 0..n {
        if i > 0 {
            s.push_str(&gen_sep_wf(rng));
        }
        let d = rng.below(depth as u64 + 1) as u32;
        gen_wf_datum(rng, d, &mut s);
    }
    if rng.chance(1, 3) {
        s.push_str(&gen_sep_wf(rng));
    }
    s
}
