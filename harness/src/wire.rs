//! Wire encoding shared with the Lean driver: text as comma-separated decimal code points.
pub fn enc_text(s: &str) -> String {
    if s.is_empty() {
        return "-".into();
    }
    s.chars()
        .map(|c| (c as u32).to_string())
        .collect::<Vec<_>>()
        .join(",")
}

pub fn dec_text(s: &str) -> Option<String> {
    if s == "-" {
        return Some(String::new());
    }
    s.split(',')
        .map(|w| w.parse::<u32>().ok().and_then(char::from_u32))
        .collect()
}

/// Run `f` catching panics; the panic message is returned as Err.
pub fn catch<T>(f: impl FnOnce() -> T + std::panic::UnwindSafe) -> Result<T, String> {
    std::panic::catch_unwind(f).map_err(|e| {
        if let Some(s) = e.downcast_ref::<&str>() {
            s.to_string()
        } else if let Some(s) = e.downcast_ref::<String>() {
            s.clone()
        } else {
            "panic".to_string()
        }
    })
}

pub fn silence_panics() {
    std::panic::set_hook(Box::new(|_| {}));
}
