//! Wire encoding shared with the Lean driver: text as comma-separated decimal code points.
pub fn enc_text(s: &str) -> String {
    if s.is_empty() {
        return "-".into();
    }
    s.chars()
        .map(|c| (c as u32).to_string())
        .collect::<Vec<_>>()
        .join(",")
}

pub fn dec_text(s: &str) -> Option<String> {
    if s == "-" {
        return Some(String::new());
    }
    s.split(',')
        .map(|w| w.parse::<u32>().ok().and_then(char::from_u32))
        .collect()
}

/// Run `f` catching panics; the panic message is returned as Err.
pub fn catch<T>(f: impl FnOnce() -> T + std::panic::UnwindSafe) -> Result<T, String> {
    std::panic::catch_unwind(f).map_err(|e| {
        if let Some(s) = e.downcast_ref::<&str>() {
            s.to_string()
        } else if let Some(s) = e.downcast_ref::<String>() {
            s.clone()
        } else {
            "panic".to_string()
        }
    })
}

pub fn silence_panics() {
    std::panic::set_hook(Box::new(|_| {}));
}

use marwood::cell::Cell;
use marwood::number::Number;

/// Number in the wire form shared with the Lean driver (representation exposed).
pub fn enc_num(n: &Number) -> String {
    match n {
        Number::Fixnum(v) => format!("fix:{}", v),
        Number::BigInt(v) => format!("big:{}", v),
        Number::Rational(r) => format!("rat:{}/{}", r.numer(), r.denom()),
        Number::Float(f) => format!("flo:{:016x}", f.to_bits()),
    }
}

/// Datum codec: space-separated prefix tokens (see lean/Driver/Wire.lean).
pub fn enc_datum(c: &Cell) -> String {
    let mut out = String::new();
    enc_datum_into(c, &mut out);
    out
}

fn enc_datum_into(c: &Cell, out: &mut String) {
    match c {
        Cell::Bool(true) => out.push_str("b1"),
        Cell::Bool(false) => out.push_str("b0"),
        Cell::Char(ch) => out.push_str(&format!("c{}", *ch as u32)),
        Cell::Nil => out.push_str("nil"),
        Cell::Number(n) => out.push_str(&enc_num(n)),
        Cell::Pair(a, d) => {
            // iterative along the cdr spine
            let mut a = a;
            let mut d = d;
            loop {
                out.push_str("pair ");
                enc_datum_into(a, out);
                out.push(' ');
                match d.as_ref() {
                    Cell::Pair(na, nd) => {
                        a = na;
                        d = nd;
                    }
                    other => {
                        enc_datum_into(other, out);
                        break;
                    }
                }
            }
        }
        Cell::String(s) => {
            out.push_str("str:");
            out.push_str(&enc_text(s));
        }
        Cell::Symbol(s) => {
            out.push_str("sym:");
            out.push_str(&enc_text(s));
        }
        Cell::Vector(v) => {
            out.push_str(&format!("vec{}", v.len()));
            for x in v {
                out.push(' ');
                enc_datum_into(x, out);
            }
        }
        Cell::Continuation => out.push_str("cont"),
        Cell::Macro => out.push_str("macro"),
        Cell::Procedure(Some(d)) => {
            out.push_str("proc:");
            out.push_str(&enc_text(d));
        }
        Cell::Procedure(None) => out.push_str("proc"),
        Cell::Undefined => out.push_str("undef"),
        Cell::Void => out.push_str("void"),
    }
}
