//! Correspondence generators for C17: `marwood::vm::transform` (syntax-rules) driven directly
//! (`Transform::try_new` / `transform`) and through `define-syntax` in a `Vm`.
//!
//! Output: one line per case, `request \t impl-response \t spec-request`.
//!
//! Non-termination cannot hang the check: the cases are evaluated by a *worker child process*
//! (`transform worker <stream> <n> <start>`, address space limited with `ulimit -v`) that prints
//! `Q <request>` before and `R <response>` after evaluating each case; the supervisor waits for the
//! `R` line with a wall budget, and on timeout or death of the worker records the observation
//! `hang`, kills the worker and restarts it after that case. Every case has its own random stream
//! derived from `VERIF_SEED`, the stream name and the case index, so a restart regenerates the
//! same cases.
use marwood::cell::Cell;
use marwood::error::Error;
use marwood::number::Number;
use marwood::vm::transform::Transform;
use marwood::vm::Vm;
use mwv::rng::Rng;
use mwv::wire::*;
use std::io::{BufRead, BufReader, Write};
use std::process::{Command, Stdio};
use std::sync::mpsc;
use std::time::Duration;

#[path = "../transform_expand.rs"]
mod expand;

fn sym(s: &str) -> Cell {
    Cell::Symbol(s.to_string())
}
fn int(n: i64) -> Cell {
    Cell::Number(Number::Fixnum(n))
}
fn list(v: Vec<Cell>) -> Cell {
    Cell::new_list(v)
}
fn dotted(v: Vec<Cell>, tail: Cell) -> Cell {
    if v.is_empty() {
        tail
    } else {
        Cell::new_improper_list(v, tail)
    }
}

fn err_class(e: &Error) -> &'static str {
    match e {
        Error::InvalidSyntax(_) => "syntax",
        Error::ExpectedPairButFound(_) => "pair",
        _ => "other",
    }
}

// ------------------------------------------------------------------ generator

struct Gen {
    rng: Rng,
    ell: String,
    lits: Vec<String>,
    /// pattern variables of the rule being generated, with their ellipsis depth
    vars: Vec<(String, usize)>,
    next_var: usize,
    /// probability (in 1/1000) of deliberately unsupported / ill-formed shapes
    weird: u64,
}

const CONST_SYMS: [&str; 6] = ["x", "y", "f", "g", "if", "quote-me"];

impl Gen {
    fn new(rng: Rng, weird: u64) -> Gen {
        Gen { rng, ell: "...".into(), lits: vec![], vars: vec![], next_var: 0, weird }
    }
    fn w(&mut self) -> bool {
        let w = self.weird;
        self.rng.chance(w, 1000)
    }
    fn fresh(&mut self, depth: usize) -> Cell {
        let names = ["a", "b", "c", "d", "e", "h", "i", "j", "k", "l", "n", "o", "p", "q", "r", "s"];
        let name = if self.next_var < names.len() {
            names[self.next_var].to_string()
        } else {
            format!("v{}", self.next_var)
        };
        self.next_var += 1;
        self.vars.push((name.clone(), depth));
        sym(&name)
    }
    fn atom(&mut self) -> Cell {
        match self.rng.below(12) {
            0..=4 => int(self.rng.range(0, 9)),
            5 => Cell::Bool(self.rng.chance(1, 2)),
            6 => Cell::String(["", "s", "t u"][self.rng.below(3) as usize].to_string()),
            7 => Cell::Nil,
            8 => Cell::Char(['a', 'λ', ' '][self.rng.below(3) as usize]),
            9 => int(self.rng.range(-3, 100)),
            _ => sym(CONST_SYMS[self.rng.below(CONST_SYMS.len() as u64) as usize]),
        }
    }
    /// a small form for a use
    fn form(&mut self, depth: usize) -> Cell {
        if depth >= 2 || self.rng.chance(3, 5) {
            if self.rng.chance(1, 12) && !self.lits.is_empty() {
                let i = self.rng.below(self.lits.len() as u64) as usize;
                return sym(&self.lits[i].clone());
            }
            if self.rng.chance(1, 40) {
                return sym(&self.ell.clone());
            }
            if self.rng.chance(1, 40) {
                let n = self.rng.below(3);
                return Cell::Vector((0..n).map(|_| self.atom()).collect());
            }
            return self.atom();
        }
        let n = self.rng.below(4);
        let v: Vec<Cell> = (0..n).map(|_| self.form(depth + 1)).collect();
        if self.rng.chance(1, 25) && !v.is_empty() {
            let t = self.atom();
            if !t.is_nil() {
                return dotted(v, t);
            }
        }
        list(v)
    }

    fn pat_item(&mut self, depth: usize, edepth: usize) -> Cell {
        if self.w() && self.rng.chance(1, 3) {
            // vector pattern (rejected since fix ff58560)
            let a = self.fresh(edepth);
            return Cell::Vector(vec![a, int(1)]);
        }
        match self.rng.below(20) {
            0..=8 => self.fresh(edepth),
            9 | 10 => sym("_"),
            11 | 12 => {
                if self.lits.is_empty() {
                    self.fresh(edepth)
                } else {
                    let i = self.rng.below(self.lits.len() as u64) as usize;
                    sym(&self.lits[i].clone())
                }
            }
            13 | 14 => self.atom(),
            _ => {
                if depth < 3 {
                    self.pat_list(depth + 1, edepth)
                } else {
                    self.fresh(edepth)
                }
            }
        }
    }

    /// a list pattern (without the keyword); `depth` = nesting, `edepth` = ellipsis depth around it
    fn pat_list(&mut self, depth: usize, edepth: usize) -> Cell {
        let mut v = vec![];
        let pre = self.rng.below(3);
        for _ in 0..pre {
            v.push(self.pat_item(depth, edepth));
        }
        // an ellipsis?
        let want_ell = if edepth == 0 { self.rng.chance(1, 2) } else { self.w() || self.rng.chance(1, 12) };
        if want_ell && edepth < 2 {
            // what precedes the ellipsis: a variable, a sub-pattern, rarely a datum / `_` / literal
            let it = match self.rng.below(10) {
                0..=4 => self.fresh(edepth + 1),
                5..=7 if depth < 3 => self.pat_list(depth + 1, edepth + 1),
                8 if self.w() => sym("_"),
                8 => int(self.rng.range(0, 3)),
                _ => self.fresh(edepth + 1),
            };
            v.push(it);
            v.push(sym(&self.ell.clone()));
            let tail = match self.rng.below(5) {
                0 | 1 => 0,
                2 | 3 => 1,
                _ => 2,
            };
            for _ in 0..tail {
                v.push(self.pat_item(depth, edepth));
            }
            if self.w() && self.rng.chance(1, 4) {
                // a second ellipsis in the same list (rejected by build)
                let a = self.fresh(edepth + 1);
                v.push(a);
                v.push(sym(&self.ell.clone()));
            }
        }
        if self.w() && self.rng.chance(1, 2) {
            // dotted pattern (rejected since fix ff58560)
            let t = self.fresh(edepth);
            return dotted(v, t);
        }
        if self.w() && self.rng.chance(1, 6) && !v.is_empty() {
            v.insert(0, sym(&self.ell.clone()));
        }
        list(v)
    }

    fn pick_var(&mut self, depth: usize) -> Option<Cell> {
        let c: Vec<String> = self.vars.iter().filter(|v| v.1 == depth).map(|v| v.0.clone()).collect();
        if c.is_empty() {
            None
        } else {
            Some(sym(&c[self.rng.below(c.len() as u64) as usize]))
        }
    }

    /// an element of a template at ellipsis depth `edepth` (0 or 1)
    fn tmpl_item(&mut self, depth: usize, edepth: usize) -> Cell {
        match self.rng.below(20) {
            0..=6 => {
                // a variable usable here: depth-0 variables anywhere, depth-1 variables under an ellipsis
                let d = if edepth == 1 && self.rng.chance(3, 4) { 1 } else { 0 };
                let d = if self.w() { 1 - d.min(1) } else { d };
                match self.pick_var(d) {
                    Some(v) => v,
                    None => self.atom(),
                }
            }
            7..=9 => sym(CONST_SYMS[self.rng.below(CONST_SYMS.len() as u64) as usize]),
            10 | 11 => self.atom(),
            12 if self.w() => {
                // vector templates of every shape (all rejected since fix ff58560; a relaxed rejection must still
                // instantiate what it accepts): a variable directly inside, inside a list inside, inside a NESTED
                // vector, an ellipsis group inside a nested vector, and constant vectors
                let a = self.pick_var(0).unwrap_or(int(7));
                match self.rng.below(6) {
                    0 => Cell::Vector(vec![a]),
                    1 => Cell::Vector(vec![int(0), Cell::Vector(vec![a, int(1)])]),
                    2 => Cell::Vector(vec![int(0), list(vec![sym("k"), Cell::Vector(vec![a])])]),
                    3 => {
                        let e = self.pick_var(1).unwrap_or(sym("x"));
                        let ell = sym(&self.ell.clone());
                        Cell::Vector(vec![sym("h"), Cell::Vector(vec![e, ell])])
                    }
                    4 => Cell::Vector(vec![int(1), Cell::Vector(vec![int(2), sym("k")])]),
                    _ => Cell::Vector(vec![list(vec![a])]),
                }
            }
            _ => {
                if depth < 3 {
                    self.tmpl_list(depth + 1, edepth)
                } else {
                    self.atom()
                }
            }
        }
    }

    /// a sub-template to be followed by an ellipsis: mentions one or two depth-1 variables
    fn tmpl_group(&mut self, depth: usize) -> Cell {
        let v1 = self.pick_var(1);
        let first = match v1 {
            Some(v) => v,
            None => {
                // no ellipsis variable available: only produce such a group deliberately
                return self.pick_var(0).unwrap_or(sym("x"));
            }
        };
        match self.rng.below(6) {
            0 | 1 => first,
            2 => list(vec![sym("f"), first]),
            3 => {
                let second = if self.w() { first.clone() } else { self.pick_var(1).unwrap() };
                if second == first && !self.w() {
                    list(vec![first, sym("g")])
                } else {
                    list(vec![first, second])
                }
            }
            4 => {
                let z = self.pick_var(0).unwrap_or(int(0));
                list(vec![z, list(vec![first])])
            }
            _ => {
                // a group built from a general template that certainly mentions `first`
                let mut items = vec![first];
                let n = self.rng.below(3);
                for _ in 0..n {
                    let it = self.tmpl_item(depth + 1, 1);
                    items.push(it);
                }
                // variables twice under one ellipsis are rejected; keep them mostly distinct
                let mut seen: Vec<Cell> = vec![];
                let mut out = vec![];
                for it in items {
                    let is_v1 = matches!(&it, Cell::Symbol(s) if self.vars.iter().any(|v| v.0 == *s && v.1 >= 1));
                    if is_v1 && seen.contains(&it) && !self.w() {
                        out.push(sym("y"));
                    } else {
                        if is_v1 {
                            seen.push(it.clone());
                        }
                        out.push(it);
                    }
                }
                list(out)
            }
        }
    }

    fn tmpl_list(&mut self, depth: usize, edepth: usize) -> Cell {
        let n = self.rng.below(4);
        let mut v = vec![];
        let mut had_ell = false;
        for _ in 0..n {
            let can_group = edepth == 0 || self.w();
            if can_group && !had_ell && self.rng.chance(2, 5) && (self.vars.iter().any(|v| v.1 >= 1) || self.w()) {
                let g = if self.w() && self.rng.chance(1, 2) {
                    // ellipsis after something without an ellipsis variable (used to loop forever)
                    match self.rng.below(3) {
                        0 => self.pick_var(0).unwrap_or(sym("x")),
                        1 => list(vec![sym("x")]),
                        _ => int(1),
                    }
                } else {
                    self.tmpl_group(depth)
                };
                v.push(g);
                v.push(sym(&self.ell.clone()));
                if self.w() && self.rng.chance(1, 3) {
                    v.push(sym(&self.ell.clone()));
                }
                had_ell = !self.w();
            } else {
                v.push(self.tmpl_item(depth, edepth));
            }
        }
        if self.w() && self.rng.chance(1, 3) {
            let t = self.pick_var(0).unwrap_or(int(2));
            return dotted(v, t);
        }
        if self.w() && self.rng.chance(1, 8) {
            return list(vec![sym(&self.ell.clone()), sym(&self.ell.clone())]);
        }
        list(v)
    }

    fn template(&mut self) -> Cell {
        if self.rng.chance(1, 10) {
            return self.tmpl_item(3, 0);
        }
        self.tmpl_list(0, 0)
    }

    /// `(define-syntax m (syntax-rules [ell] (lits…) (pattern template)…))`; the patterns are returned too
    fn definition(&mut self) -> (Cell, Vec<Cell>) {
        self.ell = if self.rng.chance(1, 5) {
            ["___", ":::", "etc"][self.rng.below(3) as usize].to_string()
        } else {
            "...".to_string()
        };
        self.lits = vec![];
        let nl = [0, 0, 1, 1, 2][self.rng.below(5) as usize];
        for i in 0..nl {
            self.lits.push(["else", "=>", "lit"][(i + self.rng.below(3) as usize) % 3].to_string());
        }
        self.lits.dedup();
        if self.w() && self.rng.chance(1, 4) {
            self.lits.push("_".into());
        }
        if self.w() && self.rng.chance(1, 6) {
            self.lits.push(self.ell.clone());
        }
        let nrules = 1 + self.rng.below(3);
        let mut rules = vec![];
        let mut pats = vec![];
        for _ in 0..nrules {
            self.vars.clear();
            self.next_var = 0;
            let body = self.pat_list(0, 0);
            let kw = if self.rng.chance(1, 2) { sym("_") } else { sym("m") };
            let pattern = Cell::new_pair(kw, body);
            let template = self.template();
            pats.push(pattern.clone());
            let mut rule = vec![pattern, template];
            if self.w() && self.rng.chance(1, 5) {
                rule.push(int(0));
            }
            rules.push(list(rule));
        }
        let mut sr = vec![sym("syntax-rules")];
        if self.ell != "..." {
            sr.push(sym(&self.ell.clone()));
        }
        sr.push(list(self.lits.iter().map(|s| sym(s)).collect()));
        sr.extend(rules);
        (list(vec![sym("define-syntax"), sym("m"), list(sr)]), pats)
    }

    /// a use built to match `pattern` (the cdr of a rule's pattern); `n` = items per ellipsis
    fn use_for(&mut self, pattern: &Cell, n: Option<u64>) -> Cell {
        match pattern {
            Cell::Symbol(s) => {
                if self.lits.contains(s) {
                    if self.rng.chance(1, 12) {
                        sym("other")
                    } else {
                        pattern.clone()
                    }
                } else {
                    self.form(1)
                }
            }
            Cell::Pair(_, _) => {
                let items = pattern.collect_vec();
                let improper = pattern.is_improper_list();
                let mut out = vec![];
                let mut i = 0;
                let last = items.len();
                while i < last {
                    let it = items[i];
                    if *it == sym(&self.ell) && !self.lits.contains(&self.ell) {
                        i += 1;
                        continue;
                    }
                    let ell_next = i + 1 < last && *items[i + 1] == sym(&self.ell);
                    if ell_next {
                        let k = match n {
                            Some(k) => k,
                            None => self.rng.below(4),
                        };
                        for _ in 0..k {
                            out.push(self.use_for(it, n));
                        }
                    } else if improper && i + 1 == last {
                        // dotted tail of the pattern: any rest
                        let rest = self.form(1);
                        return if rest.is_pair() || rest.is_nil() {
                            let mut all = out;
                            all.extend(rest.collect_vec().into_iter().cloned());
                            list(all)
                        } else {
                            dotted(out, rest)
                        };
                    } else {
                        out.push(self.use_for(it, n));
                    }
                    i += 1;
                }
                list(out)
            }
            other => {
                if self.rng.chance(1, 12) {
                    self.atom()
                } else {
                    other.clone()
                }
            }
        }
    }

    fn mutate(&mut self, form: &Cell, depth: usize) -> Cell {
        if !form.is_pair() || form.is_improper_list() {
            return if self.rng.chance(1, 2) { self.form(1) } else { form.clone() };
        }
        let mut v: Vec<Cell> = form.collect_vec().into_iter().cloned().collect();
        match self.rng.below(6) {
            0 => {
                v.pop();
            }
            1 => {
                let f = self.form(1);
                v.push(f);
            }
            2 => {
                let i = self.rng.below(v.len() as u64) as usize;
                v[i] = self.form(1);
            }
            3 => {
                let i = self.rng.below(v.len() as u64) as usize;
                if depth < 3 {
                    v[i] = self.mutate(&v[i].clone(), depth + 1);
                }
            }
            4 => {
                let t = self.atom();
                if !t.is_nil() {
                    return dotted(v, t);
                }
            }
            _ => {
                let i = self.rng.below(v.len() as u64) as usize;
                v.remove(i);
            }
        }
        list(v)
    }

    fn use_form(&mut self, pats: &[Cell]) -> Cell {
        let kw = sym("m");
        let r = self.rng.below(20);
        if r == 0 {
            // arbitrary form
            let f = self.form(0);
            return Cell::new_pair(kw, if f.is_pair() || f.is_nil() { f } else { list(vec![f]) });
        }
        if r == 1 && self.rng.chance(1, 2) {
            return self.atom();
        }
        let p = pats[self.rng.below(pats.len() as u64) as usize].clone();
        let body = p.cdr().cloned().unwrap_or(Cell::Nil);
        let n = match self.rng.below(10) {
            0..=1 => Some(0),
            2..=3 => Some(1),
            4 => Some(2),
            5 => Some(3),
            _ => None,
        };
        let mut u = self.use_for(&body, n);
        if self.rng.chance(1, 4) {
            u = self.mutate(&u, 0);
        }
        if u.is_pair() || u.is_nil() {
            Cell::new_pair(kw, u)
        } else {
            dotted(vec![kw], u)
        }
    }

    /// a structurally damaged `define-syntax` form
    fn broken_definition(&mut self) -> Cell {
        let (d, _) = self.definition();
        let mut top: Vec<Cell> = d.collect_vec().into_iter().cloned().collect();
        let mut sr: Vec<Cell> = top[2].collect_vec().into_iter().cloned().collect();
        match self.rng.below(12) {
            0 => {
                top.pop();
                return list(top);
            }
            1 => top.push(int(1)),
            2 => top[1] = int(5),
            3 => sr[0] = sym("not-syntax-rules"),
            4 => {
                sr.truncate(1);
            }
            5 => {
                let i = self.rng.below(sr.len() as u64) as usize;
                sr[i] = int(3);
            }
            6 => {
                let i = self.rng.below(sr.len() as u64) as usize;
                sr[i] = list(vec![]);
            }
            7 => {
                let i = self.rng.below(sr.len() as u64) as usize;
                sr[i] = list(vec![list(vec![sym("_"), sym("a")])]);
            }
            8 => top[2] = sym("syntax-rules"),
            9 => {
                let t = sr.pop().unwrap();
                top[2] = dotted(sr.clone(), t);
                return list(top);
            }
            10 => {
                let i = self.rng.below(sr.len() as u64) as usize;
                sr[i] = list(vec![sym("a"), int(1)]);
            }
            _ => {
                let i = self.rng.below(sr.len() as u64) as usize;
                sr[i] = dotted(vec![sym("q")], sym("r"));
            }
        }
        top[2] = list(sr);
        list(top)
    }
}

// ------------------------------------------------------------------ evaluation

fn impl_def(def: &Cell) -> String {
    let d = def.clone();
    match catch(move || Transform::try_new(&d).map(|_| ())) {
        Err(_) => "panic".into(),
        Ok(Ok(())) => "ok".into(),
        Ok(Err(e)) => format!("err {}", err_class(&e)),
    }
}

fn impl_use(def: &Cell, usef: &Cell) -> String {
    let d = def.clone();
    let u = usef.clone();
    let r = catch(move || match Transform::try_new(&d) {
        Err(_) => "def-err".to_string(),
        Ok(t) => match t.transform(&u) {
            Ok(c) => format!("ok {}", enc_datum(&c)),
            Err(e) => format!("err {}", err_class(&e)),
        },
    });
    r.unwrap_or_else(|_| "panic".into())
}

/// wrap every template in `(quote …)`
fn quote_templates(def: &Cell) -> Cell {
    let top: Vec<Cell> = def.collect_vec().into_iter().cloned().collect();
    let sr: Vec<Cell> = top[2].collect_vec().into_iter().cloned().collect();
    let mut out = vec![];
    let mut seen_lits = false;
    for (i, it) in sr.iter().enumerate() {
        if i == 0 || (i == 1 && it.is_symbol()) {
            out.push(it.clone());
        } else if !seen_lits {
            seen_lits = true;
            out.push(it.clone());
        } else {
            let r: Vec<Cell> = it.collect_vec().into_iter().cloned().collect();
            if r.len() >= 2 && it.is_list() {
                let mut r2 = r.clone();
                r2[1] = list(vec![sym("quote"), r[1].clone()]);
                out.push(list(r2));
            } else {
                out.push(it.clone());
            }
        }
    }
    list(vec![top[0].clone(), top[1].clone(), list(out)])
}

fn impl_use_vm(vm: &mut Vm, def: &Cell, usef: &Cell) -> String {
    let d = quote_templates(def);
    let u = usef.clone();
    let mut vmr = std::panic::AssertUnwindSafe(vm);
    let r = catch(move || {
        if vmr.eval(&d).is_err() {
            return "def-err".to_string();
        }
        match vmr.eval(&u) {
            Ok(c) => format!("ok {}", enc_datum(&c)),
            Err(e) => format!("err {}", err_class(&e)),
        }
    });
    r.unwrap_or_else(|_| "panic".into())
}

/// the expansion driver: a fresh `Vm` (prelude loaded) evaluates the `define-syntax` forms, then `Vm::transform`
/// is applied to the form. `bits_out` receives `D` + one bit per definition (1 = evaluated without error).
fn impl_expand(defs: &[Cell], form: &Cell, bits_out: &mut dyn FnMut(&str)) -> String {
    let mut vm = Vm::new();
    let mut bits = String::from("D");
    for d in defs {
        let d2 = d.clone();
        let mut vmr = std::panic::AssertUnwindSafe(&mut vm);
        let ok = catch(move || vmr.eval(&d2).is_ok()).unwrap_or(false);
        bits.push(if ok { '1' } else { '0' });
    }
    bits_out(&bits);
    let f = form.clone();
    let mut vmr = std::panic::AssertUnwindSafe(&mut vm);
    match catch(move || vmr.transform(&f)) {
        Err(_) => format!("{} panic", bits),
        Ok(Ok(c)) => format!("{} ok {}", bits, enc_datum(&c)),
        Ok(Err(e)) => format!("{} err {}", bits, err_class(&e)),
    }
}

/// definitions and form of case `idx` of the stream `expand`
fn expand_case(g: &mut Gen, idx: u64) -> (Vec<Cell>, Cell) {
    let mut defs: Vec<Cell> = vec![];
    let mut user: Vec<String> = vec![];
    let n = g.rng.below(4);
    for _ in 0..n {
        if g.rng.chance(1, 6) {
            // a random transformer named `m` from the T17.1 generator (may be rejected by try_new)
            let (d, _) = g.definition();
            defs.push(d);
            user.push("m".into());
        } else {
            let i = g.rng.below(expand::POOL.len() as u64) as usize;
            defs.push(expand::parse(expand::POOL[i].1));
            user.push(expand::POOL[i].0.into());
        }
    }
    let kw_binding = idx % 40 == 7;
    let looping = idx % 97 == 11;
    let mut eg = expand::ExGen { rng: &mut g.rng, user, kw_binding, looping };
    let mut form = eg.expr(0);
    if !form.is_pair() {
        form = eg.expr(0);
    }
    (defs, form)
}

/// replace some numeric operands of a use (never the keyword) by forms headed by a macro keyword
fn macro_operands(u: &Cell, rng: &mut Rng) -> Cell {
    fn walk(c: &Cell, head: bool, rng: &mut Rng) -> Cell {
        match c {
            Cell::Pair(a, d) => Cell::Pair(Box::new(walk(a, head, rng)), Box::new(walk(d, false, rng))),
            Cell::Number(_) if !head && rng.chance(1, 2) => {
                let forms = ["(and 1 2)", "(or a b)", "(when #t 3)", "(let ((z 1)) z)", "(m 1)", "(cond (#t 1))",
                             "(unless #f 2)", "(begin 4)"];
                let t = forms[rng.below(forms.len() as u64) as usize];
                marwood::parse::parse_text(t).unwrap().0
            }
            other => other.clone(),
        }
    }
    match u {
        Cell::Pair(a, d) => Cell::Pair(a.clone(), Box::new(walk(d, false, rng))),
        other => other.clone(),
    }
}

fn case_rng(seed: u64, stream: &str, idx: u64) -> Rng {
    let mut h: u64 = 0xcbf29ce484222325;
    for b in stream.bytes() {
        h = (h ^ b as u64).wrapping_mul(0x100000001b3);
    }
    Rng::new(seed ^ h ^ idx.wrapping_mul(0x9E3779B97F4A7C15))
}

/// the fixed regression cases of the stream `corpus` (defects observed on the pinned tree)
fn corpus_case(idx: u64) -> Option<(Cell, Cell)> {
    use marwood::{lex, parse};
    let cases: [(&str, &str); 22] = [
        ("(define-syntax m (syntax-rules () ((_ (a b) ...) ((a a) ...))))", "(m (1 x) (2 y))"),
        ("(define-syntax m (syntax-rules () ((_ a b) (a . b))))", "(m 1 2)"),
        ("(define-syntax m (syntax-rules () ((_ a ...) #(a ...))))", "(m 1 2)"),
        ("(define-syntax m (syntax-rules () ((_ a ... b) (a ... b)) ((_ c) (second c))))", "(m 1)"),
        ("(define-syntax m (syntax-rules () ((_ a ... b) (a ... b)) ((_ c) (second c))))", "(m 1 2)"),
        ("(define-syntax m (syntax-rules () ((_ (a b) ...) (((a b) ...) (b ...)))))", "(m (1 x) (2 y))"),
        ("(define-syntax m (syntax-rules () ((_ (b a ...) ...) ((b a ...) ...))))", "(m (1 x y) (2 z))"),
        ("(define-syntax m (syntax-rules () ((_ . a) (got a)) ((_ b ...) (list b ...))))", "(m 1)"),
        ("(define-syntax m (syntax-rules () ((_ a . b) (got a b)) ((_ c ...) (list c ...))))", "(m 1 2 3)"),
        ("(define-syntax m (syntax-rules () ((_ #(a b)) (got a b)) ((_ c) (second c))))", "(m #(1 2))"),
        ("(define-syntax m (syntax-rules () ((_ a ...) (a))))", "(m 1 2)"),
        ("(define-syntax m (syntax-rules () ((_ a) ...)))", "(m 1)"),
        ("(define-syntax m (syntax-rules (...) ((_ a ...) (a ...))))", "(m 1 ...)"),
        ("(define-syntax m (syntax-rules () ((_ a b ...) (a ...))))", "(m 1 2)"),
        ("(define-syntax m (syntax-rules () ((_ a b ...) ((x) ...))))", "(m 1 2)"),
        ("(define-syntax m (syntax-rules () ((_ (a ...) ...) ((a ...) ...))))", "(m (1 2) (3))"),
        ("(define-syntax m (syntax-rules () ((_ (x x* ...) (y y* ...)) (+ (* x y) (* x* y*) ...))))", "(m (10 20 30) (10 20 30))"),
        ("(define-syntax m (syntax-rules () ((_ (x x* ...) (y y* ...)) (+ (* x y) (* x* y*) ...))))", "(m (10 20 30 40) (10 20 30))"),
        ("(define-syntax m (syntax-rules (else =>) ((_ (else r1 r2 ...)) (begin r1 r2 ...)) ((_ (t => r) c ...) (let ((tmp t)) (if tmp (r tmp) (m c ...))))))", "(m (1 => f) (else 2 3))"),
        ("(define-syntax m (syntax-rules ___ () ((_ ((n v) ___) b1 b2 ___) ((lambda (n ___) b1 b2 ___) v ___))))", "(m ((x 1) (y 2)) (+ x y) 5)"),
        ("(define-syntax m (syntax-rules () ((_ x (a ... b c)) (x a ... / b c)) ((_ y z) (fallback y z))))", "(m 0 (1 2))"),
        ("(define-syntax m (syntax-rules () ((_ (a b ...) ...) (a ...))))", "(m (1 2) (3))"),
    ];
    cases.get(idx as usize).map(|(d, u)| (parse!(*d), parse!(*u)))
}

fn worker(stream: &str, n: u64, start: u64) {
    if std::env::var("VERIF_LOUD").is_err() {
        silence_panics();
    }
    let seed: u64 = std::env::var("VERIF_SEED").ok().and_then(|s| s.parse().ok()).unwrap_or(1);
    let out = std::io::stdout();
    let mut out = out.lock();
    let mut vm: Option<Vm> = None;
    for idx in start..n {
        let rng = case_rng(seed, stream, idx);
        let weird = if idx % 4 == 0 { 120 } else { 15 };
        let mut g = Gen::new(rng, weird);
        match stream {
            "defs" => {
                let d = if g.rng.chance(1, 2) { g.broken_definition() } else { g.definition().0 };
                writeln!(out, "Q tr-def {}", enc_datum(&d)).unwrap();
                out.flush().unwrap();
                writeln!(out, "R {}", impl_def(&d)).unwrap();
            }
            "uses" | "corpus" => {
                let (d, u) = if stream == "corpus" {
                    match corpus_case(idx) {
                        Some(c) => c,
                        None => break,
                    }
                } else {
                    let (d, pats) = g.definition();
                    let u = g.use_form(&pats);
                    (d, u)
                };
                writeln!(out, "Q tr-use {} {}", enc_datum(&d), enc_datum(&u)).unwrap();
                out.flush().unwrap();
                writeln!(out, "R {}", impl_use(&d, &u)).unwrap();
            }
            "vm" | "vm-corpus" => {
                let (d, u) = if stream == "vm-corpus" {
                    match corpus_case(idx) {
                        Some(c) => c,
                        None => break,
                    }
                } else {
                    let (d, pats) = g.definition();
                    let u = g.use_form(&pats);
                    (d, u)
                };
                // an atom is not a macro use (the Vm would evaluate it to itself)
                let u = if u.is_pair() { u } else { list(vec![sym("m")]) };
                // a quarter of the uses get operands that are themselves macro uses (prelude macros and `m` itself):
                // the transformer must see the use as written — an expansion driver that expands operands first
                // shows up as a different (quoted) expansion or a different rule
                let u = if stream == "vm" && idx % 4 == 1 { macro_operands(&u, &mut g.rng) } else { u };
                if vm.is_none() || idx % 500 == 0 {
                    vm = Some(Vm::new());
                }
                writeln!(out, "Q tr-use-vm {} {}", enc_datum(&d), enc_datum(&u)).unwrap();
                out.flush().unwrap();
                writeln!(out, "R {}", impl_use_vm(vm.as_mut().unwrap(), &d, &u)).unwrap();
            }
            "expand" | "expand-corpus" => {
                let (defs, form) = if stream == "expand-corpus" {
                    match expand::corpus(idx) {
                        Some(c) => c,
                        None => break,
                    }
                } else {
                    expand_case(&mut g, idx)
                };
                let mut q = format!("Q tr-expand {}", defs.len());
                for d in &defs {
                    q.push(' ');
                    q.push_str(&enc_datum(d));
                }
                q.push(' ');
                q.push_str(&enc_datum(&form));
                writeln!(out, "{}", q).unwrap();
                out.flush().unwrap();
                let r = impl_expand(&defs, &form, &mut |bits| {
                    writeln!(out, "B {}", bits).unwrap();
                    out.flush().unwrap();
                });
                writeln!(out, "R {}", r).unwrap();
            }
            _ => panic!("unknown stream"),
        }
        out.flush().unwrap();
    }
    writeln!(out, "END").unwrap();
    out.flush().unwrap();
}

/// the spec request that goes with request `q` (`bits`: which definitions of a `tr-expand` case were accepted)
fn spec_request(q: &str, bits: &Option<String>) -> Option<String> {
    if q.starts_with("tr-def") {
        None
    } else if let Some(rest) = q.strip_prefix("tr-expand") {
        bits.as_ref().map(|b| format!("spec-tr-expand {}{}", b, rest))
    } else {
        Some(format!("spec-tr-use{}", q.strip_prefix("tr-use-vm").or(q.strip_prefix("tr-use")).unwrap_or("")))
    }
}

fn supervise(stream: &str, n: u64) {
    let exe = std::env::current_exe().unwrap();
    let budget = Duration::from_millis(
        std::env::var("VERIF_CASE_MS").ok().and_then(|s| s.parse().ok()).unwrap_or(500),
    );
    let out = std::io::stdout();
    let mut out = std::io::BufWriter::new(out.lock());
    let mut start = 0u64;
    let mut done = 0u64;
    let mut hangs = 0u64;
    'outer: loop {
        let mut child = Command::new("sh")
            .arg("-c")
            .arg("ulimit -v 700000; exec \"$0\" \"$@\"")
            .arg(&exe)
            .arg("worker")
            .arg(stream)
            .arg(n.to_string())
            .arg(start.to_string())
            .stdout(Stdio::piped())
            .stderr(Stdio::null())
            .spawn()
            .expect("spawn worker");
        let stdout = child.stdout.take().unwrap();
        let (tx, rx) = mpsc::channel::<String>();
        std::thread::spawn(move || {
            for line in BufReader::new(stdout).lines() {
                match line {
                    Ok(l) => {
                        if tx.send(l).is_err() {
                            break;
                        }
                    }
                    Err(_) => break,
                }
            }
        });
        let mut pending: Option<String> = None;
        let mut bits: Option<String> = None;
        loop {
            // the worker is idle between cases, so only an outstanding `Q` is under the budget
            let msg = if pending.is_some() { rx.recv_timeout(budget).ok() } else { rx.recv().ok() };
            match msg {
                Some(l) if l == "END" => {
                    let _ = child.wait();
                    break 'outer;
                }
                Some(l) if l.starts_with("Q ") => {
                    pending = Some(l[2..].to_string());
                    bits = None;
                }
                Some(l) if l.starts_with("B ") => bits = Some(l[2..].to_string()),
                Some(l) if l.starts_with("R ") => {
                    let q = pending.take().expect("R without Q");
                    match spec_request(&q, &bits) {
                        None => writeln!(out, "{}\t{}", q, &l[2..]).unwrap(),
                        Some(specq) => writeln!(out, "{}\t{}\t{}", q, &l[2..], specq).unwrap(),
                    }
                    done += 1;
                }
                Some(_) => {}
                None => {
                    // timeout, or the worker died (memory limit): an observation, not a crash
                    let _ = child.kill();
                    let _ = child.wait();
                    match pending.take() {
                        Some(q) => {
                            match spec_request(&q, &bits) {
                                None => writeln!(out, "{}\thang", q).unwrap(),
                                Some(specq) => writeln!(out, "{}\thang\t{}", q, specq).unwrap(),
                            }
                            done += 1;
                            start = done;
                            hangs += 1;
                            if hangs >= 20 {
                                // enough evidence; do not spend the check's time budget on more
                                break 'outer;
                            }
                            continue 'outer;
                        }
                        None => {
                            // the worker died between cases: a harness fault, not an observation
                            out.flush().unwrap();
                            eprintln!("transform harness: worker died between cases at index {}", done);
                            std::process::exit(3);
                        }
                    }
                }
            }
        }
    }
    out.flush().unwrap();
}


/// `transform probe '<forms>'…`: debugging aid — every `define-syntax` form is evaluated, every other
/// form is shown before and after `Vm::transform`
fn probe(texts: &[String]) {
    let mut vm = Vm::new();
    for t in texts {
        let mut rest: Option<&str> = Some(t.as_str());
        while let Some(text) = rest {
            if text.trim().is_empty() { break }
            let (cell, r) = match marwood::parse::parse_text(text) { Ok(x) => x, Err(e) => { println!("parse error {:?}", e); break } };
            rest = r;
            let is_ds = cell.car().map(|c| *c == sym("define-syntax")).unwrap_or(false);
            if is_ds {
                println!("{}  =eval=> {:?}", cell, vm.eval(&cell).map(|c| c.to_string()));
            } else {
                let c2 = cell.clone();
                let mut vmr = std::panic::AssertUnwindSafe(&mut vm);
                let r = catch(move || vmr.transform(&c2).map(|c| c.to_string()));
                println!("{}  =transform=> {:?}", cell, r);
            }
        }
    }
}

fn main() {
    let args: Vec<String> = std::env::args().collect();
    let cmd = args.get(1).map(|s| s.as_str()).unwrap_or("");
    match cmd {
        "worker" => {
            let n: u64 = args[3].parse().unwrap();
            let start: u64 = args[4].parse().unwrap();
            worker(&args[2], n, start);
        }
        "probe" => probe(&args[2..]),
        "defs" | "uses" | "vm" | "corpus" | "vm-corpus" | "expand" | "expand-corpus" => {
            let n: u64 = args.get(2).and_then(|s| s.parse().ok()).unwrap_or(100);
            supervise(cmd, n);
        }
        _ => {
            eprintln!("usage: transform defs|uses|vm|corpus|vm-corpus|expand|expand-corpus <n>");
            std::process::exit(2);
        }
    }
}
