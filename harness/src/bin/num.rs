//! Correspondence generators for the NUM area (C08 exact arithmetic, C09 comparison).
//!
//! Output: one line per case, `request \t impl-response \t spec-request`.
//!   request      = `num <op> <a> [<b>]`        direct `marwood::number::Number` API
//!                | `scm <proc> <a1> … <an>`    Scheme-level procedure through `Vm::eval`
//!   operands     = `fix:<i64>` `big:<int>` `rat:<n>/<d>` `flo:<16 hex>`
//!   response     = `ok <num>` | `ok b0|b1` | `err <class>` | `panic`
//!   spec-request = `spec <request> => <response>` (the driver judges the response against ℚ)
//! C14 (mode `eqv`): request `eqv <a> <b>`, response `ok` + eight `b0|b1` — `(eqv? a b)`,
//!   `(equal? a b)`, `(equal? (list 1 a) (list 1 b))`, `(equal? (vector a) (vector b))`,
//!   `(memv a (list b))`, `(member a (list b))`, `(assv a (list (cons b 1)))`,
//!   `(assoc a (list (cons b 1)))` as truth values — followed by the two informational tokens
//!   `eq:<b>` (`(eq? a b)`, unspecified on numbers) and `=:<b>` (`(= a b)`); spec-request
//!   `eqvspec <a> <b>`.
//! NaN results are canonicalised to 7ff8000000000000 (the payload/sign of a NaN is not an
//! observable of the property and differs between x87/SSE default NaNs).
use marwood::cell::Cell;
use marwood::error::Error;
use marwood::number::Number;
use marwood::vm::Vm;
use mwv::rng::Rng;
use mwv::wire::{catch, silence_panics};
use num::bigint::BigInt;
use num::{Rational32, Zero};
use std::io::Write;
use std::panic::AssertUnwindSafe;
use std::str::FromStr;

// ---------------------------------------------------------------- wire

fn enc(n: &Number) -> String {
    match n {
        Number::Fixnum(v) => format!("fix:{}", v),
        Number::BigInt(v) => format!("big:{}", v),
        Number::Rational(r) => format!("rat:{}/{}", r.numer(), r.denom()),
        Number::Float(f) => {
            if f.is_nan() {
                "flo:7ff8000000000000".to_string()
            } else {
                format!("flo:{:016x}", f.to_bits())
            }
        }
    }
}

fn dec(w: &str) -> Option<Number> {
    if let Some(r) = w.strip_prefix("fix:") {
        r.parse::<i64>().ok().map(Number::Fixnum)
    } else if let Some(r) = w.strip_prefix("big:") {
        BigInt::from_str(r).ok().map(Number::from)
    } else if let Some(r) = w.strip_prefix("rat:") {
        let (a, b) = r.split_once('/')?;
        // new_raw: the harness only ever sends reduced ratios with positive denominator
        Some(Number::Rational(Rational32::new_raw(a.parse().ok()?, b.parse().ok()?)))
    } else if let Some(r) = w.strip_prefix("flo:") {
        u64::from_str_radix(r, 16).ok().map(|b| Number::Float(f64::from_bits(b)))
    } else {
        None
    }
}

fn show_opt(r: Result<Option<Number>, String>) -> String {
    match r {
        Err(_) => "panic".into(),
        Ok(None) => "err none".into(),
        Ok(Some(n)) => format!("ok {}", enc(&n)),
    }
}

fn show_bool(r: Result<bool, String>) -> String {
    match r {
        Err(_) => "panic".into(),
        Ok(true) => "ok b1".into(),
        Ok(false) => "ok b0".into(),
    }
}

// ---------------------------------------------------------------- running the real code

/// direct `Number` API
fn run_num(op: &str, a: &Number, b: Option<&Number>) -> String {
    let a = a.clone();
    let b2 = b.cloned();
    let bin = |f: fn(&Number, &Number) -> Option<Number>| -> String {
        let b = b2.clone().unwrap();
        let a = a.clone();
        show_opt(catch(AssertUnwindSafe(move || f(&a, &b))))
    };
    let un = |f: fn(&Number) -> Number| -> String {
        let a = a.clone();
        show_opt(catch(AssertUnwindSafe(move || Some(f(&a)))))
    };
    let cmp = |f: fn(&Number, &Number) -> bool| -> String {
        let b = b2.clone().unwrap();
        let a = a.clone();
        show_bool(catch(AssertUnwindSafe(move || f(&a, &b))))
    };
    match op {
        "add" => bin(|a, b| Some(a + b)),
        "sub" => bin(|a, b| Some(a - b)),
        "mul" => bin(|a, b| Some(a * b)),
        "div" => bin(|a, b| Some(a / b)),
        "quotient" => bin(|a, b| a.quotient(b)),
        "rem" => bin(|a, b| a % b),
        "modulo" => bin(|a, b| a.modulo(b)),
        "abs" => un(|a| a.abs()),
        "floor" => un(|a| a.floor()),
        "ceil" => un(|a| a.ceil()),
        "trunc" => un(|a| a.truncate()),
        "round" => un(|a| a.round()),
        "numer" => un(|a| a.numerator()),
        "denom" => un(|a| a.denominator()),
        "eq" => cmp(|a, b| a == b),
        "lt" => cmp(|a, b| a < b),
        "gt" => cmp(|a, b| a > b),
        "le" => cmp(|a, b| a <= b),
        "ge" => cmp(|a, b| a >= b),
        _ => "bad-op".into(),
    }
}

fn run_pow(a: &Number, e: u32) -> String {
    let a = a.clone();
    show_opt(catch(AssertUnwindSafe(move || Some(a.pow(e)))))
}

fn err_class(e: &Error) -> &'static str {
    match e {
        Error::InvalidNumArgs(_) => "arity",
        Error::InvalidSyntax(_) => "syntax",
        Error::InvalidArgs(_, _, _) => "type",
        Error::ExpectedType(_, _) => "type",
        _ => "other",
    }
}

struct Scm {
    vm: Option<Vm>,
}

impl Scm {
    fn new() -> Scm {
        Scm { vm: Some(Vm::new()) }
    }

    /// `(proc 'a1 … 'an)` through the public `Vm::eval`; numbers are self-evaluating constants,
    /// so every representation reaches the procedure unchanged.
    fn call(&mut self, proc_: &str, args: &[Number]) -> String {
        let mut v = vec![Cell::new_symbol(proc_)];
        for a in args {
            v.push(Cell::Number(a.clone()));
        }
        let expr = Cell::new_list(v);
        let mut vm = self.vm.take().unwrap_or_else(Vm::new);
        let r = catch(AssertUnwindSafe(|| {
            let r = vm.eval(&expr);
            (vm, r)
        }));
        match r {
            Err(_) => {
                // the VM that panicked is dropped; the next call builds a fresh one
                "panic".into()
            }
            Ok((vm, r)) => {
                self.vm = Some(vm);
                match r {
                    Ok(Cell::Number(n)) => format!("ok {}", enc(&n)),
                    Ok(Cell::Bool(true)) => "ok b1".into(),
                    Ok(Cell::Bool(false)) => "ok b0".into(),
                    Ok(_) => "ok other".into(),
                    Err(e) => format!("err {}", err_class(&e)),
                }
            }
        }
    }
}

struct Out<'a> {
    w: std::io::BufWriter<std::io::StdoutLock<'a>>,
    scm: Scm,
}

impl<'a> Out<'a> {
    fn emit(&mut self, req: String, resp: String, spec: bool) {
        if spec {
            writeln!(self.w, "{}\t{}\tspec {} => {}", req, resp, req, resp).unwrap();
        } else {
            writeln!(self.w, "{}\t{}", req, resp).unwrap();
        }
    }
    fn num2(&mut self, op: &str, a: &Number, b: &Number, spec: bool) {
        let req = format!("num {} {} {}", op, enc_raw(a), enc_raw(b));
        let resp = run_num(op, a, Some(b));
        self.emit(req, resp, spec);
    }
    fn num1(&mut self, op: &str, a: &Number, spec: bool) {
        let req = format!("num {} {}", op, enc_raw(a));
        let resp = run_num(op, a, None);
        self.emit(req, resp, spec);
    }
    fn pow(&mut self, a: &Number, e: u32, spec: bool) {
        let req = format!("num pow {} {}", enc_raw(a), e);
        let resp = run_pow(a, e);
        self.emit(req, resp, spec);
    }
    fn scm(&mut self, proc_: &str, args: &[Number], spec: bool) {
        let mut req = format!("scm {}", proc_);
        for a in args {
            req.push(' ');
            req.push_str(&enc_raw(a));
        }
        let resp = self.scm.call(proc_, args);
        self.emit(req, resp, spec);
    }
}

/// operands keep their NaN payload on the wire (the model canonicalises on output only)
fn enc_raw(n: &Number) -> String {
    match n {
        Number::Float(f) => format!("flo:{:016x}", f.to_bits()),
        _ => enc(n),
    }
}


// ---------------------------------------------------------------- C14: eqv? on numbers

fn sym(s: &str) -> Cell {
    Cell::new_symbol(s)
}

fn app(f: &str, args: Vec<Cell>) -> Cell {
    let mut v = vec![sym(f)];
    v.extend(args);
    Cell::new_list(v)
}

fn truth(e: Cell) -> Cell {
    Cell::new_list(vec![sym("if"), e, Cell::Bool(true), Cell::Bool(false)])
}

/// the ten forms of the stream over two operand expressions (constants or global variables)
fn eqv_forms(x: &Cell, y: &Cell) -> Cell {
    let one = || Cell::Number(Number::Fixnum(1));
    let x = || x.clone();
    let y = || y.clone();
    app(
        "list",
        vec![
            app("eqv?", vec![x(), y()]),
            app("equal?", vec![x(), y()]),
            app("equal?", vec![app("list", vec![one(), x()]), app("list", vec![one(), y()])]),
            app("equal?", vec![app("vector", vec![x()]), app("vector", vec![y()])]),
            truth(app("memv", vec![x(), app("list", vec![y()])])),
            truth(app("member", vec![x(), app("list", vec![y()])])),
            truth(app("assv", vec![x(), app("list", vec![app("cons", vec![y(), one()])])])),
            truth(app("assoc", vec![x(), app("list", vec![app("cons", vec![y(), one()])])])),
            app("eq?", vec![x(), y()]),
            app("=", vec![x(), y()]),
        ],
    )
}

impl Scm {
    fn eval_cell(&mut self, expr: &Cell) -> Result<Result<Cell, Error>, ()> {
        let mut vm = self.vm.take().unwrap_or_else(Vm::new);
        let r = catch(AssertUnwindSafe(|| {
            let r = vm.eval(expr);
            (vm, r)
        }));
        match r {
            Err(_) => Err(()),
            Ok((vm, r)) => {
                self.vm = Some(vm);
                Ok(r)
            }
        }
    }

    /// evaluate the ten forms on the real VM
    fn eqv_response(&mut self, x: &Cell, y: &Cell) -> String {
        match self.eval_cell(&eqv_forms(x, y)) {
            Err(()) => "panic".into(),
            Ok(Err(e)) => format!("err {}", err_class(&e)),
            Ok(Ok(c)) => {
                let bs: Vec<Option<bool>> = c.iter().map(|b| b.as_bool()).collect();
                if !c.is_list() || bs.len() != 10 || bs.iter().any(|b| b.is_none()) {
                    return "ok other".into();
                }
                let t = |b: Option<bool>| if b.unwrap() { "b1" } else { "b0" };
                let mut s = String::from("ok");
                for b in &bs[..8] {
                    s.push(' ');
                    s.push_str(t(*b));
                }
                s.push_str(&format!(" eq:{} =:{}", t(bs[8]), t(bs[9])));
                s
            }
        }
    }
}

impl<'a> Out<'a> {
    fn emit_eqv(&mut self, a: &Number, b: &Number, resp: String) {
        writeln!(
            self.w,
            "eqv {} {}\t{}\teqvspec {} {}",
            enc_raw(a),
            enc_raw(b),
            resp,
            enc_raw(a),
            enc_raw(b)
        )
        .unwrap();
    }
    /// operands as self-evaluating constants: the representation reaches `Vm::eqv` unchanged
    fn eqv(&mut self, a: &Number, b: &Number) {
        let resp = self.scm.eqv_response(&Cell::Number(a.clone()), &Cell::Number(b.clone()));
        self.emit_eqv(a, b, resp);
    }
}

/// operands built by the VM's own reader and arithmetic: `(define eqv-c<k> <text>)`, read back to
/// learn which representation the VM chose; the forms then refer to the global variables
const CARRIERS: [&str; 40] = [
    "2",
    "2.0",
    "2.",
    "(/ 4 2)",
    "(/ 6 3)",
    "(/ 1 2)",
    "1/2",
    "4/2",
    ".5",
    "(exact->inexact 1/2)",
    "(- (expt 2 70) (- (expt 2 70) 2))",
    "(- (expt 2 70) (- (expt 2 70) 1/2))",
    "(* 1/2 4)",
    "(+ 1/2 3/2)",
    "(+ 1.5 .5)",
    "0",
    "0.0",
    "-0.0",
    "(- 0.0)",
    "(* -1 0.0)",
    "(- 5 5)",
    "(- 1/2 1/2)",
    "(- (expt 2 70) (expt 2 70))",
    "9007199254740992",
    "9007199254740992.0",
    "9007199254740993",
    "(+ 9007199254740992.0 1)",
    "(expt 2 53)",
    "(expt 2. 53)",
    "9223372036854775807",
    "9223372036854775808",
    "(+ 9223372036854775807 1)",
    "(- (expt 2 63) 1)",
    "9223372036854775808.0",
    "(expt 2 100)",
    "(* (expt 2 50) (expt 2 50))",
    "(exact->inexact (expt 2 100))",
    "2147483648",
    "(- 2147483647/2 -2147483649/2)",
    "1e400",
];

fn eqv_carriers(out: &mut Out) {
    let mut have: Vec<(Cell, Number)> = vec![];
    for (k, text) in CARRIERS.iter().enumerate() {
        let name = format!("eqv-c{}", k);
        let def = format!("(define {} {})", name, text);
        let mut vm = out.scm.vm.take().unwrap_or_else(Vm::new);
        let r = catch(AssertUnwindSafe(|| {
            let ok = vm.eval_text(&def).is_ok();
            (vm, ok)
        }));
        if let Ok((vm, ok)) = r {
            out.scm.vm = Some(vm);
            if !ok {
                continue;
            }
        } else {
            continue;
        }
        if let Ok(Ok(Cell::Number(n))) = out.scm.eval_cell(&sym(&name)) {
            have.push((sym(&name), n));
        }
    }
    for (xa, na) in &have {
        for (xb, nb) in &have {
            let resp = out.scm.eqv_response(xa, xb);
            out.emit_eqv(na, nb, resp);
        }
    }
}

/// NaNs by payload: quiet, quiet with payload, negative quiet, signalling
const NANS: [u64; 4] =
    [0x7ff8000000000000, 0x7ff8000000000001, 0xfff8000000000000, 0x7ff0000000000001];

/// every other carrier of the value of `a`, the doubles next to it, and its negation
fn eqv_relatives(a: &Number) -> Vec<Number> {
    use num::ToPrimitive;
    let mut v = vec![a.clone()];
    if let Some(q) = exact_value(a) {
        if q.is_integer() {
            v.extend(int_reps(&q.to_integer()));
            v.extend(int_reps(&-q.to_integer()));
            v.extend(int_reps(&(q.to_integer() + 1)));
        }
        if let (Some(n), Some(d)) = (q.numer().to_i32(), q.denom().to_i32()) {
            v.push(Number::Rational(Rational32::new_raw(n, d)));
        }
    }
    if let Some(f) = a.to_f64() {
        if !f.is_nan() {
            let b = f.to_bits();
            for d in -2i64..=2 {
                let g = f64::from_bits(b.wrapping_add(d as u64));
                if !g.is_nan() {
                    v.push(Number::Float(g));
                }
            }
            v.push(Number::Float(-f));
        }
    }
    dedup_nums(v)
}

// ---------------------------------------------------------------- palette

fn big(s: &str) -> BigInt {
    BigInt::from_str(s).unwrap()
}

fn pow2(k: u32) -> BigInt {
    BigInt::from(1) << (k as usize)
}

/// boundary integers of the property quantifier, as BigInt values
fn boundary_ints() -> Vec<BigInt> {
    let mut v: Vec<BigInt> = vec![];
    for base in [0u32, 31, 32, 53, 63, 64] {
        let p = if base == 0 { BigInt::zero() } else { pow2(base) };
        for d in -2i32..=2 {
            v.push(&p + d);
            v.push(-(&p) + d);
        }
    }
    for k in [1i64, 2, 3, 5, 7, 10, 12, 100, 46341, 46340, 65536, 3037000499, 3037000500] {
        v.push(BigInt::from(k));
        v.push(BigInt::from(-k));
    }
    v.sort();
    v.dedup();
    v
}

fn random_int(rng: &mut Rng) -> BigInt {
    let bits = *rng.pick(&[8u32, 16, 31, 32, 33, 53, 62, 63, 64, 65, 128, 256]);
    let mut x = BigInt::zero();
    let words = (bits + 63) / 64;
    for _ in 0..words {
        x = (x << 64usize) + BigInt::from(rng.next());
    }
    x = x >> ((words * 64 - bits) as usize);
    if rng.chance(1, 4) {
        // pull toward a boundary
        let b = *rng.pick(&[31u32, 32, 53, 63, 64]);
        x = pow2(b) + BigInt::from(rng.range(-3, 3));
    }
    if rng.chance(1, 2) {
        -x
    } else {
        x
    }
}

fn to_i64(x: &BigInt) -> Option<i64> {
    use num::ToPrimitive;
    x.to_i64()
}

fn to_i32(x: &BigInt) -> Option<i32> {
    use num::ToPrimitive;
    x.to_i32()
}

/// every representation that can carry the integer `x`
fn int_reps(x: &BigInt) -> Vec<Number> {
    let mut v = vec![];
    if let Some(i) = to_i64(x) {
        v.push(Number::Fixnum(i));
    }
    v.push(Number::from(x.clone()));
    if let Some(i) = to_i32(x) {
        v.push(Number::Rational(Rational32::from_integer(i)));
    }
    v
}

fn gcd_u64(mut a: u64, mut b: u64) -> u64 {
    while b != 0 {
        let t = a % b;
        a = b;
        b = t;
    }
    a
}

/// reduced ratio n/d (d > 0) as a Number::Rational, if both parts fit i32
fn ratio(n: i64, d: i64) -> Option<Number> {
    if d == 0 {
        return None;
    }
    let (mut n, mut d) = if d < 0 { (-n, -d) } else { (n, d) };
    let g = gcd_u64(n.unsigned_abs(), d as u64) as i64;
    if g > 1 {
        n /= g;
        d /= g;
    }
    if n < i32::MIN as i64 || n > i32::MAX as i64 || d > i32::MAX as i64 {
        return None;
    }
    Some(Number::Rational(Rational32::new_raw(n as i32, d as i32)))
}

fn boundary_rats() -> Vec<Number> {
    let parts: [i64; 14] = [
        1, 2, 3, 5, 7, 46340, 46341, 65535, 65536, 1073741824, 2147483645, 2147483646, 2147483647,
        -2147483648,
    ];
    let mut v = vec![];
    for &n in &parts {
        for &d in &parts {
            if d <= 0 {
                continue;
            }
            for s in [1i64, -1] {
                if let Some(r) = ratio(s * n, d) {
                    v.push(r);
                }
            }
        }
    }
    v.push(ratio(i32::MIN as i64, 3).unwrap());
    v.push(ratio(i32::MIN as i64, 2147483647).unwrap());
    v.push(ratio(i32::MIN as i64 + 1, 3).unwrap());
    v.push(ratio(i32::MIN as i64 + 1, 2).unwrap());
    v.push(ratio(1, 2147483647).unwrap());
    v.push(ratio(2147483647, 2).unwrap());
    v.push(ratio(2147483647, 3).unwrap());
    dedup_nums(v)
}

fn random_rat(rng: &mut Rng) -> Number {
    loop {
        let bits_n = *rng.pick(&[3u32, 8, 16, 24, 31]);
        let bits_d = *rng.pick(&[2u32, 8, 16, 24, 31]);
        let mut n = (rng.next() >> (64 - bits_n)) as i64;
        let d = ((rng.next() >> (64 - bits_d)) as i64).max(1);
        if rng.chance(1, 2) {
            n = -n;
        }
        if let Some(r) = ratio(n, d) {
            return r;
        }
    }
}

fn dedup_nums(v: Vec<Number>) -> Vec<Number> {
    let mut seen = std::collections::HashSet::new();
    let mut out = vec![];
    for n in v {
        if seen.insert(enc_raw(&n)) {
            out.push(n);
        }
    }
    out
}

/// the exact palette: boundary integers in every representation + boundary rationals + random
fn exact_palette(rng: &mut Rng, n_rand_int: usize, n_rand_rat: usize) -> Vec<Number> {
    let mut v = vec![];
    for x in boundary_ints() {
        v.extend(int_reps(&x));
    }
    v.extend(boundary_rats());
    for _ in 0..n_rand_int {
        let x = random_int(rng);
        v.extend(int_reps(&x));
    }
    for _ in 0..n_rand_rat {
        v.push(random_rat(rng));
    }
    dedup_nums(v)
}

fn is_int_valued(n: &Number) -> bool {
    match n {
        Number::Fixnum(_) | Number::BigInt(_) => true,
        Number::Rational(r) => r.is_integer(),
        Number::Float(_) => false,
    }
}

/// doubles of the C09 quantifier: near 2^53 / 2^63, ±0.0, subnormals, ±inf, neighbours of the
/// exact palette members
fn float_palette(rng: &mut Rng, exact: &[Number], n_rand: usize) -> Vec<Number> {
    let mut bits: Vec<u64> = vec![];
    let around = |x: f64, bits: &mut Vec<u64>| {
        let b = x.to_bits();
        for d in -2i64..=2 {
            let nb = b.wrapping_add(d as u64);
            let f = f64::from_bits(nb);
            if !f.is_nan() {
                bits.push(nb);
            }
        }
    };
    for x in [
        0.0f64,
        -0.0,
        1.0,
        -1.0,
        0.5,
        -0.5,
        f64::MIN_POSITIVE,
        -f64::MIN_POSITIVE,
        f64::MAX,
        f64::MIN,
        9007199254740992.0,
        -9007199254740992.0,
        9223372036854775808.0,
        -9223372036854775808.0,
        18446744073709551616.0,
        2147483648.0,
        -2147483648.0,
        4294967296.0,
        0.1,
        1e300,
        1e-300,
    ] {
        around(x, &mut bits);
    }
    bits.push(1); // smallest subnormal
    bits.push(0x8000000000000001);
    bits.push(0x000fffffffffffff); // largest subnormal
    bits.push(f64::INFINITY.to_bits());
    bits.push(f64::NEG_INFINITY.to_bits());
    for n in exact {
        if let Some(f) = n.to_f64() {
            if f.is_finite() {
                around(f, &mut bits);
            }
        }
    }
    for _ in 0..n_rand {
        let b = rng.next();
        if !f64::from_bits(b).is_nan() {
            bits.push(b);
        }
    }
    bits.sort();
    bits.dedup();
    bits.into_iter().map(|b| Number::Float(f64::from_bits(b))).collect()
}

// ---------------------------------------------------------------- streams

const BIN_OPS: [&str; 4] = ["add", "sub", "mul", "div"];
const SCM_BIN: [&str; 4] = ["+", "-", "*", "/"];
const INT_OPS: [&str; 3] = ["quotient", "rem", "modulo"];
const SCM_INT: [&str; 3] = ["quotient", "remainder", "modulo"];
const UN_OPS: [&str; 6] = ["abs", "floor", "ceil", "trunc", "numer", "denom"];
const SCM_UN: [&str; 6] = ["abs", "floor", "ceiling", "truncate", "numerator", "denominator"];
const CMP_OPS: [&str; 5] = ["eq", "lt", "gt", "le", "ge"];
const SCM_CMP: [&str; 5] = ["=", "<", ">", "<=", ">="];

fn main() {
    silence_panics();
    let args: Vec<String> = std::env::args().collect();
    let cmd = args.get(1).map(|s| s.as_str()).unwrap_or("");
    let seed: u64 = std::env::var("VERIF_SEED").ok().and_then(|s| s.parse().ok()).unwrap_or(1);
    let stdout = std::io::stdout();
    let mut out = Out { w: std::io::BufWriter::new(stdout.lock()), scm: Scm::new() };
    let argn = |i: usize| -> usize { args.get(i).and_then(|s| s.parse().ok()).unwrap_or(0) };
    match cmd {
        // replay one request given on the command line (tokens after `one`)
        "one" => {
            let toks: Vec<&str> = args[2..].iter().map(|s| s.as_str()).collect();
            if let ["eqv", a, b] = toks[..] {
                if let (Some(a), Some(b)) = (dec(a), dec(b)) {
                    out.eqv(&a, &b);
                }
            } else {
                let resp = run_request(&toks, &mut out.scm);
                let req = toks.join(" ");
                out.emit(req, resp, true);
            }
        }
        // replay requests from a corpus file (one request per line)
        "corpus" => {
            let text = std::fs::read_to_string(&args[2]).unwrap_or_default();
            for line in text.lines() {
                let line = line.trim();
                if line.is_empty() || line.starts_with('#') {
                    continue;
                }
                let toks: Vec<&str> = line.split(' ').collect();
                if let ["eqv", a, b] = toks[..] {
                    if let (Some(a), Some(b)) = (dec(a), dec(b)) {
                        out.eqv(&a, &b);
                    }
                    continue;
                }
                let resp = run_request(&toks, &mut out.scm);
                out.emit(line.to_string(), resp, true);
            }
        }
        // C08: every binary operator over the boundary palette squared (both API levels)
        "arith-pairs" => {
            let mut rng = Rng::new(seed ^ 0x0801);
            let pal = exact_palette(&mut rng, argn(2), argn(3));
            let stride = argn(4).max(1);
            let mut k = 0usize;
            for a in &pal {
                for b in &pal {
                    k += 1;
                    if k % stride != 0 {
                        continue;
                    }
                    for (op, sp) in BIN_OPS.iter().zip(SCM_BIN.iter()) {
                        // the direct API panics on a zero divisor by design of `Ratio::new`;
                        // the procedure `/` rejects it, so only the Scheme level sees it
                        if *op == "div" && b.is_zero() {
                            out.scm(sp, &[a.clone(), b.clone()], true);
                            continue;
                        }
                        out.num2(op, a, b, true);
                        out.scm(sp, &[a.clone(), b.clone()], true);
                    }
                }
            }
        }
        // C08: quotient / remainder / modulo over integer-valued palette members
        "int-pairs" => {
            let mut rng = Rng::new(seed ^ 0x0802);
            let pal: Vec<Number> =
                exact_palette(&mut rng, argn(2), 0).into_iter().filter(is_int_valued).collect();
            let stride = argn(3).max(1);
            let mut k = 0usize;
            for a in &pal {
                for b in &pal {
                    k += 1;
                    if k % stride != 0 {
                        continue;
                    }
                    for (op, sp) in INT_OPS.iter().zip(SCM_INT.iter()) {
                        if !b.is_zero() {
                            out.num2(op, a, b, true);
                        }
                        out.scm(sp, &[a.clone(), b.clone()], true);
                    }
                }
            }
            // non-integers must be rejected by the procedures
            let rats = boundary_rats();
            for r in rats.iter().filter(|r| !is_int_valued(r)).take(40) {
                for sp in SCM_INT.iter() {
                    out.scm(sp, &[r.clone(), Number::Fixnum(3)], true);
                    out.scm(sp, &[Number::Fixnum(7), r.clone()], true);
                }
            }
        }
        // C08: unary operations and expt
        "unary" => {
            let mut rng = Rng::new(seed ^ 0x0803);
            let pal = exact_palette(&mut rng, argn(2), argn(3));
            for a in &pal {
                for (op, sp) in UN_OPS.iter().zip(SCM_UN.iter()) {
                    out.num1(op, a, true);
                    out.scm(sp, &[a.clone()], true);
                }
                out.num1("round", a, false);
                out.scm("round", &[a.clone()], false);
            }
            // expt: every palette member with small exponents; large exponents with small bases
            let exps: [u32; 12] = [0, 1, 2, 3, 4, 5, 7, 15, 16, 31, 32, 40];
            for a in &pal {
                for &e in &exps {
                    // keep results below ~20k bits
                    let bits = match a {
                        Number::BigInt(b) => b.bits(),
                        _ => 64,
                    };
                    if bits * (e as u64) > 20000 {
                        continue;
                    }
                    out.pow(a, e, true);
                    for er in int_reps(&BigInt::from(e)) {
                        out.scm("expt", &[a.clone(), er], true);
                    }
                }
            }
            for base in [-3i64, -2, -1, 0, 1, 2, 3, 10] {
                for e in [62u32, 63, 64, 65, 100, 1000] {
                    for b in int_reps(&BigInt::from(base)) {
                        out.pow(&b, e, true);
                        out.scm("expt", &[b.clone(), Number::Fixnum(e as i64)], true);
                    }
                }
            }
            for r in boundary_rats().iter().take(60) {
                for e in [30u32, 31, 32, 33, 62, 64] {
                    out.pow(r, e, true);
                    out.scm("expt", &[r.clone(), Number::Fixnum(e as i64)], true);
                }
            }
            // negative / oversized exponents are rejected
            for e in [big("-1"), big("4294967295"), big("4294967296"), big("-4294967296")] {
                for er in int_reps(&e) {
                    out.scm("expt", &[Number::Fixnum(1), er], false);
                }
            }
        }
        // C08: variadic + * - and unary - / (random short lists)
        "variadic" => {
            let mut rng = Rng::new(seed ^ 0x0804);
            let pal = exact_palette(&mut rng, 40, 40);
            let n = argn(2);
            for sp in ["+", "*", "-", "/"] {
                out.scm(sp, &[], true);
            }
            for a in pal.iter() {
                for sp in ["+", "*", "-", "/"] {
                    out.scm(sp, &[a.clone()], true);
                }
            }
            for _ in 0..n {
                let len = rng.range(3, 5) as usize;
                let xs: Vec<Number> = (0..len).map(|_| rng.pick(&pal).clone()).collect();
                for sp in ["+", "*", "-"] {
                    out.scm(sp, &xs, true);
                }
            }
            let xs: Vec<Number> = (0..3).map(|_| rng.pick(&pal).clone()).collect();
            out.scm("/", &xs, false); // arity error
        }
        // C09: comparisons over (exact palette ∪ doubles)², both API levels
        "cmp-pairs" => {
            let mut rng = Rng::new(seed ^ 0x0901);
            let ex = exact_palette(&mut rng, argn(2), argn(3));
            let fl = float_palette(&mut rng, &ex, argn(4));
            let stride = argn(5).max(1);
            let mut pal = ex.clone();
            pal.extend(fl);
            let mut k = 0usize;
            for a in &pal {
                for b in &pal {
                    k += 1;
                    if k % stride != 0 {
                        continue;
                    }
                    for (op, sp) in CMP_OPS.iter().zip(SCM_CMP.iter()) {
                        out.num2(op, a, b, true);
                        out.scm(sp, &[a.clone(), b.clone()], true);
                    }
                    out.scm("min", &[a.clone(), b.clone()], true);
                    out.scm("max", &[a.clone(), b.clone()], true);
                }
            }
            for a in &pal {
                for sp in ["zero?", "positive?", "negative?"] {
                    out.scm(sp, &[a.clone()], true);
                }
                for sp in SCM_CMP.iter() {
                    out.scm(sp, &[a.clone()], true);
                }
            }
            for sp in SCM_CMP.iter() {
                out.scm(sp, &[], false);
            }
            out.scm("min", &[Number::Fixnum(1)], false);
            out.scm("zero?", &[], false);
        }
        // C09: neighbours — for every exact member x and the doubles around it, all relations
        "cmp-neighbours" => {
            let mut rng = Rng::new(seed ^ 0x0902);
            let ex = exact_palette(&mut rng, argn(2), argn(3));
            for a in &ex {
                let fl = float_palette(&mut rng, std::slice::from_ref(a), 0);
                // only the doubles adjacent to `a`
                let af = a.to_f64().unwrap_or(f64::NAN);
                for f in fl.iter().filter(|f| {
                    let x = f.to_f64().unwrap();
                    af.is_finite() && (x.to_bits() as i128 - af.to_bits() as i128).abs() <= 2
                }) {
                    for (op, sp) in CMP_OPS.iter().zip(SCM_CMP.iter()) {
                        out.num2(op, a, f, true);
                        out.num2(op, f, a, true);
                        out.scm(sp, &[a.clone(), f.clone()], true);
                        out.scm(sp, &[f.clone(), a.clone()], true);
                    }
                    out.scm("min", &[a.clone(), f.clone()], true);
                    out.scm("max", &[f.clone(), a.clone()], true);
                }
            }
        }
        // C09: random triples (variadic forms, transitivity witnesses)
        "cmp-triples" => {
            let mut rng = Rng::new(seed ^ 0x0903);
            let ex = exact_palette(&mut rng, 60, 60);
            let fl = float_palette(&mut rng, &ex, 50);
            let mut pal = ex.clone();
            pal.extend(fl);
            let n = argn(2);
            for _ in 0..n {
                // draw values that are close together so that chains are often true
                let i = rng.below(pal.len() as u64) as usize;
                let a = pal[i].clone();
                let b = if rng.chance(1, 2) { same_value_other_rep(&mut rng, &a) } else { rng.pick(&pal).clone() };
                let c = if rng.chance(1, 3) { same_value_other_rep(&mut rng, &b) } else { rng.pick(&pal).clone() };
                let mut xs = vec![a, b, c];
                if rng.chance(1, 2) {
                    sort_by_value(&mut xs);
                    if rng.chance(1, 2) {
                        xs.reverse();
                    }
                }
                for sp in SCM_CMP.iter() {
                    out.scm(sp, &xs, true);
                }
                out.scm("min", &xs, true);
                out.scm("max", &xs, true);
            }
            // NaN is outside the property; model correspondence only
            let nan = Number::Float(f64::NAN);
            for a in pal.iter().take(120) {
                for (op, sp) in CMP_OPS.iter().zip(SCM_CMP.iter()) {
                    out.num2(op, a, &nan, false);
                    out.num2(op, &nan, a, false);
                    out.scm(sp, &[a.clone(), nan.clone()], false);
                }
                out.scm("min", &[a.clone(), nan.clone()], false);
                out.scm("max", &[nan.clone(), a.clone()], false);
            }
        }
        // C14: eqv? / equal? / memv / member / assv / assoc (and eq?, =) on every pair
        "eqv" => {
            let mut rng = Rng::new(seed ^ 0x1401);
            // core palette: boundary integers in every representation, a spread of ratios,
            // the special doubles and NaNs; all pairs (strided)
            let mut core: Vec<Number> = vec![];
            for x in boundary_ints() {
                core.extend(int_reps(&x));
            }
            let rats = boundary_rats();
            let rstep = argn(5).max(1);
            core.extend(rats.iter().step_by(rstep).cloned());
            for (n, d) in [(1i64, 2i64), (-1, 2), (1, 3), (2, 3), (-7, 2), (2147483647, 2), (-2147483648, 3)] {
                core.push(ratio(n, d).unwrap());
            }
            let mut fl = float_palette(&mut rng, &[], 0);
            for b in NANS {
                fl.push(Number::Float(f64::from_bits(b)));
            }
            core.extend(fl);
            let core = dedup_nums(core);
            let stride = argn(6).max(1);
            let mut k = 0usize;
            for a in &core {
                for b in &core {
                    k += 1;
                    if k % stride != 0 {
                        continue;
                    }
                    out.eqv(a, b);
                }
            }
            // NaN against NaN, every payload pair (never strided)
            for a in NANS {
                for b in NANS {
                    out.eqv(&Number::Float(f64::from_bits(a)), &Number::Float(f64::from_bits(b)));
                }
            }
            // every member of the large palette against the other carriers of its value, the
            // doubles next to it, its successor and its negation, in both orders
            let ex = exact_palette(&mut rng, argn(2), argn(3));
            let mut big_pal = ex.clone();
            big_pal.extend(float_palette(&mut rng, &[], argn(4)));
            for a in &big_pal {
                for b in eqv_relatives(a) {
                    out.eqv(a, &b);
                    out.eqv(&b, a);
                }
            }
            // random pairs
            for _ in 0..argn(7) {
                let a = rng.pick(&big_pal).clone();
                let b = if rng.chance(1, 2) { same_value_other_rep(&mut rng, &a) } else { rng.pick(&big_pal).clone() };
                out.eqv(&a, &b);
            }
            // operands produced by the VM's reader and arithmetic, held in global variables
            eqv_carriers(&mut out);
        }
        _ => {
            eprintln!(
                "usage: num one <request…> | corpus FILE | arith-pairs NI NR STRIDE | int-pairs NI STRIDE | unary NI NR | variadic N | cmp-pairs NI NR NF STRIDE | cmp-neighbours NI NR | cmp-triples N | eqv NI NR NF RATSTEP STRIDE NRANDOM"
            );
            std::process::exit(2);
        }
    }
    out.w.flush().unwrap();
}

fn exact_value(n: &Number) -> Option<num::BigRational> {
    use num::BigRational;
    match n {
        Number::Fixnum(v) => Some(BigRational::from_integer(BigInt::from(*v))),
        Number::BigInt(v) => Some(BigRational::from_integer((**v).clone())),
        Number::Rational(r) => {
            Some(BigRational::new(BigInt::from(*r.numer()), BigInt::from(*r.denom())))
        }
        Number::Float(f) => BigRational::from_float(*f),
    }
}

fn sort_by_value(xs: &mut [Number]) {
    xs.sort_by(|a, b| {
        let key = |n: &Number| match n {
            Number::Float(f) if f.is_infinite() => (if *f > 0.0 { 1 } else { -1 }, None),
            _ => (0, exact_value(n)),
        };
        let (ia, va) = key(a);
        let (ib, vb) = key(b);
        ia.cmp(&ib).then_with(|| va.cmp(&vb))
    });
}

fn same_value_other_rep(rng: &mut Rng, a: &Number) -> Number {
    use num::ToPrimitive;
    let v = match exact_value(a) {
        Some(v) => v,
        None => return a.clone(),
    };
    let mut reps = vec![a.clone()];
    if v.is_integer() {
        reps.extend(int_reps(&v.to_integer()));
    }
    if let Some(f) = a.to_f64() {
        if f.is_finite() && exact_value(&Number::Float(f)) == Some(v.clone()) {
            reps.push(Number::Float(f));
        }
    }
    if let (Some(n), Some(d)) = (v.numer().to_i32(), v.denom().to_i32()) {
        reps.push(Number::Rational(Rational32::new_raw(n, d)));
    }
    rng.pick(&reps).clone()
}

fn run_request(toks: &[&str], scm: &mut Scm) -> String {
    match toks {
        ["num", "pow", a, e] => match (dec(a), e.parse::<u32>()) {
            (Some(a), Ok(e)) => run_pow(&a, e),
            _ => "bad-request".into(),
        },
        ["num", op, a] => match dec(a) {
            Some(a) => run_num(op, &a, None),
            None => "bad-request".into(),
        },
        ["num", op, a, b] => match (dec(a), dec(b)) {
            (Some(a), Some(b)) => run_num(op, &a, Some(&b)),
            _ => "bad-request".into(),
        },
        ["scm", p, rest @ ..] => {
            let args: Option<Vec<Number>> = rest.iter().map(|w| dec(w)).collect();
            match args {
                Some(args) => scm.call(p, &args),
                None => "bad-request".into(),
            }
        }
        _ => "bad-request".into(),
    }
}
