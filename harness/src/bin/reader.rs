//! Correspondence generators for the reader side: lex::scan, syntax::ReplHighlighter.
//! Output: one line per case, `request \t impl-response [\t spec-request]`.
use marwood::lex::{self, TokenType};
use marwood::syntax::ReplHighlighter;
use mwv::rng::Rng;
use mwv::wire::*;
use std::io::Write;

#[path = "../reader_parse.rs"]
mod rp;
use rp::*;
#[path = "../reader_num.rs"]
mod rn;

fn ty_name(t: &TokenType) -> &'static str {
    match t {
        TokenType::Char => "Char",
        TokenType::Dot => "Dot",
        TokenType::False => "False",
        TokenType::LeftParen => "LeftParen",
        TokenType::Number => "Number",
        TokenType::NumberPrefix => "NumberPrefix",
        TokenType::Quasiquote => "Quasiquote",
        TokenType::RightParen => "RightParen",
        TokenType::SingleQuote => "SingleQuote",
        TokenType::String => "String",
        TokenType::Symbol => "Symbol",
        TokenType::True => "True",
        TokenType::Unquote => "Unquote",
        TokenType::WhiteSpace => "WhiteSpace",
        TokenType::HashParen => "HashParen",
    }
}

fn impl_scan(text: &str) -> String {
    let t = text.to_string();
    match catch(move || lex::scan(&t)) {
        Err(m) => format!("panic {}", m.replace(['\n', '\t'], " ")),
        Ok(Ok(ts)) => {
            let v: Vec<String> = ts
                .iter()
                .map(|t| format!("{}:{}:{}", t.span.0, t.span.1, ty_name(&t.token_type)))
                .collect();
            format!("ok {}", v.join(" "))
        }
        Ok(Err(lex::Error::Incomplete)) => "err Incomplete".into(),
        Ok(Err(lex::Error::UnexpectedToken(c))) => format!("err UnexpectedToken:{}", c as u32),
        Ok(Err(lex::Error::UnexpectedCharacterFollowing(a, b))) => {
            format!("err UnexpectedFollowing:{}:{}", enc_text(&a), enc_text(&b))
        }
    }
}

fn impl_highlight_all(text: &str, maxc: usize) -> String {
    let mut out = vec![];
    for i in 0..=maxc {
        let t = text.to_string();
        let h = catch(move || ReplHighlighter::new().highlight(&t, i).to_string());
        let t = text.to_string();
        let c = catch(move || ReplHighlighter::new().highlight_check(&t, i));
        let hs = match h {
            Err(_) => "PANIC".to_string(),
            Ok(s) => {
                if s == text {
                    "=".to_string()
                } else {
                    enc_text(&s)
                }
            }
        };
        let cs = match c {
            Err(_) => "PANIC",
            Ok(true) => "1",
            Ok(false) => "0",
        };
        out.push(format!("{}/{}", hs, cs));
    }
    format!("ok {}", out.join(" "))
}

const ALPHABET: [&str; 11] = ["(", ")", "[", "]", "#(", "\"", ";", "\n", " ", "a", "#\\("];

fn random_text(rng: &mut Rng, maxlen: usize) -> String {
    // token soup biased to delimiters, with multi-byte characters
    const PIECES: [&str; 40] = [
        "(", ")", "[", "]", "{", "}", "#(", "\"", ";", "\n", " ", "a", "#\\(", "#\\)", "'", "`",
        ",", ".", "..", "#t", "#f", "#x", "#e", "12", "-", "+", "1/2", ".5", "\\", "\"a\\\"b\"",
        "λ", "é", "日本", "😀", "\u{85}", "\u{a0}", "#\\λ", "#\\space", "\t", "|",
    ];
    // fix c1c04ca: the sign of an exponent belongs to the number token
    const EXP_PIECES: [&str; 24] = [
        "1e-7", "2.5E+3", ".5e-1", "-1e+2", "1e-", "1e-x", "1ee-7", ".e-1", ".5e-x", "1e-7x", "#x1e-7",
        "#d1e-7", "#e1e-2", "1.e-2", "1e--7", "1e+-7", "+1e-7", "e", "E", "e-", "E+", "1e", ".5E", "7",
    ];
    let n = rng.below(maxlen as u64 + 1);
    let mut s = String::new();
    for _ in 0..n {
        if rng.chance(1, 12) {
            // arbitrary scalar value
            let c = loop {
                let v = match rng.below(4) {
                    0 => rng.below(0x80),
                    1 => rng.below(0x300),
                    2 => rng.below(0x10000),
                    _ => rng.below(0x110000),
                } as u32;
                if let Some(c) = char::from_u32(v) {
                    break c;
                }
            };
            s.push(c);
        } else if rng.chance(1, 7) {
            s.push_str(EXP_PIECES[rng.below(EXP_PIECES.len() as u64) as usize]);
        } else {
            s.push_str(PIECES[rng.below(PIECES.len() as u64) as usize]);
        }
    }
    s
}

fn main() {
    silence_panics();
    let args: Vec<String> = std::env::args().collect();
    let cmd = args.get(1).map(|s| s.as_str()).unwrap_or("");
    let seed: u64 = std::env::var("VERIF_SEED").ok().and_then(|s| s.parse().ok()).unwrap_or(1);
    let out = std::io::stdout();
    let mut out = std::io::BufWriter::new(out.lock());
    match cmd {
        // every scalar value up to 0x2FF alone and after 'a' / '1' / '.', exposing the character
        // classes of the scanner; plus a sample of higher scalar values
        "scan-classes" => {
            let mut rng = Rng::new(seed);
            let mut cps: Vec<u32> = (0..0x300).collect();
            for _ in 0..2000 {
                cps.push(rng.below(0x110000) as u32);
            }
            for cp in cps {
                if let Some(c) = char::from_u32(cp) {
                    for pre in ["", "a", "1", ".", "#\\", "#\\a", "\"", ";"] {
                        let t = format!("{}{}", pre, c);
                        writeln!(out, "scan {}\t{}", enc_text(&t), impl_scan(&t)).unwrap();
                    }
                }
            }
        }
        "scan-rand" => {
            let n: usize = args[2].parse().unwrap();
            let mut rng = Rng::new(seed);
            for _ in 0..n {
                let t = random_text(&mut rng, 14);
                writeln!(out, "scan {}\t{}", enc_text(&t), impl_scan(&t)).unwrap();
            }
        }
        // fix c1c04ca, exhaustive grid: mantissa x marker x sign x digits x what follows, as scanner input
        // (`scan-exp`) and as reader input (`parse-exp`)
        "scan-exp" | "parse-exp" => {
            const MANT: [&str; 22] = ["1", "12", "1.", "1.5", ".5", ".", "-1", "+1", "-.5", "+1.5", "1.2.3", "..5", "",
                                      "-", "+", "1/2", "a", "1e", "#x1", "#e1.", "0", ".5."];
            const MARK: [&str; 4] = ["e", "E", "d", "ee"];
            const SIGN: [&str; 5] = ["-", "+", "", "--", "+-"];
            const DIG: [&str; 4] = ["", "7", "07", "123"];
            const TRAIL: [&str; 12] = ["", " ", ")", "x", ";c", ".5", "e-1", "-", "\"s\"", "'", "\n", "."];
            for m in MANT {
                for k in MARK {
                    for sg in SIGN {
                        for d in DIG {
                            for tr in TRAIL {
                                let t = format!("{}{}{}{}{}", m, k, sg, d, tr);
                                if cmd == "scan-exp" {
                                    writeln!(out, "scan {}\t{}", enc_text(&t), impl_scan(&t)).unwrap();
                                } else {
                                    writeln!(out, "parse-text {} {}\t{}", enc_text(&t), oracle_text(&t), impl_parse_text(&t))
                                        .unwrap();
                                }
                            }
                        }
                    }
                }
            }
        }
        // exhaustive: all strings of up to L alphabet symbols, every byte cursor 0..=len+2
        "hl-exh" => {
            let l: usize = args[2].parse().unwrap();
            let mut idx = vec![];
            loop {
                let t: String = idx.iter().map(|&i: &usize| ALPHABET[i]).collect();
                let maxc = t.len() + 2;
                let e = enc_text(&t);
                writeln!(
                    out,
                    "highlight-all {} {}\t{}\tspec-highlight-all {} {}",
                    e,
                    maxc,
                    impl_highlight_all(&t, maxc),
                    e,
                    maxc
                )
                .unwrap();
                // next string in length-then-lexicographic order
                let mut k = idx.len();
                loop {
                    if k == 0 {
                        idx = vec![0; idx.len() + 1];
                        break;
                    }
                    k -= 1;
                    if idx[k] + 1 < ALPHABET.len() {
                        idx[k] += 1;
                        for j in (k + 1)..idx.len() {
                            idx[j] = 0;
                        }
                        break;
                    }
                }
                if idx.len() > l {
                    break;
                }
            }
        }
        "hl-rand" => {
            let n: usize = args[2].parse().unwrap();
            let mut rng = Rng::new(seed ^ 0x20);
            for _ in 0..n {
                let t = random_text(&mut rng, 24);
                let maxc = t.len() + 2;
                let e = enc_text(&t);
                writeln!(
                    out,
                    "highlight-all {} {}\t{}\tspec-highlight-all {} {}",
                    e,
                    maxc,
                    impl_highlight_all(&t, maxc),
                    e,
                    maxc
                )
                .unwrap();
            }
        }
        // ---- C11: datum parser, remaining text, datum-by-datum iteration
        "parse-gen" | "parse-soup" | "parse-mut" | "readall-gen" | "readall-mut" | "readall-soup" => {
            let n: usize = args[2].parse().unwrap();
            let mut rng = Rng::new(seed ^ 0x11);
            for _ in 0..n {
                let t = match cmd {
                    "parse-gen" | "readall-gen" => gen_program(&mut rng, 4, 4),
                    "parse-soup" | "readall-soup" => random_text(&mut rng, 18),
                    _ => {
                        let p = gen_program(&mut rng, 3, 3);
                        mutate(&mut rng, &p)
                    }
                };
                if cmd.starts_with("parse") {
                    writeln!(out, "parse-text {} {}\t{}", enc_text(&t), oracle_text(&t), impl_parse_text(&t)).unwrap();
                } else {
                    writeln!(out, "read-all {} {}\t{}", enc_text(&t), oracle_read_all(&t), impl_read_all(&t)).unwrap();
                }
            }
        }
        // every token-boundary prefix of generated datum sequences (both ends of every token)
        "parse-cut" => {
            let n: usize = args[2].parse().unwrap();
            let mut rng = Rng::new(seed ^ 0x12);
            for _ in 0..n {
                let t = gen_program(&mut rng, 2, 4);
                let tokens = match lex::scan(&t) {
                    Ok(ts) => ts,
                    Err(_) => continue,
                };
                let mut cuts: Vec<usize> = vec![];
                for tok in &tokens {
                    cuts.push(tok.span.0);
                    cuts.push(tok.span.1);
                }
                cuts.dedup();
                for c in cuts {
                    let p = &t[..c];
                    writeln!(out, "parse-text {} {}\t{}", enc_text(p), oracle_text(p), impl_parse_text(p)).unwrap();
                }
            }
        }
        // well-formed data: every token-boundary prefix against the token-level specification
        "cut-wf" => {
            let n: usize = args[2].parse().unwrap();
            let mut rng = Rng::new(seed ^ 0x13);
            for _ in 0..n {
                let t = gen_wf_program(&mut rng, 2, 4);
                let tokens = match lex::scan(&t) {
                    Ok(ts) => ts,
                    Err(_) => continue,
                };
                let mut cuts: Vec<usize> = vec![t.len()];
                for tok in &tokens {
                    cuts.push(tok.span.0);
                    cuts.push(tok.span.1);
                }
                cuts.sort();
                cuts.dedup();
                for c in cuts {
                    let p = &t[..c];
                    let e = enc_text(p);
                    writeln!(out, "parse-text {} {}\t{}\tspec-first-datum {}", e, oracle_text(p), impl_parse_text(p), e).unwrap();
                }
            }
        }
        "readall-wf" => {
            let n: usize = args[2].parse().unwrap();
            let mut rng = Rng::new(seed ^ 0x14);
            for _ in 0..n {
                let t = gen_wf_program(&mut rng, 5, 3);
                let e = enc_text(&t);
                writeln!(out, "read-all {} {}\t{}\tspec-count-data {}", e, oracle_read_all(&t), impl_read_all(&t), e).unwrap();
            }
        }
        // ---- C16
        "c16-rt" => {
            let n: usize = args[2].parse().unwrap();
            let mut rng = Rng::new(seed ^ 0x16);
            let mut vm = marwood::vm::Vm::new();
            for _ in 0..n {
                let z = rn::random_number(&mut rng);
                let exact = !matches!(z, marwood::number::Number::Float(_));
                let radix = if exact { *rng.pick(&[2u32, 8, 10, 16]) } else { 10 };
                writeln!(out, "{}", rn::roundtrip_line(&mut vm, &z, radix)).unwrap();
            }
        }
        "c16-proc" => {
            let n: usize = args[2].parse().unwrap();
            let mut rng = Rng::new(seed ^ 0x17);
            let mut vm = marwood::vm::Vm::new();
            for _ in 0..n {
                writeln!(out, "{}", rn::proc_line(&mut vm, &mut rng)).unwrap();
            }
        }
        "c16-lit" => {
            let n: usize = args[2].parse().unwrap();
            let mut rng = Rng::new(seed ^ 0x18);
            let mut vm = marwood::vm::Vm::new();
            for _ in 0..n {
                let z = rn::random_number(&mut rng);
                let exact = !matches!(z, marwood::number::Number::Float(_));
                let radix = if exact { *rng.pick(&[2u32, 8, 10, 16]) } else { 10 };
                if let Some(l) = rn::literal_line(&mut vm, &z, radix) {
                    writeln!(out, "{}", l).unwrap();
                }
            }
        }
        // decimal spellings with a signed exponent (and near misses) as unprefixed source literals
        "c16-src" => {
            let n: usize = args[2].parse().unwrap();
            let mut rng = Rng::new(seed ^ 0x19);
            let mut vm = marwood::vm::Vm::new();
            for s in SIGNED_EXP_FAMILY.iter().filter(|s| !s.contains(';')) {
                writeln!(out, "{}", rn::source_line(&mut vm, s)).unwrap();
            }
            for _ in 0..n {
                let s = rn::gen_source_spelling(&mut vm, &mut rng);
                writeln!(out, "{}", rn::source_line(&mut vm, &s)).unwrap();
            }
        }
        _ => {
            eprintln!("usage: reader scan-classes | scan-rand N | hl-exh L | hl-rand N");
            std::process::exit(2);
        }
    }
}
