//! Lock-step correspondence "concrete-heap-step" (C03 / T03.5): the real VM executes ONE instruction from a
//! state whose COMPLETE heap (with payloads) is shipped to the Lean driver, which runs
//! `Marwood.Vm.step (Marwood.Vm.Concrete.concreteOps ext)` (lean/Marwood/Vm/ConcreteHeap.lean) on it and must
//! render exactly the same post-state. Decoder / renderer: lean/Driver/SimStep.lean.
//!
//! usage: simstep run <programs> <lines-per-program>        (seed from VERIF_SEED)
//!        simstep probe       six operands that index outside their structure (Rust panics, the model's total
//!                            signatures do not): NOT part of the stream, for the report only
//!
//! ## Wire format (all tokens separated by one space; no token contains space, comma or tab)
//!
//! cell   := T F N U V | acc | op<name> | O<tag> | Q<a>:<d> | C<l>:<e> | L0 | K0 | X<id> | S<n> | D<e>:<n> | A<n>
//!         | B<n> | R<int> | E<n> | G<n> | I<l>:<o> | P<a>            (numbers decimal; usize::MAX is `max`)
//!   tag  := n<hex of the Debug rendering of the number> | c<hex code point> | s<Rc pointer hex> | m<Rc pointer hex>
//!         | yx<hex of the UTF-8 bytes of the symbol name>   (first character = kind, as in ConcreteHeap.lean; the
//!           symbol-table key of a symbol is the tag without the leading `y`, i.e. `x<hex>`)
//!         | e | v    (an INLINE `LexicalEnv(Rc)` / `Vector(Rc)` in a register, stack slot, environment slot, vector
//!           element or global slot: rendered as the model's address-free representative `repr`; likewise an inline
//!           `Lambda(Rc)` is `L0`, an inline `Continuation(Rc)` is `K0`. Each such rendering is counted: bucket
//!           "inline-rc" of the info token)
//!   X<id>: id = (Rc pointer of the BuiltInProc) * 4 + kind, kind 0 generic 1 apply 2 eval 3 callcc; the driver's
//!          `ExtOps.builtinKind` is `id % 4`
//! ccell  := c cell | e <n> cell*n | v <n> cell*n
//!         | l <nbc> <nargs> <nenv> cell*nbc cell*nargs (cell src)*nenv        src := a<n> | fa<n> | fe<n> | g | i
//!         | k <sp> <ep> <ipl> <ipo> <bp> <n> cell*n       (all of the continuation stack's `verif_slots()`)
//! gc     := f | a | u
//! regs   := R <sp> <bp> <ep> <ipl> <ipo> <acc:cell> <cap> <n> cell*n    (slots [0,n); slots [n,cap) are Undefined)
//! heap   := H <chunk> <capacity> <m> (<addr> gc ccell)*m        (cells that are Free and Undefined are omitted)
//!           F <k> run*k      free list, NEXT ADDRESS FIRST (= Rust's `free_list` Vec reversed);
//!                            run := <a> | <a>+<n> (a, a+1, …, n addresses) | <a>-<n> (a, a-1, …, n addresses)
//!           T <n> (<name> <addr>)*n      symbol table sorted by name
//!           GS <n> addr*n                keys of `globenv.bindings`, ascending
//!           GV <n> cell*n                `globenv.slots`
//! delta  := D <capacity'> <m> (<addr> gc ccell)*m       cells whose gc state or content differs, ascending
//!           F <keep> <n> addr*n          new free list = these n addresses (next first, uncompressed) followed by the
//!                                        last `keep` entries of the old one (keep = longest common tail)
//!           T <r> name*r <a> (<name> <addr>)*a    removed names; added / re-bound names; both sorted by name
//!           GS <n> addr*n                new binding keys, ascending
//!           GV <len'> <m> (<idx> cell)*m changed or new global slots, ascending
//! ext    := X none | X ok <acc':cell> delta | X err <class> | X panic
//!           recorded outcome of the real step for the three non-modelled parameters (`ExtOps`): a generic builtin
//!           (`builtinEval`: result = final accumulator, heap effect = delta incl. the trailing `maybe_put`),
//!           `eval`'s compiler (`compileEval`) and VPUSH (`vectorPush`). `X none` on core steps.
//! request  := simstep <info> regs heap ext
//!   info   := i:<opcode>:<kind>:<core|ext|alias>:<scr|lin>:<inline-rc count>   (ignored by the driver; scr = a forced
//!             collection ran earlier in this VM, so the free list is no longer the allocator's initial order;
//!             alias = CONS / VARARG whose operand is an inline `Rc` payload: `heap.put` then creates a second heap
//!             cell sharing the `Rc`, which the by-value model cannot express — the Python side compares only
//!             registers, stack and the number of changed cells for these steps and counts them separately)
//! response := ok <sp> <bp> <ep> <ipl> <ipo> <acc:cell> <halt 0|1> <cap> <n> cell*n delta
//!             (n = number of stack slots up to the last non-Undefined one: the WHOLE stack is compared, not only
//!              [0..=sp]) | err <class as trace.rs err_name> | panic
#[path = "../gc_programs.rs"]
mod programs;

use marwood::error::Error;
use marwood::parse;
use marwood::vm::environment::BindingSource;
use marwood::vm::gc::State;
use marwood::vm::opcode::OpCode;
use marwood::vm::vcell::VCell;
use marwood::vm::Vm;
use mwv::progs::Gen;
use mwv::rng::Rng;
use mwv::session::new_vm;
use mwv::trace::{err_name, op_name};
use mwv::wire::{catch, silence_panics};
use std::collections::{BTreeMap, HashMap};
use std::io::Write;
use std::rc::Rc;

// ------------------------------------------------------------------ rendering

fn usz(n: usize) -> String {
    if n == usize::MAX {
        "max".into()
    } else {
        n.to_string()
    }
}

fn hexs(s: &str) -> String {
    s.bytes().map(|b| format!("{:02x}", b)).collect()
}

fn builtin_kind(desc: &str) -> (&'static str, usize) {
    match desc {
        "apply" => ("apply", 1),
        "eval" => ("eval", 2),
        "call/cc" | "call-with-current-continuation" => ("callcc", 3),
        _ => ("generic", 0),
    }
}

fn tok(v: &VCell, inl: &mut usize) -> String {
    match v {
        VCell::Bool(true) => "T".into(),
        VCell::Bool(false) => "F".into(),
        VCell::Nil => "N".into(),
        VCell::Undefined => "U".into(),
        VCell::Void => "V".into(),
        VCell::Char(c) => format!("Oc{:x}", *c as u32),
        VCell::Number(n) => format!("On{}", hexs(&format!("{:?}", n))),
        VCell::Symbol(s) => format!("Oyx{}", hexs(s)),
        VCell::String(s) => format!("Os{:x}", Rc::as_ptr(s) as usize),
        VCell::Macro(m) => format!("Om{:x}", Rc::as_ptr(m) as usize),
        VCell::Vector(_) => {
            *inl += 1;
            "Ov".into()
        }
        VCell::LexicalEnv(_) => {
            *inl += 1;
            "Oe".into()
        }
        VCell::Lambda(_) => {
            *inl += 1;
            "L0".into()
        }
        VCell::Continuation(_) => {
            *inl += 1;
            "K0".into()
        }
        VCell::Pair(a, d) => format!("Q{}:{}", usz(*a), usz(*d)),
        VCell::Closure(l, e) => format!("C{}:{}", usz(*l), usz(*e)),
        VCell::BuiltInProc(b) => format!("X{}", (Rc::as_ptr(b) as usize) * 4 + builtin_kind(b.desc()).1),
        VCell::LexicalEnvSlot(n) => format!("S{}", n),
        VCell::LexicalEnvPtr(e, n) => format!("D{}:{}", usz(*e), usz(*n)),
        VCell::Acc => "acc".into(),
        VCell::ArgumentCount(n) => format!("A{}", n),
        VCell::BasePointer(n) => format!("B{}", n),
        VCell::BasePointerOffset(i) => format!("R{}", i),
        VCell::EnvironmentPointer(e) => format!("E{}", usz(*e)),
        VCell::GlobalEnvSlot(n) => format!("G{}", n),
        VCell::InstructionPointer(l, o) => format!("I{}:{}", usz(*l), usz(*o)),
        VCell::OpCode(op) => format!("op{}", op_name(op)),
        VCell::Ptr(a) => format!("P{}", usz(*a)),
    }
}

fn src_tok(s: &BindingSource) -> String {
    match s {
        BindingSource::Global => "g".into(),
        BindingSource::Argument(n) => format!("a{}", n),
        BindingSource::IofArgument(n) => format!("fa{}", n),
        BindingSource::IofEnvironment(n) => format!("fe{}", n),
        BindingSource::InternalDefinition => "i".into(),
    }
}

/// content of a heap cell (payloads by value)
fn ccell(v: &VCell, inl: &mut usize) -> String {
    let mut s = String::new();
    match v {
        VCell::LexicalEnv(e) => {
            let n = e.slot_len();
            s.push_str(&format!("e {}", n));
            for i in 0..n {
                s.push(' ');
                s.push_str(&tok(&e.get(i), inl));
            }
        }
        VCell::Vector(vec) => {
            let n = vec.len();
            s.push_str(&format!("v {}", n));
            for i in 0..n {
                s.push(' ');
                s.push_str(&tok(&vec.get(i).unwrap(), inl));
            }
        }
        VCell::Lambda(l) => {
            let em = l.envmap.get_map();
            s.push_str(&format!("l {} {} {}", l.bc.len(), l.args.len(), em.len()));
            for c in &l.bc {
                s.push(' ');
                s.push_str(&tok(c, inl));
            }
            for c in &l.args {
                s.push(' ');
                s.push_str(&tok(c, inl));
            }
            for (sym, src) in em {
                s.push(' ');
                s.push_str(&tok(sym, inl));
                s.push(' ');
                s.push_str(&src_tok(src));
            }
        }
        VCell::Continuation(k) => {
            let slots = k.stack().verif_slots();
            s.push_str(&format!(
                "k {} {} {} {} {} {}",
                k.stack().get_sp(),
                usz(k.ep()),
                usz(k.ip().0),
                usz(k.ip().1),
                k.bp(),
                slots.len()
            ));
            for c in slots {
                s.push(' ');
                s.push_str(&tok(c, inl));
            }
        }
        other => {
            s.push_str("c ");
            s.push_str(&tok(other, inl));
        }
    }
    s
}

const DEFAULT_CELL: &str = "f c U";

struct Snap {
    chunk: usize,
    /// `<gc> <ccell>` per address
    cells: Vec<String>,
    /// Vec order (last = next address)
    free: Vec<usize>,
    sym: BTreeMap<String, usize>,
    gsyms: Vec<usize>,
    gvals: Vec<String>,
    sp: usize,
    bp: usize,
    ep: usize,
    ip: (usize, usize),
    acc: String,
    slots: Vec<String>,
    /// inline Rc payloads met in registers / stack / slots / elements
    inl: usize,
}

fn snap(vm: &Vm) -> Snap {
    let heap = vm.verif_heap();
    let mut inl = 0usize;
    let mut cells = Vec::with_capacity(heap.verif_cells().len());
    for (i, c) in heap.verif_cells().iter().enumerate() {
        let st = heap.verif_gc_state(i);
        if st == Some(State::Free) && matches!(c, VCell::Undefined) {
            cells.push(DEFAULT_CELL.to_string());
            continue;
        }
        let g = match st {
            Some(State::Free) => 'f',
            Some(State::Allocated) => 'a',
            Some(State::Used) => 'u',
            None => '?',
        };
        cells.push(format!("{} {}", g, ccell(c, &mut inl)));
    }
    let sym: BTreeMap<String, usize> =
        heap.verif_symbol_table().iter().map(|(k, v)| (format!("x{}", hexs(k)), *v)).collect();
    let mut gsyms: Vec<usize> = vm.verif_globenv().verif_bindings().iter().map(|(k, _)| *k).collect();
    gsyms.sort();
    let gvals: Vec<String> = vm.verif_globenv().iter_slots().map(|c| tok(c, &mut inl)).collect();
    let (acc, ep, ip, bp) = vm.verif_regs();
    let st = vm.verif_stack();
    let slots: Vec<String> = st.verif_slots().iter().map(|c| tok(c, &mut inl)).collect();
    Snap {
        chunk: heap.verif_chunk_size(),
        cells,
        free: heap.verif_free_list().to_vec(),
        sym,
        gsyms,
        gvals,
        sp: st.get_sp(),
        bp,
        ep,
        ip,
        acc: tok(acc, &mut inl),
        slots,
        inl,
    }
}

/// number of slots up to the last non-Undefined one
fn trimmed(slots: &[String]) -> usize {
    let mut n = slots.len();
    while n > 0 && slots[n - 1] == "U" {
        n -= 1;
    }
    n
}

/// run-length tokens of a list of addresses
fn enc_runs(l: &[usize]) -> Vec<String> {
    let mut out = vec![];
    let mut i = 0;
    while i < l.len() {
        let mut j = i;
        while j + 1 < l.len() && l[j + 1] == l[j] + 1 {
            j += 1;
        }
        if j > i {
            out.push(format!("{}+{}", l[i], j - i + 1));
            i = j + 1;
            continue;
        }
        while j + 1 < l.len() && l[j + 1] + 1 == l[j] {
            j += 1;
        }
        if j > i {
            out.push(format!("{}-{}", l[i], j - i + 1));
            i = j + 1;
            continue;
        }
        out.push(format!("{}", l[i]));
        i += 1;
    }
    out
}

fn enc_regs(s: &Snap) -> String {
    let n = trimmed(&s.slots);
    let mut out = format!(
        "R {} {} {} {} {} {} {} {}",
        s.sp,
        s.bp,
        usz(s.ep),
        usz(s.ip.0),
        usz(s.ip.1),
        s.acc,
        s.slots.len(),
        n
    );
    for c in &s.slots[..n] {
        out.push(' ');
        out.push_str(c);
    }
    out
}

fn enc_heap(s: &Snap) -> String {
    let mut body = String::new();
    let mut m = 0;
    for (i, c) in s.cells.iter().enumerate() {
        if c == DEFAULT_CELL {
            continue;
        }
        m += 1;
        body.push_str(&format!(" {} {}", i, c));
    }
    let mut out = format!("H {} {} {}{}", s.chunk, s.cells.len(), m, body);
    let head_first: Vec<usize> = s.free.iter().rev().copied().collect();
    let runs = enc_runs(&head_first);
    out.push_str(&format!(" F {}", runs.len()));
    for r in runs {
        out.push(' ');
        out.push_str(&r);
    }
    out.push_str(&format!(" T {}", s.sym.len()));
    for (k, v) in &s.sym {
        out.push_str(&format!(" {} {}", k, v));
    }
    out.push_str(&format!(" GS {}", s.gsyms.len()));
    for k in &s.gsyms {
        out.push_str(&format!(" {}", k));
    }
    out.push_str(&format!(" GV {}", s.gvals.len()));
    for v in &s.gvals {
        out.push(' ');
        out.push_str(v);
    }
    out
}

fn enc_delta(pre: &Snap, post: &Snap) -> String {
    let mut body = String::new();
    let mut m = 0;
    for (i, c) in post.cells.iter().enumerate() {
        let old = pre.cells.get(i).map(|x| x.as_str()).unwrap_or(DEFAULT_CELL);
        if old != c {
            m += 1;
            body.push_str(&format!(" {} {}", i, c));
        }
    }
    let mut out = format!("D {} {}{}", post.cells.len(), m, body);
    let mut keep = 0;
    while keep < pre.free.len() && keep < post.free.len() && pre.free[keep] == post.free[keep] {
        keep += 1;
    }
    let newpart: Vec<usize> = post.free[keep..].iter().rev().copied().collect();
    out.push_str(&format!(" F {} {}", keep, newpart.len()));
    for a in newpart {
        out.push_str(&format!(" {}", a));
    }
    let removed: Vec<&String> = pre.sym.keys().filter(|k| !post.sym.contains_key(*k)).collect();
    out.push_str(&format!(" T {}", removed.len()));
    for k in removed {
        out.push(' ');
        out.push_str(k);
    }
    let added: Vec<(&String, &usize)> = post.sym.iter().filter(|(k, v)| pre.sym.get(*k) != Some(*v)).collect();
    out.push_str(&format!(" {}", added.len()));
    for (k, v) in added {
        out.push_str(&format!(" {} {}", k, v));
    }
    let newsyms: Vec<usize> = post.gsyms.iter().filter(|k| pre.gsyms.binary_search(k).is_err()).copied().collect();
    out.push_str(&format!(" GS {}", newsyms.len()));
    for k in newsyms {
        out.push_str(&format!(" {}", k));
    }
    let mut gbody = String::new();
    let mut gm = 0;
    for (i, v) in post.gvals.iter().enumerate() {
        if pre.gvals.get(i) != Some(v) {
            gm += 1;
            gbody.push_str(&format!(" {} {}", i, v));
        }
    }
    out.push_str(&format!(" GV {} {}{}", post.gvals.len(), gm, gbody));
    out
}

fn enc_ok(pre: &Snap, post: &Snap, halt: bool) -> String {
    let n = trimmed(&post.slots);
    let mut out = format!(
        "ok {} {} {} {} {} {} {} {} {}",
        post.sp,
        post.bp,
        usz(post.ep),
        usz(post.ip.0),
        usz(post.ip.1),
        post.acc,
        if halt { 1 } else { 0 },
        post.slots.len(),
        n
    );
    for c in &post.slots[..n] {
        out.push(' ');
        out.push_str(c);
    }
    out.push(' ');
    out.push_str(&enc_delta(pre, post));
    out
}

// ------------------------------------------------------------------ classification of the next instruction

#[derive(Clone, Debug)]
struct Class {
    op: &'static str,
    kind: String,
    ext: bool,
    /// CONS / VARARG about to `heap.put` an INLINE `Rc` payload (e.g. the `Vector(Rc)` VPUSH left in `acc`, pushed
    /// as an operand): the real heap gets a second cell sharing that `Rc`, the model (payloads stored by value,
    /// inline values rendered as their representative) stores the representative. Counted as bucket "alias"; only
    /// registers, stack and the number of changed cells are compared for these steps.
    alias: bool,
}

fn is_inline_rc(v: &VCell) -> bool {
    matches!(v, VCell::Vector(_) | VCell::LexicalEnv(_) | VCell::Lambda(_) | VCell::Continuation(_))
}

impl Class {
    fn key(&self) -> String {
        format!("{}:{}", self.op, self.kind)
    }
}

fn opnd_kind(v: Option<&VCell>) -> &'static str {
    match v {
        Some(VCell::Acc) => "acc",
        Some(VCell::Ptr(_)) => "ptr",
        Some(VCell::BasePointerOffset(_)) => "bpo",
        Some(VCell::GlobalEnvSlot(_)) => "glob",
        Some(VCell::LexicalEnvSlot(_)) => "lex",
        Some(_) => "imm",
        None => "none",
    }
}

fn classify(vm: &Vm) -> Option<Class> {
    let (acc, ep, ip, bp) = vm.verif_regs();
    let cells = vm.verif_heap().verif_cells();
    let lambda = match cells.get(ip.0) {
        Some(VCell::Lambda(l)) => l.clone(),
        _ => return None,
    };
    let op = match lambda.bc.get(ip.1) {
        Some(VCell::OpCode(op)) => op.clone(),
        _ => return None,
    };
    let st = vm.verif_stack();
    let sp = st.get_sp();
    let slots = st.verif_slots();
    let grow = if sp + 1 >= slots.len() { "+grow" } else { "" };
    let accv = match acc {
        VCell::Ptr(p) => cells.get(*p).cloned().unwrap_or(VCell::Undefined),
        other => other.clone(),
    };
    // a lexical slot that is itself a pointer into another environment
    let lex_kind = |n: usize| -> &'static str {
        match cells.get(ep) {
            Some(VCell::LexicalEnv(e)) if n < e.slot_len() => match e.get(n) {
                VCell::LexicalEnvPtr(_, _) => "lexptr",
                _ => "lex",
            },
            _ => "lexbad",
        }
    };
    let ok = |v: Option<&VCell>| -> String {
        match v {
            Some(VCell::LexicalEnvSlot(n)) => lex_kind(*n).to_string(),
            other => opnd_kind(other).to_string(),
        }
    };
    let mut ext = false;
    let mut alias = false;
    let kind: String = match op {
        OpCode::CallAcc | OpCode::TCallAcc | OpCode::Enter => {
            let callee = match &accv {
                VCell::Closure(_, _) => "closure".to_string(),
                VCell::Lambda(_) => "lambda".to_string(),
                VCell::BuiltInProc(b) => {
                    let k = builtin_kind(b.desc()).0;
                    if (k == "generic" || k == "eval") && !matches!(op, OpCode::Enter) {
                        ext = true;
                    }
                    format!("builtin-{}", k)
                }
                VCell::Continuation(_) => "continuation".to_string(),
                _ => "other".to_string(),
            };
            let mut k = callee;
            if matches!(op, OpCode::TCallAcc) && matches!(accv, VCell::Closure(_, _) | VCell::Lambda(_)) {
                let a = slots.get(sp);
                let f = slots.get(bp + 1);
                k.push_str(if a == f { "/same-argc" } else { "/diff-argc" });
            }
            if matches!(op, OpCode::CallAcc) && matches!(accv, VCell::Closure(_, _) | VCell::Lambda(_)) {
                if sp + 2 >= slots.len() {
                    k.push_str("+grow");
                }
            }
            k
        }
        OpCode::Mov => format!("{}>{}", ok(lambda.bc.get(ip.1 + 1)), ok(lambda.bc.get(ip.1 + 2))),
        OpCode::MovImmediate => format!("imm>{}", ok(lambda.bc.get(ip.1 + 2))),
        OpCode::Push => format!("{}{}", ok(lambda.bc.get(ip.1 + 1)), grow),
        OpCode::PushImmediate | OpCode::PushAcc => grow.trim_start_matches('+').to_string(),
        OpCode::Cons => {
            alias = (0..2).any(|i| sp >= i && slots.get(sp - i).map(is_inline_rc).unwrap_or(false));
            if alias { "inline-operand".to_string() } else { String::new() }
        }
        OpCode::VarArg => {
            let req = lambda.args.len().saturating_sub(1);
            if let Some(VCell::ArgumentCount(n)) = sp.checked_sub(2).and_then(|i| slots.get(i)) {
                // the rest arguments lie below argc: slots [sp-2-(n-req), sp-2)
                let rest = n.saturating_sub(req);
                alias = (0..rest).any(|i| sp >= 3 + i && slots.get(sp - 3 - i).map(is_inline_rc).unwrap_or(false));
            }
            match sp.checked_sub(2).and_then(|i| slots.get(i)) {
                Some(VCell::ArgumentCount(n)) if *n < req => "too-few".to_string(),
                Some(VCell::ArgumentCount(n)) if *n == req + 1 => "one-rest".to_string(),
                Some(VCell::ArgumentCount(n)) if *n == req => "no-rest".to_string(),
                Some(VCell::ArgumentCount(_)) => "many-rest".to_string(),
                _ => "bad".to_string(),
            }
        }
        OpCode::Jnt => match &accv {
            VCell::Bool(false) => "taken".to_string(),
            _ => "fallthrough".to_string(),
        },
        OpCode::VPushAcc => {
            ext = true;
            String::new()
        }
        _ => String::new(),
    };
    let kind = if alias && !kind.ends_with("inline-operand") { format!("{}/inline-operand", kind) } else { kind };
    // an allocating instruction with (almost) no free cell left: `Heap::alloc` grows the heap inside the step
    let allocating = matches!(op, OpCode::Cons | OpCode::ClosureAcc | OpCode::VarArg)
        || (matches!(op, OpCode::Enter) && matches!(accv, VCell::Closure(_, _)))
        || kind.starts_with("builtin-callcc");
    let kind = if allocating && vm.verif_heap().verif_free_list().len() < 3 { format!("{}+heapgrow", kind) } else { kind };
    Some(Class { op: op_name(&op), kind, ext, alias })
}

// ------------------------------------------------------------------ programs

fn split_forms(text: &str) -> Vec<String> {
    let mut out = vec![];
    let mut rest: Option<&str> = Some(text);
    while let Some(t) = rest {
        if t.trim().is_empty() {
            break;
        }
        match parse::parse_text(t) {
            Ok((_, remaining)) => {
                let used = t.len() - remaining.map(|r| r.len()).unwrap_or(0);
                out.push(t[..used].trim().to_string());
                rest = remaining;
            }
            Err(_) => break,
        }
    }
    out
}

const FEATURE_PROGRAMS: usize = 22;

/// hand-written sessions, one per feature of the core instruction set (a failing form ends a session, so
/// every failure is the last form of its session)
fn feature_program(rng: &mut Rng, which: usize) -> String {
    let n = 3 + rng.below(6);
    let m = 1 + rng.below(5);
    match which % FEATURE_PROGRAMS {
        0 => format!(
            "(define (mk n) (define a (* n 2)) (define (inc! d) (set! a (+ a d)) a)
               (lambda (d) (inc! d) (set! n (+ n 1)) (list a n)))
             (define c (mk {n})) (c 1) (c {m}) (define c2 (mk {m})) (c2 1) (c 0)"
        ),
        1 => format!(
            "(define (va . xs) xs) (va) (va 1) (va 1 2 {n}) (va 'a \"s\" #\\c 1.5)
             (define (f a b . r) (list a b r)) (f 1 2) (f 1 2 3) (f 1 2 3 4 {m}) (apply f 1 2 '(3 4 5)) (f 1)"
        ),
        2 => format!(
            "(define k #f) (define cnt 0)
             (define r (+ {n} (call/cc (lambda (c) (set! k c) 1)))) r
             (if (< cnt 2) (begin (set! cnt (+ cnt 1)) (k (* 10 cnt))) 'done) r cnt
             (define (esc l) (call/cc (lambda (ret) (for-each (lambda (x) (if (> x {m}) (ret x))) l) #f))) (esc '(1 2 3 4 5 6 7 8))
             (define (tk v) (call/cc (lambda (q) (q v)))) (tk {n}) (+ 1 (call/cc (lambda (q) (+ 100 (q 1 2 {m})))))"
        ),
        3 => format!(
            "(define (loop i acc) (if (= i 0) acc (loop (- i 1) (+ acc i)))) (loop {n} 0)
             (define (f a) (g a 1)) (define (g a b) (if (> a 5) (list a b) (f (+ a b)))) (f 0)
             (define (h x) (car x)) (h '(1 2)) (define (t p) (apply p '(1 2))) (t +) (t list)
             (define (u) (call/cc (lambda (k) {m}))) (u) (define (e x) (eval x)) (e '(+ 1 {n}))
             (define (z . r) (if (null? r) 'end (apply z (cdr r)))) (z 1 2 3)"
        ),
        4 => format!(
            "(define x {n}) (define y '(p q)) `(1 ,x ,(+ x 1) (nested ,y) #(a ,x {m}) . tail) `#(1 ,x #(2 ,y)) `(a `(b ,(c ,x))) `(,x . ,y)"
        ),
        5 => format!(
            "(define (d n) (if (= n 0) 0 (+ 1 (d (- n 1))))) (d {}) (d {n})
             (define (dl n) (if (= n 0) '() (cons n (dl (- n 1))))) (length (dl {}))",
            60 + 20 * n,
            70 + 10 * m
        ),
        6 => "(5 3)".to_string(),
        7 => format!("(define (w a) (+ a {n})) (w 1) (undefined-variable-zz 1)"),
        8 => "((lambda (x y) x) 1)".to_string(),
        9 => "(define (w a) a) (call/cc 5)".to_string(),
        10 => "(define l (list 1 2)) (apply + 1)".to_string(),
        11 => "(call/cc (lambda (k) (k)))".to_string(),
        12 => format!(
            "(eval '(+ 1 {n})) (eval (list 'define 'zz {m})) zz (define ef (eval '(lambda (x . r) (cons x r)))) (ef 1 2 3)
             (eval '(let loop ((i 0) (acc '())) (if (< i {m}) (loop (+ i 1) (cons i acc)) acc))) (eval '(if))"
        ),
        13 => format!(
            "(define v (make-vector {n} 0)) (vector-set! v 1 (list 1 2)) (vector-ref v 1) (vector-fill! v 'z) (vector->list v)
             (define s (make-string {m} #\\a)) (string-set! s 0 #\\b) (string-append s \"xy\") (string->symbol \"fresh-sym-{n}\")
             (symbol->string 'abc) (list->vector (list 1 2 {m})) (vector-ref v 100)"
        ),
        14 => format!(
            "(define (outer a) (lambda (b) (lambda (c) (set! a (+ a 1)) (set! b (+ b c)) (list a b c))))
             (define o1 ((outer 1) 2)) (o1 {n}) (o1 {m}) (define o2 ((outer 10) 20)) (o2 1) (o1 0)
             (define (counter) (let ((n 0)) (lambda () (set! n (+ n 1)) n))) (define c1 (counter)) (c1) (c1)"
        ),
        15 => format!(
            "(define g1 {n}) (set! g1 (+ g1 1)) g1 (define (setg v) (set! g1 v) g1) (setg '(a b)) (setg \"str\") g1
             (define (id x) x) (id id) ((id id) {m}) (let ((p car)) (p '(1))) (let* ((a 1) (b (+ a 1))) (list a b))
             (letrec ((ev? (lambda (n) (if (= n 0) #t (od? (- n 1))))) (od? (lambda (n) (if (= n 0) #f (ev? (- n 1)))))) (ev? {n}))"
        ),
        16 => format!(
            "(define k2 #f) (define (mk y) (lambda () (+ y (call/cc (lambda (c) (set! k2 c) 1))))) ((mk {n}))
             (define n2 0) (if (< n2 2) (begin (set! n2 (+ n2 1)) (k2 (* 100 n2))) 'done) n2
             (define (deep n) (if (= n 0) (call/cc (lambda (c) (set! k2 c) 0)) (+ 1 (deep (- n 1))))) (deep {m})
             (define n3 0) (if (< n3 1) (begin (set! n3 (+ n3 1)) (k2 7)) 'done)"
        ),
        17 => "(define k #f) (+ 1 (call/cc (lambda (c) (set! k c) 1))) (define (tail-k) (k)) (tail-k)".to_string(),
        18 => format!(
            "(define (compose . fs) (if (null? fs) (lambda (x) x) (lambda (x) ((car fs) ((apply compose (cdr fs)) x)))))
             ((compose (lambda (x) (* x 2)) (lambda (x) (+ x {n}))) {m}) (map (lambda (x y) (cons x y)) '(1 2 3) '(a b c))
             (apply map list '((1 2) (3 4))) (apply apply (list + (list 1 2)))
             (apply call/cc (list (lambda (k) (k {n})))) (apply eval '((+ 1 2)))"
        ),
        19 => "(define (w a) a) (apply w '(1 2))".to_string(),
        20 => "(define (cyc) 'x) (apply car '(1 . 2))".to_string(),
        _ => format!(
            "(define-syntax swap! (syntax-rules () ((_ a b) (let ((tmp a)) (set! a b) (set! b tmp)))))
             (define p 1) (define q 2) (swap! p q) (list p q)
             (define (f) (define x {n}) (define y (+ x 1)) (swap! x y) (list x y)) (f)
             (define (w) (when (> {n} 1) 'a 'b)) (w) (do ((i 0 (+ i 1)) (acc '() (cons i acc))) ((= i {m}) acc))
             (case {m} ((1 2) 'low) ((3 4) 'mid) (else 'high)) (let loop ((i 0)) (if (< i 3) (loop (+ i 1)) i))"
        ),
    }
}

struct Program {
    label: String,
    forms: Vec<String>,
    gc_every: Option<u64>,
    /// hand-assembled bytecode (see `synthetic_code`) patched into the procedure `syn` before the LAST form
    patch: Option<usize>,
    /// (form index, cells to leave): after `prepare_eval` of that form the harness allocates garbage cells until
    /// only that many are left on the free list, so that the next allocations of the program grow the heap
    /// INSIDE an instruction; forced collections (if any) start only with the following form
    fill: Option<(usize, usize)>,
}

// ------------------------------------------------------------------ hand-assembled bytecode
//
// The compiler never emits PUSH, never addresses an argument through a BasePointerOffset operand (every
// formal is in the environment map) and never produces malformed code, so those paths of `run_one` are
// reached by overwriting the bytecode of a compiled procedure `(define (syn a b) …)` (its ENTER is kept, so
// the frame, `bp` and `ep` are the real ones) through `verif_heap_mut`.

const SYNTHETIC_PROGRAMS: usize = 14;

struct SynCtx {
    lam: usize,
    closure: usize,
    slot: usize,
    sym: usize,
    scratch: usize,
}

fn synthetic_code(which: usize, cx: &SynCtx) -> Vec<VCell> {
    use marwood::number::Number;
    use VCell::{Acc, ArgumentCount, BasePointerOffset, GlobalEnvSlot, LexicalEnvSlot, Nil, Ptr};
    let num = |n: i64| VCell::Number(Number::from(n));
    let op = |o: OpCode| VCell::OpCode(o);
    let mut bc = vec![op(OpCode::Enter)];
    match which {
        0 => {
            bc.extend(vec![
                op(OpCode::PushImmediate), num(7),
                op(OpCode::Push), Acc,
                op(OpCode::Push), BasePointerOffset(-1),
                op(OpCode::Push), BasePointerOffset(0),
                op(OpCode::Push), GlobalEnvSlot(cx.slot),
                op(OpCode::Push), LexicalEnvSlot(0),
                op(OpCode::Push), LexicalEnvSlot(1),
                op(OpCode::Push), Ptr(cx.lam),
                op(OpCode::Push), Ptr(cx.sym),
                op(OpCode::Push), Ptr(cx.closure),
                op(OpCode::Mov), BasePointerOffset(0), Acc,
                op(OpCode::Mov), Acc, BasePointerOffset(5),
                op(OpCode::Mov), Ptr(cx.sym), Acc,
                op(OpCode::PushAcc),
                op(OpCode::PushAcc),
                op(OpCode::Cons),
                op(OpCode::PushImmediate), VCell::symbol("never-interned-zz"),
                op(OpCode::PushImmediate), VCell::symbol("never-interned-zz"),
                op(OpCode::Cons),
                op(OpCode::Mov), Acc, Ptr(cx.scratch),
                op(OpCode::Mov), Ptr(cx.scratch), Acc,
                op(OpCode::Mov), GlobalEnvSlot(cx.slot), Ptr(cx.scratch),
                op(OpCode::MovImmediate), num(1), LexicalEnvSlot(0),
                op(OpCode::Mov), LexicalEnvSlot(0), BasePointerOffset(6),
                op(OpCode::Mov), BasePointerOffset(-1), LexicalEnvSlot(1),
                op(OpCode::Mov), Ptr(cx.closure), GlobalEnvSlot(cx.slot),
                op(OpCode::MovImmediate), VCell::symbol("imm-sym"), Acc,
                op(OpCode::PushAcc),
                op(OpCode::MovImmediate), num(5), Acc,
                op(OpCode::Ret),
            ]);
        }
        1 => bc.extend(vec![op(OpCode::Jmp), num(3)]),
        2 => bc.extend(vec![op(OpCode::Push), op(OpCode::Halt)]),
        3 => bc.extend(vec![op(OpCode::Push), num(3)]),
        4 => bc.extend(vec![num(3)]),
        5 => {}
        6 => bc.extend(vec![op(OpCode::Mov), Acc, BasePointerOffset(100000)]),
        7 => bc.extend(vec![op(OpCode::Push), BasePointerOffset(-1000)]),
        8 => bc.extend(vec![op(OpCode::MovImmediate), num(1), Acc, op(OpCode::ClosureAcc)]),
        9 => bc.extend(vec![op(OpCode::MovImmediate), Ptr(cx.sym), Acc, op(OpCode::ClosureAcc)]),
        10 => bc.extend(vec![op(OpCode::MovImmediate), num(1), Acc, op(OpCode::Enter)]),
        11 => bc.extend(vec![op(OpCode::Mov), Acc, num(1)]),
        12 => bc.extend(vec![op(OpCode::MovImmediate), Ptr(cx.sym), Acc, op(OpCode::PushImmediate), ArgumentCount(0), op(OpCode::CallAcc)]),
        13 => bc.extend(vec![op(OpCode::MovImmediate), Nil, Acc, op(OpCode::VPushAcc)]),
        // probes (sub-command `probe`, not part of the stream): operands outside the structures they index.
        // The Rust accessors panic (`expect`); the model's total `HeapOps` signatures return a default /
        // an error there (ConcreteHeap.lean, decision 4).
        14 => bc.extend(vec![op(OpCode::Push), LexicalEnvSlot(99)]),
        15 => bc.extend(vec![op(OpCode::Push), GlobalEnvSlot(999_999)]),
        16 => bc.extend(vec![op(OpCode::Push), Ptr(99_999_999)]),
        17 => bc.extend(vec![op(OpCode::MovImmediate), Nil, LexicalEnvSlot(99)]),
        18 => bc.extend(vec![op(OpCode::MovImmediate), Nil, GlobalEnvSlot(999_999)]),
        _ => bc.extend(vec![op(OpCode::MovImmediate), Nil, Ptr(99_999_999)]),
    }
    bc
}

/// overwrite the bytecode of the global procedure `syn`; false when it cannot be found
fn apply_patch(vm: &mut Vm, which: usize) -> bool {
    use marwood::number::Number;
    let sym = match vm.verif_heap().verif_symbol_table().get("syn") {
        Some(p) => *p,
        None => return false,
    };
    let slot = match vm.verif_globenv().verif_bindings().iter().find(|(k, _)| *k == sym) {
        Some((_, s)) => *s,
        None => return false,
    };
    let closure = match vm.verif_globenv().get_slot(slot) {
        VCell::Ptr(c) => c,
        _ => return false,
    };
    let lam = match vm.verif_heap().verif_cells().get(closure) {
        Some(VCell::Closure(l, _)) => *l,
        _ => return false,
    };
    let old = match vm.verif_heap().verif_cells().get(lam) {
        Some(VCell::Lambda(l)) => (**l).clone(),
        _ => return false,
    };
    let scratch = match vm.verif_heap_mut().put(VCell::Number(Number::from(0))) {
        VCell::Ptr(p) => p,
        _ => return false,
    };
    let cx = SynCtx { lam, closure, slot, sym, scratch };
    let mut new = old;
    new.bc = synthetic_code(which, &cx);
    *vm.verif_heap_mut().get_at_index_mut(lam) = VCell::Lambda(Rc::new(new));
    true
}

fn gen_programs(rng: &mut Rng, n: usize, seed: u64) -> Vec<Program> {
    let mut g = Gen::new(seed ^ 0x51357e9);
    let mut out = vec![];
    for i in 0..n {
        // quarters: feature programs, allocation-heavy templates of the collector streams, generated sessions,
        // hand-assembled bytecode
        let mut patch = None;
        let mut fill = None;
        let (label, forms) = match i % 4 {
            0 => {
                let w = (i / 4) % FEATURE_PROGRAMS;
                // CONS and VPUSH are emitted for quasiquote templates only: every feature session starts with some
                let k = rng.below(9);
                let prefix = format!(
                    "`(1 ,(+ 1 {k}) #(a ,(list {k}) b ,{k}) (k . ,(car '(z)))) `#(,(vector {k}) (,{k}))
                     (+ 1 (call/cc (lambda (k) (+ 2 (k {k}))))) (car (eval '(quote (a {k}))))"
                );
                (format!("feature{}", w), split_forms(&format!("{} {}", prefix, feature_program(rng, w))))
            }
            1 => {
                let w = (i / 4) % programs::TEMPLATE_COUNT;
                (format!("template{}", w), split_forms(&programs::template(rng, w)))
            }
            2 => {
                let forms: Vec<String> = g.session(2 + (i % 5), 1 + i % 3).iter().map(|f| f.render()).collect();
                ("session".to_string(), forms)
            }
            _ if (i / 4) % 4 == 3 => {
                fill = Some((3, rng.below(6) as usize));
                let n = 2 + rng.below(4);
                (
                    "heapfull".to_string(),
                    split_forms(&format!(
                        "(define (mk n) (if (= n 0) '() (cons (lambda () n) (mk (- n 1))))) (define (va . r) r) (define k0 #f)
                         (begin (va 1 2 3) (mk {n}) (call/cc (lambda (k) (set! k0 k) 1)) `(1 ,(+ 1 1)) (length (mk 4)))
                         (length (mk {n})) (va 1 2) (if k0 (let ((k k0)) (set! k0 #f) (k 2)) 'done)"
                    )),
                )
            }
            _ => {
                let w = if (i / 4) % 4 == 0 { 0 } else { 1 + (i / 8) % (SYNTHETIC_PROGRAMS - 1) };
                patch = Some(w);
                let n = 1 + rng.below(20);
                (
                    format!("synthetic{}", w),
                    split_forms(&format!(
                        "(define (churn n) (if (= n 0) 'ok (begin (list n n) (churn (- n 1))))) (churn {n})
                         (define (syn a b) (lambda () (list a b)) (list a b)) (syn 1 2) (syn '(x) \"y\")"
                    )),
                )
            }
        };
        // every second program of a kind runs with forced collections, so that the free list is scrambled
        let gc_every = if (i / 4) % 2 == 1 || (patch == Some(0) && (i / 8) % 2 == 1) {
            Some(*rng.pick(&[3u64, 5, 7, 16, 50, 200]))
        } else {
            None
        };
        out.push(Program { label, forms, gc_every, patch, fill });
    }
    out
}

// ------------------------------------------------------------------ stepping

const MAX_INSTR: u64 = 40_000;

/// Run a program in a fresh VM. `visit(ordinal, class, vm) -> bool` decides whether the instruction is
/// recorded; `emit` receives the finished line.
fn run_program(
    prog: &Program,
    visit: &mut dyn FnMut(u64, &Class) -> bool,
    emit: &mut dyn FnMut(String),
) {
    let (mut vm, _log) = new_vm();
    let mut n: u64 = 0;
    let mut scrambled = false;
    'forms: for (fi, f) in prog.forms.iter().enumerate() {
        if let Some(w) = prog.patch {
            if fi + 1 == prog.forms.len() && !apply_patch(&mut vm, w) {
                break 'forms;
            }
        }
        let cell = match parse::parse_text(f) {
            Ok((c, _)) => c,
            Err(_) => continue,
        };
        match catch(std::panic::AssertUnwindSafe(|| vm.prepare_eval(&cell))) {
            Ok(Ok(())) => {}
            Ok(Err(_)) => continue,
            Err(_) => break 'forms,
        }
        if let Some((at, leave)) = prog.fill {
            if at == fi {
                while vm.verif_heap().verif_free_list().len() > leave {
                    vm.verif_heap_mut().put(VCell::Nil);
                }
            }
        }
        loop {
            n += 1;
            if n > MAX_INSTR {
                break 'forms;
            }
            if let Some(k) = prog.gc_every {
                if n % k == 0 && prog.fill.map(|(at, _)| fi > at).unwrap_or(true) {
                    if catch(std::panic::AssertUnwindSafe(|| vm.verif_force_gc())).is_err() {
                        break 'forms;
                    }
                    scrambled = true;
                }
            }
            let class = classify(&vm);
            let record = match &class {
                Some(c) => visit(n, c),
                None => false,
            };
            let pre = if record { Some(snap(&vm)) } else { None };
            let r: Result<Result<bool, Error>, String> = catch(std::panic::AssertUnwindSafe(|| vm.verif_step()));
            if let (Some(pre), Some(c)) = (pre, class) {
                // after a panic the VM may hold a poisoned RefCell: do not look at it
                let (resp, ext, inl) = match &r {
                    Err(_) => ("panic".to_string(), "X panic".to_string(), pre.inl),
                    Ok(Err(e)) => (format!("err {}", err_name(e)), format!("X err {}", err_name(e)), pre.inl),
                    Ok(Ok(halt)) => {
                        let post = snap(&vm);
                        let resp = enc_ok(&pre, &post, *halt);
                        let ext = format!("X ok {} {}", post.acc, enc_delta(&pre, &post));
                        (resp, ext, pre.inl + post.inl)
                    }
                };
                let ext = if c.ext { ext } else { "X none".to_string() };
                let info = format!(
                    "i:{}:{}:{}:{}:{}",
                    c.op,
                    if c.kind.is_empty() { "-" } else { &c.kind },
                    if c.ext { "ext" } else if c.alias { "alias" } else { "core" },
                    if scrambled { "scr" } else { "lin" },
                    inl
                );
                emit(format!("simstep {} {} {} {}\t{}", info, enc_regs(&pre), enc_heap(&pre), ext, resp));
            }
            match r {
                Ok(Ok(true)) => break,
                Ok(Ok(false)) => {}
                Ok(Err(_)) | Err(_) => break 'forms,
            }
        }
    }
}

fn cmd_run(args: &[String], seed: u64) {
    let nprog: usize = args[0].parse().unwrap();
    let per: usize = args[1].parse().unwrap();
    let mut rng = Rng::new(seed ^ 0x5157e9);
    let progs = gen_programs(&mut rng, nprog, seed);
    let stdout = std::io::stdout();
    let mut out = std::io::BufWriter::new(stdout.lock());
    // how often each class has been recorded so far (rarest first when choosing)
    let mut taken: HashMap<String, usize> = HashMap::new();
    let mut total = 0usize;
    for prog in &progs {
        // pass 1: which instruction has which class
        let mut occ: BTreeMap<String, Vec<u64>> = BTreeMap::new();
        run_program(
            prog,
            &mut |n, c| {
                occ.entry(c.key()).or_default().push(n);
                false
            },
            &mut |_| {},
        );
        // choose: round-robin over the classes present, globally rarest class first, a random occurrence each
        let mut chosen: Vec<u64> = vec![];
        let mut round = 0;
        let per = if prog.patch == Some(0) { per * 3 } else { per };
        while chosen.len() < per && round < 4 {
            let mut keys: Vec<&String> = occ.keys().collect();
            keys.sort_by_key(|k| (taken.get(*k).copied().unwrap_or(0), (*k).clone()));
            let mut progress = false;
            for k in keys {
                if chosen.len() >= per {
                    break;
                }
                let v = &occ[k];
                let cand: Vec<u64> = v.iter().filter(|n| !chosen.contains(n)).copied().collect();
                if cand.is_empty() {
                    continue;
                }
                // the first round prefers the first occurrence half of the time (fresh heap), later rounds are uniform
                let pick = if round == 0 && rng.chance(1, 2) { cand[0] } else { *rng.pick(&cand) };
                chosen.push(pick);
                *taken.entry(k.clone()).or_insert(0) += 1;
                progress = true;
            }
            if !progress {
                break;
            }
            round += 1;
        }
        // pass 2: the same program again, recording the chosen instructions
        run_program(
            prog,
            &mut |n, _| chosen.contains(&n),
            &mut |line| {
                total += 1;
                writeln!(out, "{}", line).unwrap();
            },
        );
        if std::env::var("VERIF_DEBUG_CASE").is_ok() {
            eprintln!("{} gc={:?} classes={} chosen={}", prog.label, prog.gc_every, occ.len(), chosen.len());
        }
    }
    let mut t: Vec<(String, usize)> = taken.into_iter().collect();
    t.sort();
    eprintln!("lines: {} classes: {:?}", total, t);
}

/// the six out-of-structure operand probes, every instruction recorded
fn cmd_probe() {
    let stdout = std::io::stdout();
    let mut out = std::io::BufWriter::new(stdout.lock());
    for w in 14..20 {
        let prog = Program {
            label: format!("probe{}", w),
            forms: split_forms("(define (syn a b) (lambda () (list a b)) (list a b)) (syn 1 2)"),
            gc_every: None,
            patch: Some(w),
            fill: None,
        };
        let mut last = String::new();
        run_program(&prog, &mut |_, _| true, &mut |line| last = line);
        // only the last recorded instruction (the probe itself) is of interest
        writeln!(out, "{}", last).unwrap();
    }
}

fn main() {
    silence_panics();
    let args: Vec<String> = std::env::args().skip(1).collect();
    let seed: u64 = std::env::var("VERIF_SEED").ok().and_then(|s| s.parse().ok()).unwrap_or(1);
    match args.first().map(|s| s.as_str()) {
        Some("run") if args.len() >= 3 => cmd_run(&args[1..], seed),
        Some("probe") => cmd_probe(),
        _ => {
            eprintln!("usage: simstep run <programs> <lines-per-program>");
            std::process::exit(2);
        }
    }
}
