//! Lock-step correspondence "concrete-heap-step" (C03 / T03.5): the real VM executes ONE instruction from a
//! state whose COMPLETE heap (with payloads) is shipped to the Lean driver, which runs
//! `Marwood.Vm.step (Marwood.Vm.Concrete.concreteOps ext)` (lean/Marwood/Vm/ConcreteHeap.lean) on it and must
//! render exactly the same post-state. Decoder / renderer: lean/Driver/SimStep.lean.
//!
//! usage: simstep run <programs> <lines-per-program>        (seed from VERIF_SEED)
//!        simstep runlx <programs> <lines-per-program>      only CALL / TCALL of a builtin in the table of
//!                            lean/Marwood/Vm/ListExt.lean; `ext := X lx <idx> <eqbit>`: the DRIVER computes the builtin
//!                            with `ListExt.builtinEval` (bucket `listext`, see ../simstep_lx.rs). `run` is unchanged.
//!        simstep prep <sessions>   stream "prepare-installs": the state before / after `prepare_eval` of every form of
//!                            generated sessions, checked by the driver command `prepcheck` (see ../prep_forms.rs)
//!        simstep probe       six operands that index outside their structure (Rust panics, the model's total
//!                            signatures do not): NOT part of the stream, for the report only
//!
//! ## Wire format (all tokens separated by one space; no token contains space, comma or tab)
//!
//! cell   := T F N U V | acc | op<name> | O<tag> | Q<a>:<d> | C<l>:<e> | L0 | K0 | X<id> | S<n> | D<e>:<n> | A<n>
//!         | B<n> | R<int> | E<n> | G<n> | I<l>:<o> | P<a>            (numbers decimal; usize::MAX is `max`)
//!   tag  := n<hex of the Debug rendering of the number> | c<hex code point> | s<Rc pointer hex> | m<Rc pointer hex>
//!         | yx<hex of the UTF-8 bytes of the symbol name>   (first character = kind, as in ConcreteHeap.lean; the
//!           symbol-table key of a symbol is the tag without the leading `y`, i.e. `x<hex>`)
//!         | e | v    (an INLINE `LexicalEnv(Rc)` / `Vector(Rc)` in a register, stack slot, environment slot, vector
//!           element or global slot: rendered as the model's address-free representative `repr`; likewise an inline
//!           `Lambda(Rc)` is `L0`, an inline `Continuation(Rc)` is `K0`. Each such rendering is counted: bucket
//!           "inline-rc" of the info token)
//!   X<id>: id = (Rc pointer of the BuiltInProc) * 4 + kind, kind 0 generic 1 apply 2 eval 3 callcc; the driver's
//!          `ExtOps.builtinKind` is `id % 4`
//! ccell  := c cell | e <n> cell*n | v <n> cell*n
//!         | l <nbc> <nargs> <nenv> cell*nbc cell*nargs (cell src)*nenv        src := a<n> | fa<n> | fe<n> | g | i
//!         | k <sp> <ep> <ipl> <ipo> <bp> <n> cell*n       (all of the continuation stack's `verif_slots()`)
//! gc     := f | a | u
//! regs   := R <sp> <bp> <ep> <ipl> <ipo> <acc:cell> <cap> <n> cell*n    (slots [0,n); slots [n,cap) are Undefined)
//! heap   := H <chunk> <capacity> <m> (<addr> gc ccell)*m        (cells that are Free and Undefined are omitted)
//!           F <k> run*k      free list, NEXT ADDRESS FIRST (= Rust's `free_list` Vec reversed);
//!                            run := <a> | <a>+<n> (a, a+1, …, n addresses) | <a>-<n> (a, a-1, …, n addresses)
//!           T <n> (<name> <addr>)*n      symbol table sorted by name
//!           GS <n> addr*n                keys of `globenv.bindings`, ascending
//!           GV <n> cell*n                `globenv.slots`
//! delta  := D <capacity'> <m> (<addr> gc ccell)*m       cells whose gc state or content differs, ascending
//!           F <keep> <n> addr*n          new free list = these n addresses (next first, uncompressed) followed by the
//!                                        last `keep` entries of the old one (keep = longest common tail)
//!           T <r> name*r <a> (<name> <addr>)*a    removed names; added / re-bound names; both sorted by name
//!           GS <n> addr*n                new binding keys, ascending
//!           GV <len'> <m> (<idx> cell)*m changed or new global slots, ascending
//! ext    := X none | X ok <acc':cell> delta | X err <class> | X panic
//!           recorded outcome of the real step for the three non-modelled parameters (`ExtOps`): a generic builtin
//!           (`builtinEval`: result = final accumulator, heap effect = delta incl. the trailing `maybe_put`),
//!           `eval`'s compiler (`compileEval`) and VPUSH (`vectorPush`). `X none` on core steps.
//! request  := simstep <info> regs heap ext
//!   info   := i:<opcode>:<kind>:<core|ext|alias>:<scr|lin>:<inline-rc count>   (ignored by the driver; scr = a forced
//!             collection ran earlier in this VM, so the free list is no longer the allocator's initial order;
//!             alias = CONS / VARARG whose operand is an inline `Rc` payload (only VPUSH before fix 43d0413 left one in
//!             %acc; the bucket is empty on the repaired code): `heap.put` then creates a second heap
//!             cell sharing the `Rc`, which the by-value model cannot express — the Python side compares only
//!             registers, stack and the number of changed cells for these steps and counts them separately)
//! response := ok <sp> <bp> <ep> <ipl> <ipo> <acc:cell> <halt 0|1> <cap> <n> cell*n delta
//!             (n = number of stack slots up to the last non-Undefined one: the WHOLE stack is compared, not only
//!              [0..=sp]) | err <class as trace.rs err_name> | panic
#[path = "../gc_programs.rs"]
mod programs;
#[path = "../prep_forms.rs"]
mod prep_forms;

use marwood::error::Error;
use marwood::parse;
use marwood::vm::environment::BindingSource;
use marwood::vm::gc::State;
use marwood::vm::opcode::OpCode;
use marwood::vm::vcell::VCell;
use marwood::vm::Vm;
use mwv::progs::Gen;
use mwv::rng::Rng;
use mwv::session::new_vm;
use mwv::trace::{err_name, op_name};
use mwv::wire::{catch, silence_panics};
use std::collections::{BTreeMap, HashMap};
use std::io::Write;
use std::rc::Rc;

// ------------------------------------------------------------------ rendering

fn usz(n: usize) -> String {
    if n == usize::MAX {
        "max".into()
    } else {
        n.to_string()
    }
}

fn hexs(s: &str) -> String {
    s.bytes().map(|b| format!("{:02x}", b)).collect()
}

fn builtin_kind(desc: &str) -> (&'static str, usize) {
    match desc {
        "apply" => ("apply", 1),
        "eval" => ("eval", 2),
        "call/cc" | "call-with-current-continuation" => ("callcc", 3),
        _ => ("generic", 0),
    }
}

fn tok(v: &VCell, inl: &mut usize) -> String {
    match v {
        VCell::Bool(true) => "T".into(),
        VCell::Bool(false) => "F".into(),
        VCell::Nil => "N".into(),
        VCell::Undefined => "U".into(),
        VCell::Void => "V".into(),
        VCell::Char(c) => format!("Oc{:x}", *c as u32),
        VCell::Number(n) => format!("On{}", hexs(&format!("{:?}", n))),
        VCell::Symbol(s) => format!("Oyx{}", hexs(s)),
        VCell::String(s) => format!("Os{:x}", Rc::as_ptr(s) as usize),
        VCell::Macro(m) => format!("Om{:x}", Rc::as_ptr(m) as usize),
        VCell::Vector(_) => {
            *inl += 1;
            "Ov".into()
        }
        VCell::LexicalEnv(_) => {
            *inl += 1;
            "Oe".into()
        }
        VCell::Lambda(_) => {
            *inl += 1;
            "L0".into()
        }
        VCell::Continuation(_) => {
            *inl += 1;
            "K0".into()
        }
        VCell::Pair(a, d) => format!("Q{}:{}", usz(*a), usz(*d)),
        VCell::Closure(l, e) => format!("C{}:{}", usz(*l), usz(*e)),
        VCell::BuiltInProc(b) => format!("X{}", (Rc::as_ptr(b) as usize) * 4 + builtin_kind(b.desc()).1),
        VCell::LexicalEnvSlot(n) => format!("S{}", n),
        VCell::LexicalEnvPtr(e, n) => format!("D{}:{}", usz(*e), usz(*n)),
        VCell::Acc => "acc".into(),
        VCell::ArgumentCount(n) => format!("A{}", n),
        VCell::BasePointer(n) => format!("B{}", n),
        VCell::BasePointerOffset(i) => format!("R{}", i),
        VCell::EnvironmentPointer(e) => format!("E{}", usz(*e)),
        VCell::GlobalEnvSlot(n) => format!("G{}", n),
        VCell::InstructionPointer(l, o) => format!("I{}:{}", usz(*l), usz(*o)),
        VCell::OpCode(op) => format!("op{}", op_name(op)),
        VCell::Ptr(a) => format!("P{}", usz(*a)),
    }
}

fn src_tok(s: &BindingSource) -> String {
    match s {
        BindingSource::Global => "g".into(),
        BindingSource::Argument(n) => format!("a{}", n),
        BindingSource::IofArgument(n) => format!("fa{}", n),
        BindingSource::IofEnvironment(n) => format!("fe{}", n),
        BindingSource::InternalDefinition => "i".into(),
    }
}

/// content of a heap cell (payloads by value)
fn ccell(v: &VCell, inl: &mut usize) -> String {
    let mut s = String::new();
    match v {
        VCell::LexicalEnv(e) => {
            let n = e.slot_len();
            s.push_str(&format!("e {}", n));
            for i in 0..n {
                s.push(' ');
                s.push_str(&tok(&e.get(i), inl));
            }
        }
        VCell::Vector(vec) => {
            let n = vec.len();
            s.push_str(&format!("v {}", n));
            for i in 0..n {
                s.push(' ');
                s.push_str(&tok(&vec.get(i).unwrap(), inl));
            }
        }
        VCell::Lambda(l) => {
            let em = l.envmap.get_map();
            s.push_str(&format!("l {} {} {}", l.bc.len(), l.args.len(), em.len()));
            for c in &l.bc {
                s.push(' ');
                s.push_str(&tok(c, inl));
            }
            for c in &l.args {
                s.push(' ');
                s.push_str(&tok(c, inl));
            }
            for (sym, src) in em {
                s.push(' ');
                s.push_str(&tok(sym, inl));
                s.push(' ');
                s.push_str(&src_tok(src));
            }
        }
        VCell::Continuation(k) => {
            let slots = k.stack().verif_slots();
            s.push_str(&format!(
                "k {} {} {} {} {} {}",
                k.stack().get_sp(),
                usz(k.ep()),
                usz(k.ip().0),
                usz(k.ip().1),
                k.bp(),
                slots.len()
            ));
            for c in slots {
                s.push(' ');
                s.push_str(&tok(c, inl));
            }
        }
        other => {
            s.push_str("c ");
            s.push_str(&tok(other, inl));
        }
    }
    s
}

const DEFAULT_CELL: &str = "f c U";

struct Snap {
    chunk: usize,
    /// `<gc> <ccell>` per address
    cells: Vec<String>,
    /// Vec order (last = next address)
    free: Vec<usize>,
    sym: BTreeMap<String, usize>,
    gsyms: Vec<usize>,
    gvals: Vec<String>,
    sp: usize,
    bp: usize,
    ep: usize,
    ip: (usize, usize),
    acc: String,
    slots: Vec<String>,
    /// inline Rc payloads met in registers / stack / slots / elements
    inl: usize,
}

fn snap(vm: &Vm) -> Snap {
    let heap = vm.verif_heap();
    let mut inl = 0usize;
    let mut cells = Vec::with_capacity(heap.verif_cells().len());
    for (i, c) in heap.verif_cells().iter().enumerate() {
        let st = heap.verif_gc_state(i);
        if st == Some(State::Free) && matches!(c, VCell::Undefined) {
            cells.push(DEFAULT_CELL.to_string());
            continue;
        }
        let g = match st {
            Some(State::Free) => 'f',
            Some(State::Allocated) => 'a',
            Some(State::Used) => 'u',
            None => '?',
        };
        cells.push(format!("{} {}", g, ccell(c, &mut inl)));
    }
    let sym: BTreeMap<String, usize> =
        heap.verif_symbol_table().iter().map(|(k, v)| (format!("x{}", hexs(k)), *v)).collect();
    let mut gsyms: Vec<usize> = vm.verif_globenv().verif_bindings().iter().map(|(k, _)| *k).collect();
    gsyms.sort();
    let gvals: Vec<String> = vm.verif_globenv().iter_slots().map(|c| tok(c, &mut inl)).collect();
    let (acc, ep, ip, bp) = vm.verif_regs();
    let st = vm.verif_stack();
    let slots: Vec<String> = st.verif_slots().iter().map(|c| tok(c, &mut inl)).collect();
    Snap {
        chunk: heap.verif_chunk_size(),
        cells,
        free: heap.verif_free_list().to_vec(),
        sym,
        gsyms,
        gvals,
        sp: st.get_sp(),
        bp,
        ep,
        ip,
        acc: tok(acc, &mut inl),
        slots,
        inl,
    }
}

/// number of slots up to the last non-Undefined one
fn trimmed(slots: &[String]) -> usize {
    let mut n = slots.len();
    while n > 0 && slots[n - 1] == "U" {
        n -= 1;
    }
    n
}

/// run-length tokens of a list of addresses
fn enc_runs(l: &[usize]) -> Vec<String> {
    let mut out = vec![];
    let mut i = 0;
    while i < l.len() {
        let mut j = i;
        while j + 1 < l.len() && l[j + 1] == l[j] + 1 {
            j += 1;
        }
        if j > i {
            out.push(format!("{}+{}", l[i], j - i + 1));
            i = j + 1;
            continue;
        }
        while j + 1 < l.len() && l[j + 1] + 1 == l[j] {
            j += 1;
        }
        if j > i {
            out.push(format!("{}-{}", l[i], j - i + 1));
            i = j + 1;
            continue;
        }
        out.push(format!("{}", l[i]));
        i += 1;
    }
    out
}

fn enc_regs(s: &Snap) -> String {
    let n = trimmed(&s.slots);
    let mut out = format!(
        "R {} {} {} {} {} {} {} {}",
        s.sp,
        s.bp,
        usz(s.ep),
        usz(s.ip.0),
        usz(s.ip.1),
        s.acc,
        s.slots.len(),
        n
    );
    for c in &s.slots[..n] {
        out.push(' ');
        out.push_str(c);
    }
    out
}

fn enc_heap(s: &Snap) -> String {
    let mut body = String::new();
    let mut m = 0;
    for (i, c) in s.cells.iter().enumerate() {
        if c == DEFAULT_CELL {
            continue;
        }
        m += 1;
        body.push_str(&format!(" {} {}", i, c));
    }
    let mut out = format!("H {} {} {}{}", s.chunk, s.cells.len(), m, body);
    let head_first: Vec<usize> = s.free.iter().rev().copied().collect();
    let runs = enc_runs(&head_first);
    out.push_str(&format!(" F {}", runs.len()));
    for r in runs {
        out.push(' ');
        out.push_str(&r);
    }
    out.push_str(&format!(" T {}", s.sym.len()));
    for (k, v) in &s.sym {
        out.push_str(&format!(" {} {}", k, v));
    }
    out.push_str(&format!(" GS {}", s.gsyms.len()));
    for k in &s.gsyms {
        out.push_str(&format!(" {}", k));
    }
    out.push_str(&format!(" GV {}", s.gvals.len()));
    for v in &s.gvals {
        out.push(' ');
        out.push_str(v);
    }
    out
}

fn enc_delta(pre: &Snap, post: &Snap) -> String {
    let mut body = String::new();
    let mut m = 0;
    for (i, c) in post.cells.iter().enumerate() {
        let old = pre.cells.get(i).map(|x| x.as_str()).unwrap_or(DEFAULT_CELL);
        if old != c {
            m += 1;
            body.push_str(&format!(" {} {}", i, c));
        }
    }
    let mut out = format!("D {} {}{}", post.cells.len(), m, body);
    let mut keep = 0;
    while keep < pre.free.len() && keep < post.free.len() && pre.free[keep] == post.free[keep] {
        keep += 1;
    }
    let newpart: Vec<usize> = post.free[keep..].iter().rev().copied().collect();
    out.push_str(&format!(" F {} {}", keep, newpart.len()));
    for a in newpart {
        out.push_str(&format!(" {}", a));
    }
    let removed: Vec<&String> = pre.sym.keys().filter(|k| !post.sym.contains_key(*k)).collect();
    out.push_str(&format!(" T {}", removed.len()));
    for k in removed {
        out.push(' ');
        out.push_str(k);
    }
    let added: Vec<(&String, &usize)> = post.sym.iter().filter(|(k, v)| pre.sym.get(*k) != Some(*v)).collect();
    out.push_str(&format!(" {}", added.len()));
    for (k, v) in added {
        out.push_str(&format!(" {} {}", k, v));
    }
    let newsyms: Vec<usize> = post.gsyms.iter().filter(|k| pre.gsyms.binary_search(k).is_err()).copied().collect();
    out.push_str(&format!(" GS {}", newsyms.len()));
    for k in newsyms {
        out.push_str(&format!(" {}", k));
    }
    let mut gbody = String::new();
    let mut gm = 0;
    for (i, v) in post.gvals.iter().enumerate() {
        if pre.gvals.get(i) != Some(v) {
            gm += 1;
            gbody.push_str(&format!(" {} {}", i, v));
        }
    }
    out.push_str(&format!(" GV {} {}{}", post.gvals.len(), gm, gbody));
    out
}

fn enc_ok(pre: &Snap, post: &Snap, halt: bool) -> String {
    let n = trimmed(&post.slots);
    let mut out = format!(
        "ok {} {} {} {} {} {} {} {} {}",
        post.sp,
        post.bp,
        usz(post.ep),
        usz(post.ip.0),
        usz(post.ip.1),
        post.acc,
        if halt { 1 } else { 0 },
        post.slots.len(),
        n
    );
    for c in &post.slots[..n] {
        out.push(' ');
        out.push_str(c);
    }
    out.push(' ');
    out.push_str(&enc_delta(pre, post));
    out
}

// ------------------------------------------------------------------ classification of the next instruction

#[derive(Clone, Debug)]
struct Class {
    op: &'static str,
    kind: String,
    ext: bool,
    /// CONS / VARARG about to `heap.put` an INLINE `Rc` payload (e.g. the `Vector(Rc)` VPUSH left in `acc`, pushed
    /// as an operand): the real heap gets a second cell sharing that `Rc`, the model (payloads stored by value,
    /// inline values rendered as their representative) stores the representative. Counted as bucket "alias"; only
    /// registers, stack and the number of changed cells are compared for these steps.
    alias: bool,
    /// CALL / TCALL of a generic builtin of the `listExt` table: (table index, `Vm::eqv` of the operands of `eq?`)
    lx: Option<(usize, bool)>,
}

fn is_inline_rc(v: &VCell) -> bool {
    matches!(v, VCell::Vector(_) | VCell::LexicalEnv(_) | VCell::Lambda(_) | VCell::Continuation(_))
}

impl Class {
    fn key(&self) -> String {
        format!("{}:{}", self.op, self.kind)
    }
}

fn opnd_kind(v: Option<&VCell>) -> &'static str {
    match v {
        Some(VCell::Acc) => "acc",
        Some(VCell::Ptr(_)) => "ptr",
        Some(VCell::BasePointerOffset(_)) => "bpo",
        Some(VCell::GlobalEnvSlot(_)) => "glob",
        Some(VCell::LexicalEnvSlot(_)) => "lex",
        Some(_) => "imm",
        None => "none",
    }
}

fn classify(vm: &Vm) -> Option<Class> {
    let (acc, ep, ip, bp) = vm.verif_regs();
    let cells = vm.verif_heap().verif_cells();
    let lambda = match cells.get(ip.0) {
        Some(VCell::Lambda(l)) => l.clone(),
        _ => return None,
    };
    let op = match lambda.bc.get(ip.1) {
        Some(VCell::OpCode(op)) => op.clone(),
        _ => return None,
    };
    let st = vm.verif_stack();
    let sp = st.get_sp();
    let slots = st.verif_slots();
    let grow = if sp + 1 >= slots.len() { "+grow" } else { "" };
    let accv = match acc {
        VCell::Ptr(p) => cells.get(*p).cloned().unwrap_or(VCell::Undefined),
        other => other.clone(),
    };
    // a lexical slot that is itself a pointer into another environment
    let lex_kind = |n: usize| -> &'static str {
        match cells.get(ep) {
            Some(VCell::LexicalEnv(e)) if n < e.slot_len() => match e.get(n) {
                VCell::LexicalEnvPtr(_, _) => "lexptr",
                _ => "lex",
            },
            _ => "lexbad",
        }
    };
    let ok = |v: Option<&VCell>| -> String {
        match v {
            Some(VCell::LexicalEnvSlot(n)) => lex_kind(*n).to_string(),
            other => opnd_kind(other).to_string(),
        }
    };
    let mut ext = false;
    let mut alias = false;
    let mut lx = None;
    let kind: String = match op {
        OpCode::CallAcc | OpCode::TCallAcc | OpCode::Enter => {
            let callee = match &accv {
                VCell::Closure(_, _) => "closure".to_string(),
                VCell::Lambda(_) => "lambda".to_string(),
                VCell::BuiltInProc(b) => {
                    let k = builtin_kind(b.desc()).0;
                    if (k == "generic" || k == "eval") && !matches!(op, OpCode::Enter) {
                        ext = true;
                    }
                    if k == "generic" && !matches!(op, OpCode::Enter) {
                        lx = lx_index(b.desc()).map(|i| (i, lx_eqbit(vm, i, slots, sp)));
                    }
                    format!("builtin-{}", k)
                }
                VCell::Continuation(_) => "continuation".to_string(),
                _ => "other".to_string(),
            };
            let mut k = callee;
            if matches!(op, OpCode::TCallAcc) && matches!(accv, VCell::Closure(_, _) | VCell::Lambda(_)) {
                let a = slots.get(sp);
                let f = slots.get(bp + 1);
                k.push_str(if a == f { "/same-argc" } else { "/diff-argc" });
            }
            if matches!(op, OpCode::CallAcc) && matches!(accv, VCell::Closure(_, _) | VCell::Lambda(_)) {
                if sp + 2 >= slots.len() {
                    k.push_str("+grow");
                }
            }
            k
        }
        OpCode::Mov => format!("{}>{}", ok(lambda.bc.get(ip.1 + 1)), ok(lambda.bc.get(ip.1 + 2))),
        OpCode::MovImmediate => format!("imm>{}", ok(lambda.bc.get(ip.1 + 2))),
        OpCode::Push => format!("{}{}", ok(lambda.bc.get(ip.1 + 1)), grow),
        OpCode::PushImmediate | OpCode::PushAcc => grow.trim_start_matches('+').to_string(),
        OpCode::Cons => {
            alias = (0..2).any(|i| sp >= i && slots.get(sp - i).map(is_inline_rc).unwrap_or(false));
            if alias { "inline-operand".to_string() } else { String::new() }
        }
        OpCode::VarArg => {
            let req = lambda.args.len().saturating_sub(1);
            if let Some(VCell::ArgumentCount(n)) = sp.checked_sub(2).and_then(|i| slots.get(i)) {
                // the rest arguments lie below argc: slots [sp-2-(n-req), sp-2)
                let rest = n.saturating_sub(req);
                alias = (0..rest).any(|i| sp >= 3 + i && slots.get(sp - 3 - i).map(is_inline_rc).unwrap_or(false));
            }
            match sp.checked_sub(2).and_then(|i| slots.get(i)) {
                Some(VCell::ArgumentCount(n)) if *n < req => "too-few".to_string(),
                Some(VCell::ArgumentCount(n)) if *n == req + 1 => "one-rest".to_string(),
                Some(VCell::ArgumentCount(n)) if *n == req => "no-rest".to_string(),
                Some(VCell::ArgumentCount(_)) => "many-rest".to_string(),
                _ => "bad".to_string(),
            }
        }
        OpCode::Jnt => match &accv {
            VCell::Bool(false) => "taken".to_string(),
            _ => "fallthrough".to_string(),
        },
        OpCode::VPushAcc => {
            ext = true;
            String::new()
        }
        _ => String::new(),
    };
    let kind = if alias && !kind.ends_with("inline-operand") { format!("{}/inline-operand", kind) } else { kind };
    // an allocating instruction with (almost) no free cell left: `Heap::alloc` grows the heap inside the step
    let allocating = matches!(op, OpCode::Cons | OpCode::ClosureAcc | OpCode::VarArg)
        || (matches!(op, OpCode::Enter) && matches!(accv, VCell::Closure(_, _)))
        || kind.starts_with("builtin-callcc");
    let kind = if allocating && vm.verif_heap().verif_free_list().len() < 3 { format!("{}+heapgrow", kind) } else { kind };
    Some(Class { op: op_name(&op), kind, ext, alias, lx })
}

// ------------------------------------------------------------------ programs

// program corpus (feature sessions, hand-assembled bytecode, generated sessions): textually included to keep
// this file under 800 lines
include!("../simstep_progs.rs");
include!("../simstep_lx.rs");

const MAX_INSTR: u64 = 40_000;

/// Run a program in a fresh VM. `visit(ordinal, class, vm) -> bool` decides whether the instruction is
/// recorded; `emit` receives the finished line.
fn run_program(
    prog: &Program,
    lx_mode: bool,
    visit: &mut dyn FnMut(u64, &Class) -> bool,
    emit: &mut dyn FnMut(String),
) {
    let (mut vm, _log) = new_vm();
    let mut n: u64 = 0;
    let mut scrambled = false;
    'forms: for (fi, f) in prog.forms.iter().enumerate() {
        if let Some(w) = prog.patch {
            if fi + 1 == prog.forms.len() && !apply_patch(&mut vm, w) {
                break 'forms;
            }
        }
        let cell = match parse::parse_text(f) {
            Ok((c, _)) => c,
            Err(_) => continue,
        };
        match catch(std::panic::AssertUnwindSafe(|| vm.prepare_eval(&cell))) {
            Ok(Ok(())) => {}
            Ok(Err(_)) => continue,
            Err(_) => break 'forms,
        }
        if let Some((at, leave)) = prog.fill {
            if at == fi {
                while vm.verif_heap().verif_free_list().len() > leave {
                    vm.verif_heap_mut().put(VCell::Nil);
                }
            }
        }
        loop {
            n += 1;
            if n > MAX_INSTR {
                break 'forms;
            }
            if let Some(k) = prog.gc_every {
                if n % k == 0 && prog.fill.map(|(at, _)| fi > at).unwrap_or(true) {
                    if catch(std::panic::AssertUnwindSafe(|| vm.verif_force_gc())).is_err() {
                        break 'forms;
                    }
                    scrambled = true;
                }
            }
            let class = classify(&vm);
            let record = match &class {
                Some(c) => visit(n, c),
                None => false,
            };
            let pre = if record { Some(snap(&vm)) } else { None };
            let r: Result<Result<bool, Error>, String> = catch(std::panic::AssertUnwindSafe(|| vm.verif_step()));
            if let (Some(pre), Some(c)) = (pre, class) {
                // after a panic the VM may hold a poisoned RefCell: do not look at it
                let (resp, ext, inl) = match &r {
                    Err(_) => ("panic".to_string(), "X panic".to_string(), pre.inl),
                    Ok(Err(e)) => (format!("err {}", err_name(e)), format!("X err {}", err_name(e)), pre.inl),
                    Ok(Ok(halt)) => {
                        let post = snap(&vm);
                        let resp = enc_ok(&pre, &post, *halt);
                        let ext = format!("X ok {} {}", post.acc, enc_delta(&pre, &post));
                        (resp, ext, pre.inl + post.inl)
                    }
                };
                let ext = if c.ext { ext } else { "X none".to_string() };
                // mode `runlx`: the driver computes the builtin itself (`ListExt.builtinEval`), nothing is recorded
                let lx = if lx_mode { c.lx } else { None };
                let ext = match lx {
                    Some((idx, bit)) => format!("X lx {} {}", idx, if bit { 1 } else { 0 }),
                    None => ext,
                };
                // hand-assembled bytecode is marked (`+syn`): it violates the code discipline of the invariant
                // `GoodI` on purpose, and the side-condition stream evaluates only the clauses of `Good` on it
                let kind = format!(
                    "{}{}",
                    if c.kind.is_empty() { "-" } else { &c.kind },
                    if prog.patch.is_some() { "+syn" } else { "" }
                );
                let info = format!(
                    "i:{}:{}:{}:{}:{}",
                    c.op,
                    kind,
                    if lx.is_some() { "listext" } else if c.ext { "ext" } else if c.alias { "alias" } else { "core" },
                    if scrambled { "scr" } else { "lin" },
                    inl
                );
                emit(format!("simstep {} {} {} {}\t{}", info, enc_regs(&pre), enc_heap(&pre), ext, resp));
            }
            match r {
                Ok(Ok(true)) => break,
                Ok(Ok(false)) => {}
                Ok(Err(_)) | Err(_) => break 'forms,
            }
        }
    }
}

fn cmd_run(args: &[String], seed: u64) {
    let nprog: usize = args[0].parse().unwrap();
    let per: usize = args[1].parse().unwrap();
    let mut rng = Rng::new(seed ^ 0x5157e9);
    let progs = gen_programs(&mut rng, nprog, seed);
    let stdout = std::io::stdout();
    let mut out = std::io::BufWriter::new(stdout.lock());
    // how often each class has been recorded so far (rarest first when choosing)
    let mut taken: HashMap<String, usize> = HashMap::new();
    let mut total = 0usize;
    for prog in &progs {
        // pass 1: which instruction has which class
        let mut occ: BTreeMap<String, Vec<u64>> = BTreeMap::new();
        run_program(
            prog,
            false,
            &mut |n, c| {
                occ.entry(c.key()).or_default().push(n);
                false
            },
            &mut |_| {},
        );
        // choose: round-robin over the classes present, globally rarest class first, a random occurrence each
        let mut chosen: Vec<u64> = vec![];
        let mut round = 0;
        let per = if prog.patch == Some(0) { per * 3 } else { per };
        while chosen.len() < per && round < 4 {
            let mut keys: Vec<&String> = occ.keys().collect();
            keys.sort_by_key(|k| (taken.get(*k).copied().unwrap_or(0), (*k).clone()));
            let mut progress = false;
            for k in keys {
                if chosen.len() >= per {
                    break;
                }
                let v = &occ[k];
                let cand: Vec<u64> = v.iter().filter(|n| !chosen.contains(n)).copied().collect();
                if cand.is_empty() {
                    continue;
                }
                // the first round prefers the first occurrence half of the time (fresh heap), later rounds are uniform
                let pick = if round == 0 && rng.chance(1, 2) { cand[0] } else { *rng.pick(&cand) };
                chosen.push(pick);
                *taken.entry(k.clone()).or_insert(0) += 1;
                progress = true;
            }
            if !progress {
                break;
            }
            round += 1;
        }
        // pass 2: the same program again, recording the chosen instructions
        run_program(
            prog,
            false,
            &mut |n, _| chosen.contains(&n),
            &mut |line| {
                total += 1;
                writeln!(out, "{}", line).unwrap();
            },
        );
        if std::env::var("VERIF_DEBUG_CASE").is_ok() {
            eprintln!("{} gc={:?} classes={} chosen={}", prog.label, prog.gc_every, occ.len(), chosen.len());
        }
    }
    let mut t: Vec<(String, usize)> = taken.into_iter().collect();
    t.sort();
    eprintln!("lines: {} classes: {:?}", total, t);
}

/// the six out-of-structure operand probes, every instruction recorded
fn cmd_probe() {
    let stdout = std::io::stdout();
    let mut out = std::io::BufWriter::new(stdout.lock());
    for w in 14..20 {
        let prog = Program {
            label: format!("probe{}", w),
            forms: split_forms("(define (syn a b) (lambda () (list a b)) (list a b)) (syn 1 2)"),
            gc_every: None,
            patch: Some(w),
            fill: None,
        };
        let mut last = String::new();
        run_program(&prog, false, &mut |_, _| true, &mut |line| last = line);
        // only the last recorded instruction (the probe itself) is of interest
        writeln!(out, "{}", last).unwrap();
    }
}

/// every instruction of hand-assembled program 0, recorded: the real-VM witness that `Plain` is not an invariant of
/// `run_one` over arbitrary bytecode (`MOV Ptr(closure) GlobalEnvSlot` leaves an inline `Closure` in a global slot)
fn cmd_witness() {
    let stdout = std::io::stdout();
    let mut out = std::io::BufWriter::new(stdout.lock());
    let prog = Program {
        label: "witness0".to_string(),
        forms: split_forms("(define (syn a b) (lambda () (list a b)) (list a b)) (syn 1 2)"),
        gc_every: None,
        patch: Some(0),
        fill: None,
    };
    run_program(&prog, false, &mut |_, _| true, &mut |line| writeln!(out, "{}", line).unwrap());
}

fn main() {
    silence_panics();
    let args: Vec<String> = std::env::args().skip(1).collect();
    let seed: u64 = std::env::var("VERIF_SEED").ok().and_then(|s| s.parse().ok()).unwrap_or(1);
    match args.first().map(|s| s.as_str()) {
        Some("run") if args.len() >= 3 => cmd_run(&args[1..], seed),
        Some("runlx") if args.len() >= 3 => cmd_runlx(&args[1..], seed),
        Some("probe") => cmd_probe(),
        Some("witness") => cmd_witness(),
        Some("prep") if args.len() >= 2 => prep_forms::cmd_prep(&args[1..], seed),
        _ => {
            eprintln!("usage: simstep run <programs> <lines-per-program>");
            std::process::exit(2);
        }
    }
}
