//! C02 — lexical scoping: scope-skeleton probe programs.
//!
//! A skeleton is a nest of procedures L1 ⊃ … ⊃ Ld over the names a b c (0 1 2); every level binds
//! each name as a fixed parameter, the rest parameter or an internal definition, or leaves it free.
//! Every value ever bound or assigned is a fresh integer from a global counter, every reference
//! goes through `(rd site x)` and every assignment through `(set! x (wr site e))`, so the log of
//! (site . value) pairs identifies for each read which write it reads from.
//!
//! Output lines (`request \t impl \t spec-request`):
//!   `scope-run <program>`     values of the top-level forms and the event log, real VM form by form
//!                             (spec-request `scope-spec <program>`: the definitional interpreter)
//!   `scope-envmap <program>`  environment maps and the binding location of every reference of every
//!                             lambda the real compiler produced, canonical by name (model only)
use marwood::cell::Cell;
use marwood::vm::Vm;
use mwv::rng::Rng;
use mwv::session::*;
use mwv::wire::*;
use std::io::Write;

fn seed() -> u64 {
    std::env::var("VERIF_SEED").ok().and_then(|s| s.parse().ok()).unwrap_or(1)
}

// ------------------------------------------------------------------ the skeleton language

#[derive(Clone, Debug)]
enum Ex {
    Fresh,
    Ref(u32, u32),
    Set(u32, u32, Box<Ex>),
    Lam { ps: Vec<u32>, rest: Option<u32>, ds: Vec<(u32, bool, Ex)>, body: Vec<Ex> },
    Call(Box<Ex>, Vec<Ex>),
    Seq(Vec<Ex>),
    Loop(u32, Box<Ex>),
    Each(Box<Ex>, Vec<Ex>),
}

#[derive(Clone, Debug)]
enum Top {
    Define(u32, Ex),
    Expr(Ex),
}

const K: u32 = 3; // holds the inner closure
const I: u32 = 4; // loop variable
const G0: u32 = 10; // top-level holders g0 g1 …

fn name(n: u32) -> String {
    match n {
        0 => "a".into(),
        1 => "b".into(),
        2 => "c".into(),
        3 => "k".into(),
        4 => "i".into(),
        5 => "d".into(),
        6 => "e".into(),
        n if n >= 10 && n < 100 => format!("g{}", n - 10),
        1000 => "tick".into(),
        1001 => "rd".into(),
        1002 => "wr".into(),
        1003 => "times".into(),
        1004 => "each".into(),
        1005 => "list".into(),
        n => format!("v{}", n),
    }
}

fn unname(s: &str) -> Option<u32> {
    let n = match s {
        "a" => 0,
        "b" => 1,
        "c" => 2,
        "k" => 3,
        "i" => 4,
        "d" => 5,
        "e" => 6,
        "tick" => 1000,
        "rd" => 1001,
        "wr" => 1002,
        "times" => 1003,
        "each" => 1004,
        "list" => 1005,
        _ => {
            let (h, t) = s.split_at(1.min(s.len()));
            let k: u32 = t.parse().ok()?;
            match h {
                "g" => k + 10,
                "v" => k,
                _ => return None,
            }
        }
    };
    if name(n) == s {
        Some(n)
    } else {
        None
    }
}

fn formals(head: Option<u32>, ps: &[u32], rest: &Option<u32>) -> String {
    let mut items: Vec<String> = vec![];
    if let Some(h) = head {
        items.push(name(h));
    }
    items.extend(ps.iter().map(|p| name(*p)));
    match rest {
        None => format!("({})", items.join(" ")),
        Some(r) if items.is_empty() => name(*r),
        Some(r) => format!("({} . {})", items.join(" "), name(*r)),
    }
}

fn lam_body(ds: &[(u32, bool, Ex)], body: &[Ex], out: &mut String) {
    for (x, sugar, e) in ds {
        out.push(' ');
        match (sugar, e) {
            (true, Ex::Lam { ps, rest, ds, body }) => {
                out.push_str("(define ");
                out.push_str(&formals(Some(*x), ps, rest));
                lam_body(ds, body, out);
                out.push(')');
            }
            _ => {
                out.push_str(&format!("(define {} ", name(*x)));
                scheme(e, out);
                out.push(')');
            }
        }
    }
    for e in body {
        out.push(' ');
        scheme(e, out);
    }
}

fn scheme(e: &Ex, out: &mut String) {
    match e {
        Ex::Fresh => out.push_str("(tick)"),
        Ex::Ref(s, x) => out.push_str(&format!("(rd {} {})", s, name(*x))),
        Ex::Set(s, x, e) => {
            out.push_str(&format!("(set! {} (wr {} ", name(*x), s));
            scheme(e, out);
            out.push_str("))");
        }
        Ex::Lam { ps, rest, ds, body } => {
            out.push_str("(lambda ");
            out.push_str(&formals(None, ps, rest));
            lam_body(ds, body, out);
            out.push(')');
        }
        Ex::Call(f, args) => {
            out.push('(');
            scheme(f, out);
            for a in args {
                out.push(' ');
                scheme(a, out);
            }
            out.push(')');
        }
        Ex::Seq(es) => {
            out.push_str("(begin");
            for a in es {
                out.push(' ');
                scheme(a, out);
            }
            out.push(')');
        }
        Ex::Loop(n, f) => {
            out.push_str(&format!("(times {} ", n));
            scheme(f, out);
            out.push(')');
        }
        Ex::Each(l, args) => {
            out.push_str("(each ");
            scheme(l, out);
            out.push_str(" (list");
            for a in args {
                out.push(' ');
                scheme(a, out);
            }
            out.push_str("))");
        }
    }
}

fn top_scheme(t: &Top) -> String {
    let mut s = String::new();
    match t {
        Top::Define(x, e) => {
            s.push_str(&format!("(define {} ", name(*x)));
            scheme(e, &mut s);
            s.push(')');
        }
        Top::Expr(e) => scheme(e, &mut s),
    }
    s
}

fn wire(e: &Ex, out: &mut Vec<String>) {
    match e {
        Ex::Fresh => out.push("F".into()),
        Ex::Ref(s, x) => out.extend(["R".to_string(), s.to_string(), x.to_string()]),
        Ex::Set(s, x, e) => {
            out.extend(["S".to_string(), s.to_string(), x.to_string()]);
            wire(e, out);
        }
        Ex::Lam { ps, rest, ds, body } => {
            out.push("L".into());
            out.push(ps.len().to_string());
            out.extend(ps.iter().map(|p| p.to_string()));
            out.push(match rest {
                Some(r) => r.to_string(),
                None => "-".into(),
            });
            out.push(ds.len().to_string());
            for (x, sugar, e) in ds {
                out.push(x.to_string());
                // the sugared rendering exists only for lambda values
                out.push(if *sugar && matches!(e, Ex::Lam { .. }) { "1".into() } else { "0".into() });
                wire(e, out);
            }
            out.push(body.len().to_string());
            for e in body {
                wire(e, out);
            }
        }
        Ex::Call(f, args) => {
            out.push("C".into());
            wire(f, out);
            out.push(args.len().to_string());
            for a in args {
                wire(a, out);
            }
        }
        Ex::Seq(es) => {
            out.push("B".into());
            out.push(es.len().to_string());
            for a in es {
                wire(a, out);
            }
        }
        Ex::Loop(n, f) => {
            out.push("T".into());
            out.push(n.to_string());
            wire(f, out);
        }
        Ex::Each(l, args) => {
            out.push("A".into());
            wire(l, out);
            out.push(args.len().to_string());
            for a in args {
                wire(a, out);
            }
        }
    }
}

fn program_wire(p: &[Top]) -> String {
    let mut out = vec![p.len().to_string()];
    for t in p {
        match t {
            Top::Define(x, e) => {
                out.push("D".into());
                out.push(x.to_string());
                wire(e, &mut out);
            }
            Top::Expr(e) => {
                out.push("E".into());
                wire(e, &mut out);
            }
        }
    }
    out.join(" ")
}

// ------------------------------------------------------------------ skeleton generator

#[derive(Clone, Copy, PartialEq, Debug)]
enum Kind {
    Param,
    Rest,
    Idef,
}

#[derive(Clone, Copy, PartialEq, Debug)]
enum Mode {
    Inside, // inner closure invoked once inside its creator
    Twice,  // … twice, with the creator's assignments in between
    Return, // … returned; whoever called the creator invokes it after the creator returned
    Loop,   // two closures created by two iterations of a loop, each invoked twice
}

#[derive(Clone, Debug)]
struct Level {
    binds: Vec<(u32, Kind)>, // in name order; at most one Rest
    mode: Mode,
    set_before: bool, // assignments to every name before the inner closure is created
    set_after: bool,  // … after it was created / invoked
    create: u8,       // 0: (set! k <lambda>), 1: (define k <lambda>), 2: (define (k . formals) …)
    extra: usize,     // surplus arguments when this level has a rest parameter
    wrap: bool,       // assignments wrapped in (begin …), i.e. in one more procedure
}

struct Gen {
    site: u32,
    names: Vec<u32>,
    levels: Vec<Level>,
}

impl Gen {
    fn s(&mut self) -> u32 {
        self.site += 1;
        self.site
    }
    fn reads(&mut self) -> Vec<Ex> {
        let names = self.names.clone();
        names.iter().map(|x| Ex::Ref(self.s(), *x)).collect()
    }
    fn sets(&mut self, wrap: bool) -> Vec<Ex> {
        let names = self.names.clone();
        let v: Vec<Ex> = names.iter().map(|x| Ex::Set(self.s(), *x, Box::new(Ex::Fresh))).collect();
        if wrap {
            vec![Ex::Seq(v)]
        } else {
            v
        }
    }
    /// operands for a call of level `i` (0-based)
    fn args(&self, i: usize) -> Vec<Ex> {
        let l = &self.levels[i];
        let fixed = l.binds.iter().filter(|b| b.1 == Kind::Param).count();
        let extra = if l.binds.iter().any(|b| b.1 == Kind::Rest) { l.extra } else { 0 };
        vec![Ex::Fresh; fixed + extra]
    }
    /// invoke the closure (or list of closures) `base` of level `i`, and whatever it returns while
    /// the levels return their inner closures
    fn invoke(&mut self, i: usize, base: Ex, is_list: bool) -> Ex {
        let a = self.args(i);
        let c = if is_list { Ex::Each(Box::new(base), a) } else { Ex::Call(Box::new(base), a) };
        if i + 1 < self.levels.len() && self.levels[i].mode == Mode::Return {
            self.invoke(i + 1, c, is_list)
        } else {
            c
        }
    }
    fn level(&mut self, i: usize) -> Ex {
        let l = self.levels[i].clone();
        let ps: Vec<u32> = l.binds.iter().filter(|b| b.1 == Kind::Param).map(|b| b.0).collect();
        let rest = l.binds.iter().find(|b| b.1 == Kind::Rest).map(|b| b.0);
        let mut ds: Vec<(u32, bool, Ex)> =
            l.binds.iter().filter(|b| b.1 == Kind::Idef).map(|b| (b.0, false, Ex::Fresh)).collect();
        let mut body = vec![];
        if i + 1 == self.levels.len() {
            body.extend(self.reads());
            body.extend(self.sets(l.wrap));
            body.extend(self.reads());
            return Ex::Lam { ps, rest, ds, body };
        }
        let inner = self.level(i + 1);
        let looped = l.mode == Mode::Loop;
        let made = if looped {
            let s = self.s();
            Ex::Loop(2, Box::new(Ex::Lam { ps: vec![I], rest: None, ds: vec![], body: vec![Ex::Ref(s, I), inner] }))
        } else {
            inner
        };
        body.extend(self.reads());
        if l.set_before {
            body.extend(self.sets(false));
        }
        if l.create == 0 || looped {
            ds.push((K, false, Ex::Fresh));
            body.push(Ex::Set(self.s(), K, Box::new(made)));
        } else {
            ds.push((K, l.create == 2, made));
        }
        match l.mode {
            Mode::Inside => {
                let r = Ex::Ref(self.s(), K);
                body.push(self.invoke(i + 1, r, false));
                if l.set_after {
                    body.extend(self.sets(l.wrap));
                }
                body.extend(self.reads());
            }
            Mode::Twice | Mode::Loop => {
                let r = Ex::Ref(self.s(), K);
                body.push(self.invoke(i + 1, r, looped));
                if l.set_after {
                    body.extend(self.sets(l.wrap));
                }
                let r = Ex::Ref(self.s(), K);
                body.push(self.invoke(i + 1, r, looped));
                body.extend(self.reads());
            }
            Mode::Return => {
                if l.set_after {
                    body.extend(self.sets(l.wrap));
                }
                body.extend(self.reads());
                body.push(Ex::Ref(self.s(), K));
            }
        }
        Ex::Lam { ps, rest, ds, body }
    }
    fn program(&mut self) -> Vec<Top> {
        let mut p = vec![];
        for x in self.names.clone() {
            p.push(Top::Define(x, Ex::Fresh));
        }
        let l1 = self.level(0);
        p.push(Top::Define(G0, l1));
        for _ in 0..2 {
            // two activations of the outermost procedure
            let r = Ex::Ref(self.s(), G0);
            let e = self.invoke(0, r, false);
            p.push(Top::Expr(e));
            let rd = self.reads();
            p.push(Top::Expr(Ex::Seq(rd)));
        }
        // closures that outlived their creators, held in globals and invoked repeatedly
        let d = self.levels.len();
        let mut j = 0;
        while j + 1 < d && self.levels[j].mode == Mode::Return {
            let r = Ex::Ref(self.s(), G0 + j as u32);
            let a = self.args(j);
            p.push(Top::Define(G0 + j as u32 + 1, Ex::Call(Box::new(r), a)));
            for _ in 0..2 {
                let r = Ex::Ref(self.s(), G0 + j as u32 + 1);
                let e = self.invoke(j + 1, r, false);
                p.push(Top::Expr(e));
            }
            let rd = self.reads();
            p.push(Top::Expr(Ex::Seq(rd)));
            j += 1;
        }
        p
    }
    /// the "keep" driver (link mode for chains of returned closures): at every level of the chain the
    /// SAME closure is activated twice and both returned closures are kept (`g40+2j`, `g41+2j`);
    /// the first is invoked, then the second, then the first again — so a binding created by the
    /// earlier activation is observed after the later activation of the same closure has run
    /// ("separate activations get separate locations", also for levels without formals whose only
    /// bindings are internal definitions) — and the chain goes on from the first.
    fn program_keep(&mut self) -> Vec<Top> {
        let mut p = vec![];
        for x in self.names.clone() {
            p.push(Top::Define(x, Ex::Fresh));
        }
        let l1 = self.level(0);
        p.push(Top::Define(G0, l1));
        let d = self.levels.len();
        let mut j = 0;
        while j + 1 < d && self.levels[j].mode == Mode::Return {
            let h1 = G0 + 30 + 2 * j as u32;
            let h2 = h1 + 1;
            for h in [h1, h2] {
                let r = Ex::Ref(self.s(), G0 + j as u32);
                let a = self.args(j);
                p.push(Top::Define(h, Ex::Call(Box::new(r), a)));
            }
            for h in [h1, h2, h1] {
                let r = Ex::Ref(self.s(), h);
                let e = self.invoke(j + 1, r, false);
                p.push(Top::Expr(e));
            }
            let rd = self.reads();
            p.push(Top::Expr(Ex::Seq(rd)));
            let r = Ex::Ref(self.s(), h1);
            p.push(Top::Define(G0 + j as u32 + 1, r));
            j += 1;
        }
        p
    }
}

/// the exhaustive family: depth d, which of a b c every level binds (bits), binder-kind scheme
/// ks ∈ 0..3 (level i, name j gets kind (i+j+ks) mod 3 of parameter / rest / internal define, a
/// second rest falls back to parameter), uniform link mode, placement p ∈ 0..4
fn skeleton(d: usize, bits: u32, ks: usize, mode: usize, p: usize) -> Vec<Top> {
    let mut g = Gen { site: 0, names: vec![0, 1, 2], levels: skeleton_levels(d, bits, ks, mode, p) };
    g.program()
}

fn skeleton_levels(d: usize, bits: u32, ks: usize, mode: usize, p: usize) -> Vec<Level> {
    let mut levels = vec![];
    for i in 0..d {
        let mut binds = vec![];
        let mut have_rest = false;
        for j in 0..3usize {
            if bits >> (3 * i + j) & 1 == 1 {
                let mut k = [Kind::Param, Kind::Rest, Kind::Idef][(i + j + ks) % 3];
                if k == Kind::Rest {
                    if have_rest {
                        k = Kind::Param;
                    }
                    have_rest = true;
                }
                binds.push((j as u32, k));
            }
        }
        levels.push(Level {
            binds,
            mode: [Mode::Inside, Mode::Twice, Mode::Return, Mode::Loop][mode],
            set_before: p & 1 == 1,
            set_after: p & 2 == 2,
            create: ((ks + i) % 3) as u8,
            extra: (ks + i) % 3,
            wrap: (ks + i + p) % 2 == 1,
        });
    }
    levels
}

fn exhaustive_count(d: usize) -> u64 {
    (1u64 << (3 * d)) * 3 * 4 * 4
}

fn exhaustive_nth(d: usize, idx: u64) -> Vec<Top> {
    let mut n = idx;
    let p = (n % 4) as usize;
    n /= 4;
    let mode = (n % 4) as usize;
    n /= 4;
    let ks = (n % 3) as usize;
    n /= 3;
    skeleton(d, n as u32, ks, mode, p)
}

/// the keep family: the skeletons of the exhaustive family whose levels all return their inner
/// closure (bits × kind scheme × placement), driven by `Gen::program_keep`
fn keep_count(d: usize) -> u64 {
    (1u64 << (3 * d)) * 3 * 4
}

fn keep_nth(d: usize, idx: u64) -> Vec<Top> {
    let mut n = idx;
    let p = (n % 4) as usize;
    n /= 4;
    let ks = (n % 3) as usize;
    n /= 3;
    let mut g = Gen { site: 0, names: vec![0, 1, 2], levels: skeleton_levels(d, n as u32, ks, 2, p) };
    g.program_keep()
}

/// the full product of binder kinds: every level binds each of a b c as fixed parameter, rest
/// parameter, internal definition or not at all (at most one rest parameter per level: 54 patterns
/// per level). `variant` ∈ 0..16 selects link mode and placement; creation form, surplus arguments
/// and wrapping rotate with the level.
const KIND_PATTERNS: usize = 54;

fn kind_pattern(n: usize) -> Vec<(u32, Kind)> {
    // n-th of the 54 valid assignments of {free, param, rest, idef} to (a, b, c)
    let mut k = 0;
    for code in 0..64usize {
        let ks = [code % 4, (code / 4) % 4, code / 16];
        if ks.iter().filter(|x| **x == 2).count() > 1 {
            continue;
        }
        if k == n {
            let mut v = vec![];
            for (j, x) in ks.iter().enumerate() {
                match x {
                    1 => v.push((j as u32, Kind::Param)),
                    2 => v.push((j as u32, Kind::Rest)),
                    3 => v.push((j as u32, Kind::Idef)),
                    _ => {}
                }
            }
            return v;
        }
        k += 1;
    }
    vec![]
}

fn kinds_count(d: usize, variants: u64) -> u64 {
    (KIND_PATTERNS as u64).pow(d as u32) * variants
}

fn kinds_nth(d: usize, variants: u64, idx: u64) -> Vec<Top> {
    let mut n = idx;
    // with fewer than 16 variants per pattern the variant rotates with the pattern index
    let variant = if variants == 16 { let v = n % 16; n /= 16; v } else { n % 16 } as usize;
    let (mode, p) = (variant % 4, variant / 4);
    let mut levels = vec![];
    for i in 0..d {
        let pat = (n % KIND_PATTERNS as u64) as usize;
        n /= KIND_PATTERNS as u64;
        levels.push(Level {
            binds: kind_pattern(pat),
            mode: [Mode::Inside, Mode::Twice, Mode::Return, Mode::Loop][mode],
            set_before: p & 1 == 1,
            set_after: p & 2 == 2,
            create: ((pat + i) % 3) as u8,
            extra: (pat / 3 + i) % 3,
            wrap: (pat + i + p) % 2 == 1,
        });
    }
    let mut g = Gen { site: 0, names: vec![0, 1, 2], levels };
    g.program()
}

/// beyond the bound: up to 6 levels over up to 5 names, every choice independent per level
fn random_skeleton(rng: &mut Rng) -> Vec<Top> {
    let d = 1 + rng.below(6) as usize;
    let nn = 2 + rng.below(4) as usize;
    let pool = [0u32, 1, 2, 5, 6];
    let names: Vec<u32> = pool[..nn].to_vec();
    let mut levels = vec![];
    for _ in 0..d {
        let mut binds = vec![];
        let mut have_rest = false;
        for x in &names {
            if rng.chance(1, 2) {
                let mut k = *rng.pick(&[Kind::Param, Kind::Rest, Kind::Idef, Kind::Param]);
                if k == Kind::Rest {
                    if have_rest {
                        k = Kind::Idef;
                    }
                    have_rest = true;
                }
                binds.push((*x, k));
            }
        }
        levels.push(Level {
            binds,
            mode: *rng.pick(&[Mode::Inside, Mode::Twice, Mode::Return, Mode::Loop]),
            set_before: rng.chance(1, 2),
            set_after: rng.chance(1, 2),
            create: rng.below(3) as u8,
            extra: rng.below(3) as usize,
            wrap: rng.chance(1, 2),
        });
    }
    let mut g = Gen { site: 0, names, levels };
    g.program()
}

// ------------------------------------------------------------------ the real VM

const PROLOGUE: &[&str] = &[
    "(define tick-n 0)",
    "(define (tick) (set! tick-n (+ tick-n 1)) tick-n)",
    "(define log '())",
    "(define (rd s v) (set! log (cons (cons s v) log)) v)",
    "(define (wr s v) (set! log (cons (cons s v) log)) v)",
    "(define (times n f) (if (= n 0) '() (cons (f (tick)) (times (- n 1) f))))",
    "(define (each l args) (if (null? l) '() (cons (apply (car l) args) (each (cdr l) args))))",
];

fn fresh_vm() -> Vm {
    let (mut vm, _log) = new_vm();
    for f in PROLOGUE {
        eval_form(&mut vm, f).expect("prologue");
    }
    vm
}

fn val(c: &Cell, out: &mut String) {
    match c {
        Cell::Number(n) => out.push_str(&format!("{}", n)),
        Cell::Procedure(_) => out.push('p'),
        Cell::Nil => out.push_str("()"),
        Cell::Void => out.push('v'),
        Cell::Undefined => out.push('u'),
        Cell::Pair(a, d) => {
            out.push('(');
            val(a, out);
            let mut d: &Cell = d;
            loop {
                match d {
                    Cell::Nil => break,
                    Cell::Pair(a, nd) => {
                        out.push('_');
                        val(a, out);
                        d = nd;
                    }
                    other => {
                        out.push_str("_._");
                        val(other, out);
                        break;
                    }
                }
            }
            out.push(')');
        }
        _ => out.push('?'),
    }
}

fn log_render(c: &Cell) -> String {
    // the log is consed most recent first
    let mut items = vec![];
    let mut c = c;
    while let Cell::Pair(a, d) = c {
        if let Cell::Pair(s, v) = a.as_ref() {
            let mut t = String::new();
            val(s, &mut t);
            t.push('=');
            val(v, &mut t);
            items.push(t);
        } else {
            items.push("?".into());
        }
        c = d;
    }
    items.reverse();
    items.join(",")
}

/// canonical rendering of a compiled lambda: formals, environment map with every entry followed
/// along its IofEnvironment links (by name, sorted), and in code order the binding of every
/// variable operand and every nested lambda
fn render_lambda(vm: &Vm, chain: &[&marwood::vm::lambda::Lambda], depth: usize) -> String {
    use marwood::vm::environment::BindingSource;
    use marwood::vm::vcell::VCell;
    let lam = chain[chain.len() - 1];
    let cells = vm.verif_heap().verif_cells();
    let sym = |v: &VCell| -> String {
        match v {
            VCell::Ptr(p) => match cells.get(*p) {
                Some(VCell::Symbol(s)) => match unname(s) {
                    Some(n) => n.to_string(),
                    None => format!("?{}", s),
                },
                _ => "?".into(),
            },
            _ => "?".into(),
        }
    };
    // follow one entry down the chain of enclosing lambdas
    fn follow(chain: &[&marwood::vm::lambda::Lambda], level: usize, slot: usize, want: &VCell) -> String {
        let lam = chain[level];
        match lam.envmap.get_map().get(slot) {
            None => "!range".into(),
            Some((s, src)) => {
                if s != want {
                    return "!name".into();
                }
                match src {
                    BindingSource::Global => "g".into(),
                    BindingSource::Argument(n) => format!("a{}", n),
                    BindingSource::InternalDefinition => "i".into(),
                    BindingSource::IofArgument(n) => format!("f{}", n),
                    BindingSource::IofEnvironment(k) => {
                        if level == 0 {
                            "e>!top".into()
                        } else {
                            format!("e>{}", follow(chain, level - 1, *k, want))
                        }
                    }
                }
            }
        }
    }
    let level = chain.len() - 1;
    let args: Vec<String> = lam.args.iter().map(|a| sym(a)).collect();
    let mut env: Vec<String> = lam
        .envmap
        .get_map()
        .iter()
        .enumerate()
        .map(|(i, (s, _))| format!("{}:{}", sym(s), follow(chain, level, i, s)))
        .collect();
    env.sort();
    let mut code = vec![];
    for c in &lam.bc {
        match c {
            VCell::GlobalEnvSlot(n) => match vm.verif_globenv().get_symbol(*n) {
                Some(p) => code.push(format!("G{}", sym(&VCell::Ptr(p)))),
                None => code.push("G?".into()),
            },
            VCell::LexicalEnvSlot(n) => match lam.envmap.get_map().get(*n) {
                Some((s, _)) => code.push(format!("S{}:{}", sym(s), follow(chain, level, *n, s))),
                None => code.push("S?".into()),
            },
            VCell::BasePointerOffset(i) => code.push(format!("R{}", i)),
            VCell::Ptr(p) => {
                if let Some(VCell::Lambda(l)) = cells.get(*p) {
                    if depth < 64 {
                        let mut ch: Vec<&marwood::vm::lambda::Lambda> = chain.to_vec();
                        ch.push(l);
                        code.push(render_lambda(vm, &ch, depth + 1));
                    }
                }
            }
            _ => {}
        }
    }
    format!("L[{};{};{};{}]", args.join(","), lam.is_vararg as u8, env.join("|"), code.join(","))
}

/// run one program form by form in `vm`; returns (values|log, environment maps)
fn run_program(vm: &mut Vm, p: &[Top]) -> (String, String) {
    let _ = eval_form(vm, "(set! tick-n 0)");
    let _ = eval_form(vm, "(set! log '())");
    let mut results = vec![];
    let mut maps = vec![];
    for t in p {
        let text = top_scheme(t);
        let r = catch(std::panic::AssertUnwindSafe(|| -> Result<(String, String), String> {
            let (cell, _) = marwood::parse::parse_text(&text).map_err(|_| "err:parse".to_string())?;
            if let Err(e) = vm.prepare_eval(&cell) {
                return Err(format!("err:{}", error_class(&e)));
            }
            let map = {
                use marwood::vm::vcell::VCell;
                let ip = vm.verif_regs().2;
                let cells = vm.verif_heap().verif_cells();
                match &cells[ip.0] {
                    VCell::Lambda(entry) => match entry.bc.get(3) {
                        Some(VCell::Ptr(q)) => match &cells[*q] {
                            VCell::Lambda(l) => render_lambda(vm, &[l], 0),
                            _ => "?".into(),
                        },
                        _ => "?".into(),
                    },
                    _ => "?".into(),
                }
            };
            match vm.run() {
                Ok(c) => {
                    let mut s = String::new();
                    val(&c, &mut s);
                    Ok((s, map))
                }
                Err(e) => Ok((format!("err:{}", error_class(&e)), map)),
            }
        }));
        match r {
            Ok(Ok((v, m))) => {
                results.push(v);
                maps.push(m);
            }
            Ok(Err(e)) => {
                results.push(e);
                maps.push("-".into());
            }
            Err(site) => {
                results.push(format!("panic:{}", site.replace(' ', "_")));
                maps.push("-".into());
            }
        }
    }
    let log = match eval_form(vm, "log") {
        Ok(c) => log_render(&c),
        Err(_) => "?".into(),
    };
    (format!("ok {}|{}", results.join(";"), log), format!("ok {}", maps.join(";")))
}

/// T02.2 on the real heap: every `LexicalEnvPtr(e, s)` stored in a lexical environment points at a
/// slot of a lexical environment that does not itself hold a pointer
fn one_level(vm: &Vm) -> String {
    use marwood::vm::vcell::VCell;
    let cells = vm.verif_heap().verif_cells();
    let mut envs = 0usize;
    let mut ptrs = 0usize;
    for (i, c) in cells.iter().enumerate() {
        if let VCell::LexicalEnv(env) = c {
            envs += 1;
            for s in 0..env.slot_len() {
                if let VCell::LexicalEnvPtr(e, t) = env.get(s) {
                    ptrs += 1;
                    match cells.get(e) {
                        Some(VCell::LexicalEnv(owner)) => {
                            if t >= owner.slot_len() {
                                return format!("violated: env {} slot {} points past env {}", i, s, e);
                            }
                            if let VCell::LexicalEnvPtr(_, _) = owner.get(t) {
                                return format!("violated: env {} slot {} points at a pointer", i, s);
                            }
                        }
                        _ => return format!("violated: env {} slot {} points at a non-environment", i, s),
                    }
                }
            }
        }
    }
    let _ = (envs, ptrs);
    "ok".into()
}

fn emit(out: &mut impl Write, vm: &mut Vm, p: &[Top], what: &str) {
    let w = program_wire(p);
    let (run, maps) = run_program(vm, p);
    if what == "both" {
        // checked before the next program's garbage collection can reclaim anything
        writeln!(out, "#oracle one-level-indirection {}\t{}\tok", w, one_level(vm)).unwrap();
    }
    if what != "envmap" {
        writeln!(out, "scope-run {}\t{}\tscope-spec {}", w, run, w).unwrap();
    }
    if what != "run" {
        writeln!(out, "scope-envmap {}\t{}", w, maps).unwrap();
    }
}

fn main() {
    silence_panics();
    let args: Vec<String> = std::env::args().collect();
    let cmd = args.get(1).map(|s| s.as_str()).unwrap_or("");
    let out = std::io::stdout();
    let mut out = std::io::BufWriter::new(out.lock());
    match cmd {
        // exh <depth> <shard> <nshards> [run|envmap|both]: the skeletons idx ≡ shard (mod nshards)
        "exh" => {
            let d: usize = args[2].parse().unwrap();
            let shard: u64 = args[3].parse().unwrap();
            let nshards: u64 = args[4].parse().unwrap();
            let what = args.get(5).map(|s| s.as_str()).unwrap_or("both");
            let mut vm = fresh_vm();
            let total = exhaustive_count(d);
            let mut idx = shard % nshards;
            let mut k = 0u64;
            while idx < total {
                if k % 256 == 255 {
                    vm = fresh_vm();
                }
                let p = exhaustive_nth(d, idx);
                emit(&mut out, &mut vm, &p, what);
                idx += nshards;
                k += 1;
            }
            eprintln!("depth {} shard {}/{}: {} of {} skeletons", d, shard % nshards, nshards, k, total);
        }
        // kexh <depth> <variants:1|16> <shard> <nshards> [what]: the full product of binder kinds
        "kexh" => {
            let d: usize = args[2].parse().unwrap();
            let variants: u64 = args[3].parse().unwrap();
            let shard: u64 = args[4].parse().unwrap();
            let nshards: u64 = args[5].parse().unwrap();
            let what = args.get(6).map(|s| s.as_str()).unwrap_or("both");
            let mut vm = fresh_vm();
            let total = kinds_count(d, variants);
            let mut idx = shard % nshards;
            let mut k = 0u64;
            while idx < total {
                if k % 256 == 255 {
                    vm = fresh_vm();
                }
                let p = kinds_nth(d, variants, idx);
                emit(&mut out, &mut vm, &p, what);
                idx += nshards;
                k += 1;
            }
            eprintln!("kinds depth {} shard {}/{}: {} of {} skeletons", d, shard % nshards, nshards, k, total);
        }
        // keep <depth> <shard> <nshards> [what]: chains of returned closures, every closure of the chain
        // activated twice, both results kept, first / second / first invoked
        "keep" => {
            let d: usize = args[2].parse().unwrap();
            let shard: u64 = args[3].parse().unwrap();
            let nshards: u64 = args[4].parse().unwrap();
            let what = args.get(5).map(|s| s.as_str()).unwrap_or("both");
            let mut vm = fresh_vm();
            let total = keep_count(d);
            let mut idx = shard % nshards;
            let mut k = 0u64;
            while idx < total {
                if k % 256 == 255 {
                    vm = fresh_vm();
                }
                let p = keep_nth(d, idx);
                emit(&mut out, &mut vm, &p, what);
                idx += nshards;
                k += 1;
            }
            eprintln!("keep depth {} shard {}/{}: {} of {} skeletons", d, shard % nshards, nshards, k, total);
        }
        // eval <form>…: evaluate forms after the prologue in a fresh VM (for replays and probes)
        "eval" => {
            let mut vm = fresh_vm();
            for f in &args[2..] {
                let r = catch(std::panic::AssertUnwindSafe(|| render(&eval_form(&mut vm, f))));
                println!("{}\t{}", f, match r { Ok(s) => s, Err(m) => format!("panic {}", m) });
            }
        }
        // rand <n> [what] [salt]: skeletons beyond the bound
        "rand" => {
            let n: usize = args[2].parse().unwrap();
            let what = args.get(3).map(|s| s.as_str()).unwrap_or("both");
            let salt: u64 = args.get(4).and_then(|s| s.parse().ok()).unwrap_or(0);
            let mut rng = Rng::new(seed() ^ 0x5c09e ^ (salt << 32));
            let mut vm = fresh_vm();
            for k in 0..n {
                if k % 256 == 255 {
                    vm = fresh_vm();
                }
                let p = random_skeleton(&mut rng);
                emit(&mut out, &mut vm, &p, what);
            }
        }
        // show <depth> <idx>: the Scheme text of one skeleton (for replays)
        "show" => {
            let d: usize = args[2].parse().unwrap();
            let idx: u64 = args[3].parse().unwrap();
            for f in PROLOGUE {
                println!("{}", f);
            }
            for t in exhaustive_nth(d, idx) {
                println!("{}", top_scheme(&t));
            }
        }
        // showkeep <depth> <idx>: the Scheme text of one skeleton of the keep family
        "showkeep" => {
            let d: usize = args[2].parse().unwrap();
            let idx: u64 = args[3].parse().unwrap();
            for f in PROLOGUE {
                println!("{}", f);
            }
            for t in keep_nth(d, idx) {
                println!("{}", top_scheme(&t));
            }
        }
        // file <path>: corpus of programs in wire form is not parsed back; corpus files hold
        // `depth idx` pairs, one per line
        "corpus" => {
            let text = std::fs::read_to_string(&args[2]).unwrap_or_default();
            let mut vm = fresh_vm();
            for line in text.lines() {
                let f: Vec<&str> = line.split_whitespace().collect();
                if f.len() < 2 || f[0].starts_with('#') {
                    continue;
                }
                let d: usize = f[0].parse().unwrap();
                let idx: u64 = f[1].parse().unwrap();
                let p = exhaustive_nth(d, idx);
                emit(&mut out, &mut vm, &p, "both");
            }
        }
        _ => {
            eprintln!("usage: scope exh D SHARD NSHARDS [run|envmap|both] | keep D SHARD NSHARDS [what] | kexh D VARIANTS SHARD NSHARDS [what] | rand N [what] [salt] | show D IDX | eval FORM… | corpus FILE");
            std::process::exit(2);
        }
    }
}
