//! C01 — evaluation agrees with the language semantics for core and derived forms.
//!
//! Typed generator of sessions (1–12 top-level forms) over the grammar of the property: core forms,
//! the prelude's derived forms, fixed/variadic procedures, apply, eval, higher-order use,
//! definitions and redefinitions of globals between forms, closures returned and called later,
//! quasiquote templates (also inside returned closures), delay/force; no call/cc, no `,@`.
//! Every form is run in a fresh `Vm` form by form; the line is
//!   `eval-session <fuel> F:<features> <form text>…  \t  <results> || <output log>  \t  <same request>`
//! which the Lean driver answers from `Spec.Eval`. The same session is run again in a second fresh
//! VM (`#oracle fresh-vm`) and in a third one preceded by and interleaved with unrelated
//! definitions (`#oracle independence`).
//!
//! Error classes are compared at the granularity R7RS gives them: `unbound`, `not-procedure`,
//! `user` (raised by `error`) and `wrong` (arity / type / range / syntax: "it is an error").
use marwood::cell::Cell;
use marwood::vm::{SystemInterface, Vm};
use mwv::progs::{a, int, l, Sx};
use mwv::rng::Rng;
use mwv::session::error_class;
use mwv::wire::*;
use std::cell::RefCell;
use std::collections::BTreeSet;
use std::io::{BufRead, Write};
use std::rc::Rc;

const FUEL: usize = 600;

fn seed() -> u64 {
    std::env::var("VERIF_SEED").ok().and_then(|s| s.parse().ok()).unwrap_or(1)
}

// ---------------------------------------------------------------- observation

/// datum wire form; procedures carry no description (it is message text)
fn enc(c: &Cell, out: &mut String) {
    match c {
        Cell::Procedure(_) => out.push_str("proc"),
        Cell::Pair(x, d) => {
            out.push_str("pair ");
            enc(x, out);
            out.push(' ');
            enc(d, out);
        }
        Cell::Vector(v) => {
            out.push_str(&format!("vec{}", v.len()));
            for x in v {
                out.push(' ');
                enc(x, out);
            }
        }
        other => out.push_str(&enc_datum(other)),
    }
}

fn enc_s(c: &Cell) -> String {
    let mut s = String::new();
    enc(c, &mut s);
    s
}

#[derive(Debug)]
struct OutLog {
    log: Rc<RefCell<Vec<String>>>,
}

impl SystemInterface for OutLog {
    fn display(&self, cell: &Cell) {
        self.log.borrow_mut().push(format!("d:{}", enc_s(cell)));
    }
    fn write(&self, cell: &Cell) {
        self.log.borrow_mut().push(format!("w:{}", enc_s(cell)));
    }
    fn terminal_dimensions(&self) -> (usize, usize) {
        (80, 24)
    }
    fn time_utc(&self) -> u64 {
        0
    }
}

fn fresh_vm() -> (Vm, Rc<RefCell<Vec<String>>>) {
    let log = Rc::new(RefCell::new(vec![]));
    let mut vm = Vm::new();
    vm.set_system_interface(Box::new(OutLog { log: log.clone() }));
    (vm, log)
}

fn coarse(class: &str) -> &'static str {
    match class {
        "unbound" => "unbound",
        "not-procedure" => "not-procedure",
        "user" => "user",
        "arity" | "type" | "range" | "syntax" => "wrong",
        "internal" => "internal",
        "parse-incomplete" | "parse-other" | "lex" => "unreadable",
        _ => "other",
    }
}

/// evaluate one form with an instruction budget (a generated program that does not terminate must
/// not hang the harness; the specification answers `timeout` for it)
fn eval_budget(vm: &mut Vm, text: &str) -> Result<Cell, marwood::error::Error> {
    let (cell, _) = marwood::parse::parse_text(text)?;
    vm.prepare_eval(&cell)?;
    match vm.run_count(3_000_000)? {
        Some(c) => Ok(c),
        None => Err(marwood::error::Error::InvalidBytecode), // rendered as `err internal`
    }
}

fn run_form(vm: &mut Vm, text: &str) -> String {
    match catch(std::panic::AssertUnwindSafe(|| eval_budget(vm, text))) {
        Ok(Ok(c)) => format!("ok {}", enc_s(&c)),
        Ok(Err(e)) => format!("err {}", coarse(error_class(&e))),
        Err(p) => format!("panic {}", p.replace(['\t', '\n'], " ")),
    }
}

/// results of the forms, joined, plus the output log
fn run_session(forms: &[String], unrelated: Option<&[String]>) -> String {
    let (mut vm, log) = fresh_vm();
    let mut res = vec![];
    if let Some(u) = unrelated {
        // half of the unrelated definitions before the session, the rest interleaved
        for d in &u[..u.len() / 2] {
            let _ = run_form(&mut vm, d);
        }
    }
    for (i, f) in forms.iter().enumerate() {
        res.push(run_form(&mut vm, f));
        if let Some(u) = unrelated {
            let rest = &u[u.len() / 2..];
            if i < rest.len() {
                let _ = run_form(&mut vm, &rest[i]);
            }
        }
    }
    format!("{} || {}", res.join(" | "), log.borrow().join(" "))
}

// ---------------------------------------------------------------- generator

#[derive(Clone, Debug)]
struct Proc {
    name: String,
    fixed: usize,
    variadic: bool,
}

/// `(define (mk a…) (lambda (x…) body))`; `data` = the inner procedure returns a datum (quasiquote)
#[derive(Clone, Debug)]
struct Maker {
    name: String,
    outer: usize,
    inner: usize,
    data: bool,
}

#[derive(Clone, Default)]
struct Sc {
    ints: Vec<String>,
    mints: Vec<String>, // int variables that may be assigned (globals and let-bound)
    bools: Vec<String>,
    lists: Vec<String>,
    procs: Vec<Proc>,
    makers: Vec<Maker>,
    promises: Vec<String>,
    vecs: Vec<(String, usize)>,
    global: bool, // generating at top level (no lambda in between): global names may be assumed defined
    tainted: BTreeSet<String>, // procedures / makers / promises whose use may fail (failure injected in their body)
}

struct Gen {
    rng: Rng,
    fresh: usize,
    feats: BTreeSet<&'static str>,
    fail_per_mille: u64,
    taint: bool,
}

const SYMS: [&str; 6] = ["a", "b", "c", "k", "foo", "bar"];
const CHARS: [&str; 4] = ["#\\a", "#\\b", "#\\x", "#\\0"];
const STRS: [&str; 4] = ["\"\"", "\"a\"", "\"hello\"", "\"two words\""];

impl Gen {
    fn new(seed: u64) -> Gen {
        Gen { rng: Rng::new(seed), fresh: 0, feats: Default::default(), fail_per_mille: 0, taint: false }
    }
    fn fresh(&mut self, base: &str) -> String {
        self.fresh += 1;
        format!("{}{}", base, self.fresh)
    }
    fn feat(&mut self, f: &'static str) {
        self.feats.insert(f);
    }
    fn small(&mut self) -> Sx {
        int(self.rng.range(-9, 20))
    }
    fn pick_s(&mut self, v: &[String]) -> Option<String> {
        if v.is_empty() {
            None
        } else {
            Some(v[self.rng.below(v.len() as u64) as usize].clone())
        }
    }
    /// using `name` may fail: the form that uses it is tainted too
    fn touch(&mut self, sc: &Sc, name: &str) {
        if sc.tainted.contains(name) {
            self.taint = true;
        }
    }
    fn q(x: Sx) -> Sx {
        l(vec![a("quote"), x])
    }

    /// an expression that fails when evaluated, by class
    fn failing(&mut self, sc: &Sc) -> Sx {
        self.taint = true;
        match self.rng.below(7) {
            0 => {
                self.feat("fail:unbound");
                a("unbound-variable-zz")
            }
            1 => {
                self.feat("fail:type");
                l(vec![a("car"), self.small()])
            }
            2 => {
                self.feat("fail:arity");
                l(vec![l(vec![a("lambda"), l(vec![a("x")]), a("x")])])
            }
            3 => {
                self.feat("fail:user");
                l(vec![a("error"), a("\"boom\""), self.int_expr(sc, 0)])
            }
            4 => {
                self.feat("fail:not-procedure");
                l(vec![self.small(), self.small()])
            }
            5 => {
                self.feat("fail:arity-variadic");
                l(vec![l(vec![a("lambda"), a("(p q . r)"), a("p")]), self.small()])
            }
            _ => {
                self.feat("fail:range");
                l(vec![a("vector-ref"), l(vec![a("vector"), int(1), int(2)]), int(2)])
            }
        }
    }

    fn call_args(&mut self, sc: &Sc, n: usize, d: usize) -> Vec<Sx> {
        (0..n).map(|_| self.int_expr(sc, d.min(1))).collect()
    }

    fn int_expr(&mut self, sc: &Sc, depth: usize) -> Sx {
        if self.fail_per_mille > 0 && self.rng.below(1000) < self.fail_per_mille {
            return self.failing(sc);
        }
        if depth == 0 {
            if self.rng.chance(1, 2) {
                if let Some(v) = self.pick_s(&sc.ints) {
                    return a(&v);
                }
            }
            return self.small();
        }
        let d = depth - 1;
        match self.rng.below(40) {
            0 | 1 => {
                let op = *self.rng.pick(&["+", "-", "*"]);
                let n = 1 + self.rng.below(3) as usize;
                let mut v = vec![a(op)];
                for _ in 0..n {
                    v.push(self.int_expr(sc, d));
                }
                l(v)
            }
            2 => {
                self.feat("if");
                l(vec![a("if"), self.bool_expr(sc, d), self.int_expr(sc, d), self.int_expr(sc, d)])
            }
            3 => {
                self.feat("let");
                let x = self.fresh("x");
                let y = self.fresh("y");
                let mut sc2 = sc.clone();
                sc2.ints.push(x.clone());
                sc2.ints.push(y.clone());
                sc2.mints.push(x.clone());
                l(vec![
                    a("let"),
                    l(vec![l(vec![a(&x), self.int_expr(sc, d)]), l(vec![a(&y), self.int_expr(sc, d)])]),
                    self.int_expr(&sc2, d),
                ])
            }
            4 => {
                self.feat("let*");
                let x = self.fresh("x");
                let y = self.fresh("y");
                let mut sc1 = sc.clone();
                sc1.ints.push(x.clone());
                let mut sc2 = sc1.clone();
                sc2.ints.push(y.clone());
                l(vec![
                    a("let*"),
                    l(vec![l(vec![a(&x), self.int_expr(sc, d)]), l(vec![a(&y), self.int_expr(&sc1, d)])]),
                    self.int_expr(&sc2, d),
                ])
            }
            5 | 6 => {
                if sc.procs.is_empty() {
                    return self.int_expr(sc, d);
                }
                self.feat("call");
                let p = sc.procs[self.rng.below(sc.procs.len() as u64) as usize].clone();
                self.touch(sc, &p.name);
                let extra = if p.variadic {
                    self.feat("call-variadic");
                    self.rng.below(3) as usize
                } else {
                    0
                };
                let mut v = vec![a(&p.name)];
                v.extend(self.call_args(sc, p.fixed + extra, d));
                l(v)
            }
            7 => self.apply_expr(sc, d),
            8 => {
                self.feat("lambda-app");
                match self.rng.below(3) {
                    0 => {
                        let x = self.fresh("x");
                        let mut sc2 = sc.clone();
                        sc2.global = false;
                        sc2.ints.push(x.clone());
                        l(vec![l(vec![a("lambda"), l(vec![a(&x)]), self.int_expr(&sc2, d)]), self.int_expr(sc, d)])
                    }
                    1 => {
                        self.feat("lambda-rest");
                        let x = self.fresh("x");
                        let r = self.fresh("r");
                        let mut sc2 = sc.clone();
                        sc2.global = false;
                        sc2.ints.push(x.clone());
                        sc2.lists.push(r.clone());
                        let n = self.rng.below(3) as usize;
                        let mut v = vec![l(vec![
                            a("lambda"),
                            a(&format!("({} . {})", x, r)),
                            l(vec![a("+"), self.int_expr(&sc2, d), l(vec![a("length"), a(&r)])]),
                        ])];
                        v.extend(self.call_args(sc, 1 + n, d));
                        l(v)
                    }
                    _ => {
                        self.feat("lambda-rest-only");
                        let r = self.fresh("r");
                        let n = self.rng.below(4) as usize;
                        let mut v = vec![l(vec![a("lambda"), a(&r), l(vec![a("apply"), a("+"), a(&r)])])];
                        v.extend(self.call_args(sc, n, d));
                        l(v)
                    }
                }
            }
            9 | 10 => self.cond_expr(sc, d),
            11 => {
                self.feat("case");
                match self.rng.below(3) {
                    0 => {
                        let mut v = vec![a("case"), self.int_expr(sc, d)];
                        v.push(l(vec![l(vec![int(0), int(1), int(2)]), self.int_expr(sc, d)]));
                        if self.rng.chance(1, 3) {
                            self.feat("case=>");
                            let k = self.fresh("k");
                            let mut sc2 = sc.clone();
                            sc2.global = false;
                            sc2.ints.push(k.clone());
                            v.push(l(vec![
                                l(vec![int(3), int(-1), int(5)]),
                                a("=>"),
                                l(vec![a("lambda"), l(vec![a(&k)]), self.int_expr(&sc2, d)]),
                            ]));
                        } else {
                            v.push(l(vec![l(vec![int(3), int(-1)]), self.int_expr(sc, d), self.int_expr(sc, d)]));
                        }
                        if self.rng.chance(4, 5) {
                            v.push(l(vec![a("else"), self.int_expr(sc, d)]));
                            l(v)
                        } else {
                            // no else: the value is unspecified when nothing matches, keep it out of the result
                            l(vec![a("begin"), l(v), self.int_expr(sc, d)])
                        }
                    }
                    1 => {
                        self.feat("case-symbol");
                        let s = *self.rng.pick(&SYMS);
                        l(vec![
                            a("case"),
                            Gen::q(a(s)),
                            l(vec![l(vec![a("a"), a("b")]), self.int_expr(sc, d)]),
                            l(vec![l(vec![a("c"), a("foo")]), self.int_expr(sc, d)]),
                            l(vec![a("else"), self.int_expr(sc, d)]),
                        ])
                    }
                    _ => {
                        self.feat("case-char");
                        let c = *self.rng.pick(&CHARS);
                        l(vec![
                            a("case"),
                            a(c),
                            l(vec![l(vec![a("#\\a"), a("#\\0")]), self.int_expr(sc, d)]),
                            l(vec![a("else"), self.int_expr(sc, d)]),
                        ])
                    }
                }
            }
            12 => {
                self.feat("begin");
                if let (true, Some(x)) = (self.rng.chance(1, 2), self.pick_s(&sc.mints)) {
                    self.feat("set!");
                    l(vec![a("begin"), l(vec![a("set!"), a(&x), self.int_expr(sc, d)]), self.int_expr(sc, d)])
                } else {
                    self.feat("display");
                    l(vec![a("begin"), l(vec![a("display"), self.int_expr(sc, d)]), self.int_expr(sc, d)])
                }
            }
            13 => {
                self.feat("named-let");
                let lp = self.fresh("loop");
                let i = self.fresh("i");
                let acc = self.fresh("acc");
                let mut sc2 = sc.clone();
                sc2.global = false;
                sc2.ints.push(i.clone());
                sc2.ints.push(acc.clone());
                l(vec![
                    a("let"),
                    a(&lp),
                    l(vec![l(vec![a(&i), int(self.rng.range(0, 6))]), l(vec![a(&acc), self.int_expr(sc, d.min(1))])]),
                    l(vec![
                        a("if"),
                        l(vec![a("<"), a(&i), int(1)]),
                        a(&acc),
                        l(vec![a(&lp), l(vec![a("-"), a(&i), int(1)]), l(vec![a("+"), a(&acc), self.int_expr(&sc2, d.min(1))])]),
                    ]),
                ])
            }
            14 => {
                self.feat("car/cdr");
                match self.rng.below(3) {
                    0 => l(vec![a("car"), l(vec![a("cons"), self.int_expr(sc, d), self.list_expr(sc, d)])]),
                    1 => l(vec![a("cadr"), l(vec![a("cons"), self.int_expr(sc, d), l(vec![a("cons"), self.int_expr(sc, d), self.list_expr(sc, d)])])]),
                    _ => l(vec![a("length"), self.list_expr(sc, d)]),
                }
            }
            15 => {
                self.feat("vector");
                let n = 1 + self.rng.below(3) as usize;
                let mut v = vec![a("vector")];
                for _ in 0..n {
                    v.push(self.int_expr(sc, d.min(1)));
                }
                let k = self.rng.below(n as u64) as i64;
                if self.rng.chance(1, 2) {
                    l(vec![a("vector-ref"), l(v), int(k)])
                } else {
                    self.feat("vector-set!");
                    let x = self.fresh("v");
                    l(vec![
                        a("let"),
                        l(vec![l(vec![a(&x), l(v)])]),
                        l(vec![a("vector-set!"), a(&x), int(k), self.int_expr(sc, d)]),
                        l(vec![a("+"), l(vec![a("vector-ref"), a(&x), int(k)]), l(vec![a("vector-length"), a(&x)])]),
                    ])
                }
            }
            16 | 17 => self.eval_expr(sc, d),
            18 => {
                self.feat("delay/force");
                if self.rng.chance(1, 2) {
                    l(vec![a("force"), l(vec![a("delay"), self.int_expr(sc, d)])])
                } else {
                    // memoisation: the body runs once
                    self.feat("force-twice");
                    let p = self.fresh("p");
                    let c = self.fresh("c");
                    let mut sc2 = sc.clone();
                    sc2.ints.push(c.clone());
                    l(vec![
                        a("let*"),
                        l(vec![
                            l(vec![a(&c), self.small()]),
                            l(vec![a(&p), l(vec![a("delay"), l(vec![a("begin"), l(vec![a("set!"), a(&c), l(vec![a("+"), a(&c), int(1)])]), self.int_expr(&sc2, d)])])]),
                        ]),
                        l(vec![a("+"), l(vec![a("force"), a(&p)]), l(vec![a("force"), a(&p)]), a(&c)]),
                    ])
                }
            }
            19 => {
                if let Some(p) = self.pick_s(&sc.promises) {
                    self.touch(sc, &p);
                    self.feat("force-global-promise");
                    l(vec![a("force"), a(&p)])
                } else {
                    self.int_expr(sc, d)
                }
            }
            20 => {
                self.feat("and/or-value");
                l(vec![a("or"), l(vec![a("and"), self.bool_expr(sc, d), self.int_expr(sc, d)]), self.int_expr(sc, d)])
            }
            21 => {
                self.feat("letrec");
                if self.rng.chance(1, 2) {
                    let f = self.fresh("f");
                    let n = self.fresh("n");
                    l(vec![
                        a("letrec"),
                        l(vec![l(vec![
                            a(&f),
                            l(vec![
                                a("lambda"),
                                l(vec![a(&n)]),
                                l(vec![
                                    a("if"),
                                    l(vec![a("<"), a(&n), int(1)]),
                                    self.int_expr(sc, d.min(1)),
                                    l(vec![a("+"), int(1), l(vec![a(&f), l(vec![a("-"), a(&n), int(1)])])]),
                                ]),
                            ]),
                        ])]),
                        l(vec![a(&f), int(self.rng.range(0, 5))]),
                    ])
                } else {
                    self.feat("letrec-mutual");
                    let e = self.fresh("ev");
                    let o = self.fresh("od");
                    let n = self.fresh("n");
                    l(vec![
                        a("letrec"),
                        l(vec![
                            l(vec![a(&e), l(vec![a("lambda"), l(vec![a(&n)]), l(vec![a("if"), l(vec![a("="), a(&n), int(0)]), self.int_expr(sc, 0), l(vec![a(&o), l(vec![a("-"), a(&n), int(1)])])])])]),
                            l(vec![a(&o), l(vec![a("lambda"), l(vec![a(&n)]), l(vec![a("if"), l(vec![a("="), a(&n), int(0)]), self.int_expr(sc, 0), l(vec![a(&e), l(vec![a("-"), a(&n), int(1)])])])])]),
                        ]),
                        l(vec![a(&e), int(self.rng.range(0, 6))]),
                    ])
                }
            }
            22 => {
                self.feat("map");
                let x = self.fresh("x");
                let mut sc2 = sc.clone();
                sc2.global = false;
                sc2.ints.push(x.clone());
                if self.rng.chance(2, 3) {
                    l(vec![a("apply"), a("+"), l(vec![a("map"), l(vec![a("lambda"), l(vec![a(&x)]), self.int_expr(&sc2, d.min(1))]), self.list_expr(sc, d)])])
                } else {
                    self.feat("map-2-lists");
                    l(vec![a("apply"), a("+"), l(vec![a("map"), a(*self.rng.pick(&["+", "*", "-"])), self.list_expr(sc, d), self.list_expr(sc, d)])])
                }
            }
            23 => {
                self.feat("when/unless");
                let w = if self.rng.chance(1, 2) { "when" } else { "unless" };
                let eff = if let Some(x) = self.pick_s(&sc.mints) {
                    l(vec![a("set!"), a(&x), self.int_expr(sc, d)])
                } else {
                    l(vec![a("display"), self.int_expr(sc, d)])
                };
                l(vec![a("begin"), l(vec![a(w), self.bool_expr(sc, d), eff.clone(), eff]), self.int_expr(sc, d)])
            }
            24 => {
                self.feat("internal-define");
                let x = self.fresh("x");
                let y = self.fresh("d");
                let h = self.fresh("h");
                let z = self.fresh("z");
                let mut sc2 = sc.clone();
                sc2.global = false;
                sc2.ints.push(x.clone());
                let e1 = self.int_expr(&sc2, d.min(1));
                sc2.ints.push(y.clone());
                let mut sc3 = sc2.clone();
                sc3.ints.push(z.clone());
                let hb = self.int_expr(&sc3, d.min(1));
                sc2.procs.push(Proc { name: h.clone(), fixed: 1, variadic: false });
                l(vec![
                    l(vec![
                        a("lambda"),
                        l(vec![a(&x)]),
                        l(vec![a("define"), a(&y), e1]),
                        l(vec![a("define"), l(vec![a(&h), a(&z)]), hb]),
                        self.int_expr(&sc2, d),
                    ]),
                    self.int_expr(sc, d),
                ])
            }
            25 => {
                self.feat("higher-order");
                match self.rng.below(3) {
                    0 => {
                        // ((lambda (f x) (f (f x))) (lambda (y) e) e)
                        let f = self.fresh("f");
                        let x = self.fresh("x");
                        let y = self.fresh("y");
                        let mut sc2 = sc.clone();
                        sc2.global = false;
                        sc2.ints.push(y.clone());
                        l(vec![
                            l(vec![a("lambda"), l(vec![a(&f), a(&x)]), l(vec![a(&f), l(vec![a(&f), a(&x)])])]),
                            l(vec![a("lambda"), l(vec![a(&y)]), self.int_expr(&sc2, d.min(1))]),
                            self.int_expr(sc, d),
                        ])
                    }
                    1 => {
                        // a primitive passed as a value
                        let f = self.fresh("f");
                        l(vec![
                            l(vec![a("lambda"), l(vec![a(&f)]), l(vec![a(&f), self.int_expr(sc, d), self.int_expr(sc, d)])]),
                            a(*self.rng.pick(&["+", "*", "-", "max", "min"])),
                        ])
                    }
                    _ => {
                        self.feat("for-each");
                        let s = self.fresh("s");
                        let x = self.fresh("x");
                        l(vec![
                            a("let"),
                            l(vec![l(vec![a(&s), self.small()])]),
                            l(vec![a("for-each"), l(vec![a("lambda"), l(vec![a(&x)]), l(vec![a("set!"), a(&s), l(vec![a("+"), l(vec![a("*"), a(&s), int(2)]), a(&x)])])]), self.list_expr(sc, d)]),
                            a(&s),
                        ])
                    }
                }
            }
            26 | 27 => {
                // a closure returned by a maker, called now
                let ms: Vec<Maker> = sc.makers.iter().filter(|m| !m.data).cloned().collect();
                if ms.is_empty() {
                    return self.int_expr(sc, d);
                }
                self.feat("returned-closure-call");
                let m = ms[self.rng.below(ms.len() as u64) as usize].clone();
                self.touch(sc, &m.name);
                let mut mk = vec![a(&m.name)];
                mk.extend(self.call_args(sc, m.outer, d));
                let mut v = vec![l(mk)];
                v.extend(self.call_args(sc, m.inner, d));
                l(v)
            }
            28 => {
                self.feat("set!-local");
                let x = self.fresh("x");
                let mut sc2 = sc.clone();
                sc2.ints.push(x.clone());
                sc2.mints.push(x.clone());
                l(vec![
                    a("let"),
                    l(vec![l(vec![a(&x), self.int_expr(sc, d)])]),
                    l(vec![a("set!"), a(&x), self.int_expr(&sc2, d)]),
                    self.int_expr(&sc2, d),
                ])
            }
            29 => {
                self.feat("closure-shared-state");
                // two closures over one variable
                let n = self.fresh("n");
                let inc = self.fresh("inc");
                let get = self.fresh("get");
                l(vec![
                    a("let*"),
                    l(vec![
                        l(vec![a(&n), self.int_expr(sc, d.min(1))]),
                        l(vec![a(&inc), l(vec![a("lambda"), l(vec![a("d")]), l(vec![a("set!"), a(&n), l(vec![a("+"), a(&n), a("d")])])])]),
                        l(vec![a(&get), l(vec![a("lambda"), l(vec![]), a(&n)])]),
                    ]),
                    l(vec![a(&inc), self.int_expr(sc, d.min(1))]),
                    l(vec![a(&inc), int(1)]),
                    l(vec![a(&get)]),
                ])
            }
            30 => {
                self.feat("string/char");
                if self.rng.chance(1, 2) {
                    l(vec![a("string-length"), a(*self.rng.pick(&STRS))])
                } else {
                    l(vec![a("char->integer"), a(*self.rng.pick(&CHARS))])
                }
            }
            31 => {
                if let Some((v, n)) = (!sc.vecs.is_empty()).then(|| sc.vecs[self.rng.below(sc.vecs.len() as u64) as usize].clone()) {
                    self.feat("global-vector");
                    let k = self.rng.below(n as u64) as i64;
                    if self.rng.chance(1, 2) {
                        l(vec![a("vector-ref"), a(&v), int(k)])
                    } else {
                        l(vec![a("begin"), l(vec![a("vector-set!"), a(&v), int(k), self.int_expr(sc, d)]), l(vec![a("vector-ref"), a(&v), int(k)])])
                    }
                } else {
                    self.int_expr(sc, d)
                }
            }
            32 => {
                self.feat("quasiquote");
                // a value taken out of a template
                l(vec![a("cadr"), l(vec![a("quasiquote"), l(vec![a("k"), l(vec![a("unquote"), self.int_expr(sc, d)]), a("z")])])])
            }
            33 => {
                self.feat("abs/min/max");
                match self.rng.below(3) {
                    0 => l(vec![a("abs"), self.int_expr(sc, d)]),
                    1 => l(vec![a("min"), self.int_expr(sc, d), self.int_expr(sc, d)]),
                    _ => l(vec![a("max"), self.int_expr(sc, d), self.int_expr(sc, d)]),
                }
            }
            34 => {
                self.feat("if-one-armed");
                l(vec![a("begin"), l(vec![a("if"), self.bool_expr(sc, d), l(vec![a("display"), self.int_expr(sc, d)])]), self.int_expr(sc, d)])
            }
            _ => {
                if depth >= 2 {
                    self.int_expr(sc, d)
                } else if let Some(v) = self.pick_s(&sc.ints) {
                    a(&v)
                } else {
                    self.small()
                }
            }
        }
    }

    fn cond_expr(&mut self, sc: &Sc, d: usize) -> Sx {
        self.feat("cond");
        let mut v = vec![a("cond")];
        for _ in 0..(1 + self.rng.below(3)) {
            match self.rng.below(6) {
                0 => {
                    // a variadic procedure reached through apply inside a cond arm
                    let arm = self.apply_expr(sc, d);
                    v.push(l(vec![self.bool_expr(sc, d), arm]));
                }
                1 => {
                    self.feat("cond=>");
                    let k = self.fresh("k");
                    let mut sc2 = sc.clone();
                    sc2.global = false;
                    sc2.ints.push(k.clone());
                    v.push(l(vec![
                        l(vec![a("and"), self.bool_expr(sc, d), self.int_expr(sc, d)]),
                        a("=>"),
                        l(vec![a("lambda"), l(vec![a(&k)]), self.int_expr(&sc2, d)]),
                    ]));
                }
                2 => {
                    self.feat("cond-test-only");
                    v.push(l(vec![l(vec![a("and"), self.bool_expr(sc, d), self.int_expr(sc, d)])]));
                }
                3 => {
                    v.push(l(vec![self.bool_expr(sc, d), l(vec![a("display"), self.int_expr(sc, 0)]), self.int_expr(sc, d)]));
                }
                _ => v.push(l(vec![self.bool_expr(sc, d), self.int_expr(sc, d)])),
            }
        }
        v.push(l(vec![a("else"), self.int_expr(sc, d)]));
        l(v)
    }

    fn apply_expr(&mut self, sc: &Sc, d: usize) -> Sx {
        if sc.procs.is_empty() {
            self.feat("apply-prim");
            return l(vec![a("apply"), a(*self.rng.pick(&["+", "*", "max"])), self.int_expr(sc, d), l(vec![a("list"), self.int_expr(sc, d), self.int_expr(sc, 0)])]);
        }
        self.feat("apply");
        let vs: Vec<Proc> = sc.procs.iter().filter(|p| p.variadic).cloned().collect();
        let p = if !vs.is_empty() && self.rng.chance(2, 3) {
            self.feat("apply-variadic");
            vs[self.rng.below(vs.len() as u64) as usize].clone()
        } else {
            sc.procs[self.rng.below(sc.procs.len() as u64) as usize].clone()
        };
        self.touch(sc, &p.name);
        let extra = if p.variadic { self.rng.below(3) as usize } else { 0 };
        let n = p.fixed + extra;
        let direct = if n > 0 { self.rng.below(n as u64 + 1) as usize } else { 0 };
        let mut v = vec![a("apply"), a(&p.name)];
        for _ in 0..direct {
            v.push(self.int_expr(sc, 0));
        }
        if self.rng.chance(1, 3) {
            let mut items = vec![];
            for _ in direct..n {
                items.push(self.small());
            }
            v.push(Gen::q(l(items)));
        } else {
            let mut lst = vec![a("list")];
            for _ in direct..n {
                lst.push(self.int_expr(sc, d.min(1)));
            }
            v.push(l(lst));
        }
        l(v)
    }

    fn eval_expr(&mut self, sc: &Sc, d: usize) -> Sx {
        self.feat("eval");
        match self.rng.below(5) {
            0 => l(vec![a("eval"), l(vec![a("list"), Gen::q(a(*self.rng.pick(&["+", "*", "-"]))), self.int_expr(sc, d.min(1)), self.int_expr(sc, d.min(1))])]),
            1 => {
                self.feat("eval-quasiquote");
                l(vec![
                    a("eval"),
                    l(vec![
                        a("quasiquote"),
                        l(vec![a("let"), l(vec![l(vec![a("q"), l(vec![a("unquote"), self.int_expr(sc, d.min(1))])])]), l(vec![a("*"), a("q"), self.small()])]),
                    ]),
                ])
            }
            2 => l(vec![a("eval"), l(vec![a("list"), Gen::q(a("if")), self.bool_expr(sc, d.min(1)), self.int_expr(sc, 0), self.int_expr(sc, 0)])]),
            3 => {
                // a global procedure called from an eval'd form (only where the global is known to be bound)
                let ps: Vec<Proc> = sc.procs.iter().filter(|p| !p.variadic && p.name.starts_with('f')).cloned().collect();
                if ps.is_empty() {
                    return l(vec![a("eval"), Gen::q(l(vec![a("+"), self.small(), self.small()]))]);
                }
                self.feat("eval-calls-global");
                let p = ps[self.rng.below(ps.len() as u64) as usize].clone();
                self.touch(sc, &p.name);
                let mut v = vec![a("list"), Gen::q(a(&p.name))];
                for _ in 0..p.fixed {
                    v.push(self.int_expr(sc, 0));
                }
                l(vec![a("eval"), l(v)])
            }
            _ => {
                self.feat("eval-lambda");
                l(vec![l(vec![a("eval"), Gen::q(l(vec![a("lambda"), l(vec![a("q")]), l(vec![a("+"), a("q"), self.small()])]))]), self.int_expr(sc, d)])
            }
        }
    }

    fn bool_expr(&mut self, sc: &Sc, depth: usize) -> Sx {
        if depth == 0 {
            if self.rng.chance(1, 3) {
                if let Some(v) = self.pick_s(&sc.bools) {
                    return a(&v);
                }
            }
            return a(if self.rng.chance(1, 2) { "#t" } else { "#f" });
        }
        let d = depth - 1;
        match self.rng.below(12) {
            0 | 1 => {
                let op = *self.rng.pick(&["<", "=", ">", "<=", ">="]);
                l(vec![a(op), self.int_expr(sc, d), self.int_expr(sc, d)])
            }
            2 => l(vec![a("not"), self.bool_expr(sc, d)]),
            3 => {
                self.feat("and");
                let mut v = vec![a("and")];
                for _ in 0..self.rng.below(4) {
                    v.push(self.bool_expr(sc, d));
                }
                l(v)
            }
            4 => {
                self.feat("or");
                let mut v = vec![a("or")];
                for _ in 0..self.rng.below(4) {
                    v.push(self.bool_expr(sc, d));
                }
                l(v)
            }
            5 => l(vec![a(*self.rng.pick(&["null?", "pair?", "list?"])), self.list_expr(sc, d)]),
            6 => l(vec![a("eq?"), Gen::q(a(*self.rng.pick(&SYMS))), Gen::q(a(*self.rng.pick(&SYMS)))]),
            7 => l(vec![a("if"), self.bool_expr(sc, d), self.bool_expr(sc, d), self.bool_expr(sc, d)]),
            8 => {
                self.feat("equal?");
                l(vec![a("equal?"), self.list_expr(sc, d), self.list_expr(sc, d)])
            }
            9 => l(vec![a("eqv?"), self.int_expr(sc, d), self.int_expr(sc, d)]),
            10 => {
                self.feat("predicates");
                let p = *self.rng.pick(&["symbol?", "string?", "char?", "integer?", "boolean?", "procedure?", "vector?", "zero?"]);
                if p == "zero?" {
                    l(vec![a(p), self.int_expr(sc, d)])
                } else {
                    let x = match self.rng.below(6) {
                        0 => Gen::q(a(*self.rng.pick(&SYMS))),
                        1 => a(*self.rng.pick(&STRS)),
                        2 => a(*self.rng.pick(&CHARS)),
                        3 => self.int_expr(sc, d),
                        4 => a("car"),
                        _ => l(vec![a("vector"), self.small()]),
                    };
                    l(vec![a(p), x])
                }
            }
            _ => {
                self.feat("memv");
                l(vec![a("if"), l(vec![a("memv"), self.int_expr(sc, d), self.list_expr(sc, d)]), a("#t"), a("#f")])
            }
        }
    }

    fn list_expr(&mut self, sc: &Sc, depth: usize) -> Sx {
        if depth == 0 {
            if self.rng.chance(1, 2) {
                if let Some(v) = self.pick_s(&sc.lists) {
                    return a(&v);
                }
            }
            let n = self.rng.below(4);
            let mut v = vec![];
            for _ in 0..n {
                v.push(self.small());
            }
            return Gen::q(l(v));
        }
        let d = depth - 1;
        match self.rng.below(12) {
            0 => l(vec![a("cons"), self.int_expr(sc, d), self.list_expr(sc, d)]),
            1 => {
                let mut v = vec![a("list")];
                for _ in 0..self.rng.below(4) {
                    v.push(self.int_expr(sc, d));
                }
                l(v)
            }
            2 => l(vec![a("append"), self.list_expr(sc, d), self.list_expr(sc, d)]),
            3 => l(vec![a("reverse"), self.list_expr(sc, d)]),
            4 | 5 => {
                self.feat("quasiquote");
                let mut v = vec![];
                for _ in 0..(1 + self.rng.below(3)) {
                    if self.rng.chance(1, 2) {
                        v.push(l(vec![a("unquote"), self.int_expr(sc, d)]));
                    } else {
                        v.push(self.small());
                    }
                }
                l(vec![a("quasiquote"), l(v)])
            }
            6 => {
                self.feat("map");
                let x = self.fresh("x");
                let mut sc2 = sc.clone();
                sc2.global = false;
                sc2.ints.push(x.clone());
                l(vec![a("map"), l(vec![a("lambda"), l(vec![a(&x)]), self.int_expr(&sc2, d.min(1))]), self.list_expr(sc, d)])
            }
            7 => {
                self.feat("vector->list");
                let mut v = vec![a("vector")];
                for _ in 0..self.rng.below(3) {
                    v.push(self.int_expr(sc, d.min(1)));
                }
                l(vec![a("vector->list"), l(v)])
            }
            8 => {
                self.feat("named-let");
                let lp = self.fresh("loop");
                let i = self.fresh("i");
                let acc = self.fresh("acc");
                let mut sc2 = sc.clone();
                sc2.global = false;
                sc2.ints.push(i.clone());
                l(vec![
                    a("let"),
                    a(&lp),
                    l(vec![l(vec![a(&i), int(self.rng.range(0, 5))]), l(vec![a(&acc), Gen::q(l(vec![]))])]),
                    l(vec![
                        a("if"),
                        l(vec![a("<"), a(&i), int(1)]),
                        a(&acc),
                        l(vec![a(&lp), l(vec![a("-"), a(&i), int(1)]), l(vec![a("cons"), self.int_expr(&sc2, d.min(1)), a(&acc)])]),
                    ]),
                ])
            }
            9 => {
                self.feat("lambda-rest-only");
                let r = self.fresh("r");
                let n = self.rng.below(4) as usize;
                let mut v = vec![l(vec![a("lambda"), a(&r), a(&r)])];
                v.extend(self.call_args(sc, n, d));
                l(v)
            }
            10 => {
                self.feat("list-tail");
                l(vec![a("list-tail"), l(vec![a("cons"), self.int_expr(sc, d), self.list_expr(sc, d)]), int(1)])
            }
            _ => l(vec![a("cdr"), l(vec![a("cons"), self.int_expr(sc, d), self.list_expr(sc, d)])]),
        }
    }

    /// quasiquote template element
    fn template(&mut self, sc: &Sc, depth: usize, qdepth: usize) -> Sx {
        let d = depth.saturating_sub(1);
        match self.rng.below(if depth == 0 { 6 } else { 11 }) {
            0 => a(*self.rng.pick(&SYMS)),
            1 => self.small(),
            2 => a(*self.rng.pick(&STRS)),
            3 => a(*self.rng.pick(&CHARS)),
            4 => a(if self.rng.chance(1, 2) { "#t" } else { "()" }),
            5 | 6 => {
                // an unquote that is evaluated only when it brings the nesting back to level 0
                if qdepth == 0 {
                    let e = match self.rng.below(4) {
                        0 => self.list_expr(sc, d),
                        1 => self.bool_expr(sc, d),
                        _ => self.int_expr(sc, d),
                    };
                    l(vec![a("unquote"), e])
                } else {
                    self.feat("quasiquote-nested");
                    l(vec![a("unquote"), self.template(sc, d, qdepth - 1)])
                }
            }
            7 => {
                let mut v = vec![];
                for _ in 0..(1 + self.rng.below(3)) {
                    v.push(self.template(sc, d, qdepth));
                }
                l(v)
            }
            8 => {
                self.feat("quasiquote-vector");
                let mut s = String::from("#(");
                for i in 0..self.rng.below(4) {
                    if i > 0 {
                        s.push(' ');
                    }
                    s.push_str(&self.template(sc, d, qdepth).render());
                }
                s.push(')');
                a(&s)
            }
            9 => {
                self.feat("quasiquote-nested");
                l(vec![a("quasiquote"), self.template(sc, d, qdepth + 1)])
            }
            _ => {
                // data that looks like code: must stay data
                self.feat("quasiquote-macro-shaped-data");
                match self.rng.below(4) {
                    0 => l(vec![a("when"), self.small(), self.small()]),
                    1 => l(vec![a("let"), l(vec![l(vec![a("a"), self.small()])]), a("a")]),
                    2 => l(vec![a("or"), self.small(), l(vec![a("and"), a("b")])]),
                    _ => l(vec![a("quote"), a(*self.rng.pick(&SYMS))]),
                }
            }
        }
    }

    fn quasi(&mut self, sc: &Sc, depth: usize) -> Sx {
        self.feat("quasiquote");
        let mut v = vec![];
        for _ in 0..(1 + self.rng.below(4)) {
            v.push(self.template(sc, depth, 0));
        }
        l(vec![a("quasiquote"), l(v)])
    }

    /// any datum
    fn data_expr(&mut self, sc: &Sc, depth: usize) -> Sx {
        let d = depth.saturating_sub(1);
        match self.rng.below(12) {
            0 | 1 | 2 => self.quasi(sc, depth),
            3 => {
                self.feat("data:vector");
                l(vec![a("vector"), self.int_expr(sc, d), Gen::q(a(*self.rng.pick(&SYMS))), a(*self.rng.pick(&STRS)), a(*self.rng.pick(&CHARS))])
            }
            4 => {
                self.feat("data:improper");
                l(vec![a("cons"), self.int_expr(sc, d), self.int_expr(sc, d)])
            }
            5 => {
                self.feat("data:quoted-literal");
                a(*self.rng.pick(&["'(a (b . c) #(1 \"s\" #\\x) ())", "'#(1 (2 3) a)", "''a", "'(quote a b)", "'(1 . 2)", "#(1 #t #\\a)", "\"str\"", "#\\a", "'sym"]))
            }
            6 => {
                self.feat("data:map-cons");
                l(vec![a("map"), l(vec![a("lambda"), l(vec![a("e")]), l(vec![a("cons"), a("e"), Gen::q(a("k"))])]), self.list_expr(sc, d)])
            }
            7 => {
                self.feat("data:procedure");
                match self.rng.below(3) {
                    0 => a("car"),
                    1 => l(vec![a("lambda"), l(vec![a("x")]), a("x")]),
                    _ => l(vec![a("list"), a("+"), self.small()]),
                }
            }
            8 => {
                self.feat("data:promise");
                l(vec![a("delay"), self.int_expr(sc, d)])
            }
            9 | 10 => {
                let ms: Vec<Maker> = sc.makers.iter().filter(|m| m.data).cloned().collect();
                if ms.is_empty() {
                    return self.quasi(sc, depth);
                }
                self.feat("quasiquote-in-returned-closure-call");
                let m = ms[self.rng.below(ms.len() as u64) as usize].clone();
                self.touch(sc, &m.name);
                let mut mk = vec![a(&m.name)];
                mk.extend(self.call_args(sc, m.outer, d));
                let mut v = vec![l(mk)];
                v.extend(self.call_args(sc, m.inner, d));
                l(v)
            }
            _ => {
                self.feat("data:assv");
                l(vec![a("assv"), self.int_expr(sc, d), Gen::q(a("((1 . a) (2 . b) (3 c d) (0 . #t))"))])
            }
        }
    }

    fn params(&mut self, n: usize, sc: &mut Sc, base: &str) -> Vec<Sx> {
        let mut v = vec![];
        for _ in 0..n {
            let p = self.fresh(base);
            sc.ints.push(p.clone());
            v.push(a(&p));
        }
        v
    }

    /// a top-level definition / redefinition / assignment; extends the scope
    fn definition(&mut self, sc: &mut Sc, depth: usize) -> Sx {
        self.taint = false;
        match self.rng.below(16) {
            0 | 1 => {
                let x = self.fresh("g");
                let e = self.int_expr(sc, depth);
                if !self.taint {
                    sc.ints.push(x.clone());
                    sc.mints.push(x.clone());
                }
                l(vec![a("define"), a(&x), e])
            }
            2 => {
                let x = self.fresh("gl");
                let e = self.list_expr(sc, depth);
                if !self.taint {
                    sc.lists.push(x.clone());
                }
                l(vec![a("define"), a(&x), e])
            }
            3 | 4 => {
                self.feat("define-proc");
                let f = self.fresh("f");
                let n = self.rng.below(4) as usize;
                let mut sc2 = sc.clone();
                sc2.global = false;
                let mut ps = vec![a(&f)];
                ps.extend(self.params(n, &mut sc2, "p"));
                let body = self.int_expr(&sc2, depth);
                if self.taint {
                    sc.tainted.insert(f.clone());
                }
                sc.procs.push(Proc { name: f, fixed: n, variadic: false });
                if self.rng.chance(1, 4) {
                    self.feat("define-lambda");
                    let name = ps.remove(0);
                    l(vec![a("define"), name, l(vec![a("lambda"), l(ps), body])])
                } else {
                    l(vec![a("define"), l(ps), body])
                }
            }
            5 | 6 => {
                self.feat("define-variadic");
                let f = self.fresh("v");
                let n = self.rng.below(3) as usize;
                let mut sc2 = sc.clone();
                sc2.global = false;
                let ps: Vec<String> = self.params(n, &mut sc2, "p").iter().map(|s| s.render()).collect();
                let r = self.fresh("r");
                sc2.lists.push(r.clone());
                let body = match self.rng.below(3) {
                    0 => l(vec![a("+"), self.int_expr(&sc2, depth), l(vec![a("length"), a(&r)])]),
                    1 => l(vec![a("+"), self.int_expr(&sc2, depth), l(vec![a("apply"), a("+"), a(&r)])]),
                    _ => l(vec![a("if"), l(vec![a("null?"), a(&r)]), self.int_expr(&sc2, depth), l(vec![a("+"), l(vec![a("car"), a(&r)]), self.int_expr(&sc2, depth)])]),
                };
                if self.taint {
                    sc.tainted.insert(f.clone());
                }
                sc.procs.push(Proc { name: f.clone(), fixed: n, variadic: true });
                let head = if ps.is_empty() { format!("({} . {})", f, r) } else { format!("({} {} . {})", f, ps.join(" "), r) };
                l(vec![a("define"), a(&head), body])
            }
            7 => {
                self.feat("closure-counter");
                let c = self.fresh("c");
                let n = self.fresh("n");
                let d = self.fresh("d");
                let init = self.int_expr(sc, depth.min(1));
                if !self.taint {
                    sc.procs.push(Proc { name: c.clone(), fixed: 1, variadic: false });
                }
                l(vec![
                    a("define"),
                    a(&c),
                    l(vec![a("let"), l(vec![l(vec![a(&n), init])]), l(vec![a("lambda"), l(vec![a(&d)]), l(vec![a("set!"), a(&n), l(vec![a("+"), a(&n), a(&d)])]), a(&n)])]),
                ])
            }
            8 => {
                if let Some(x) = self.pick_s(&sc.mints.clone()) {
                    self.feat("set!-global");
                    l(vec![a("set!"), a(&x), self.int_expr(sc, depth)])
                } else {
                    self.definition(sc, depth)
                }
            }
            9 => {
                // redefine an existing procedure with the same signature: earlier-compiled callers see it
                let ps: Vec<Proc> = sc.procs.iter().filter(|p| !p.variadic && p.name.starts_with('f')).cloned().collect();
                if ps.is_empty() {
                    return self.definition(sc, depth);
                }
                self.feat("redefine-proc");
                let p = ps[self.rng.below(ps.len() as u64) as usize].clone();
                let mut sc2 = sc.clone();
                sc2.global = false;
                // the new body calls no user procedure: anything in scope may (indirectly) call `p`
                sc2.procs.clear();
                sc2.makers.clear();
                sc2.promises.clear();
                let mut params = vec![a(&p.name)];
                params.extend(self.params(p.fixed, &mut sc2, "q"));
                let body = self.int_expr(&sc2, depth);
                if self.taint {
                    sc.tainted.insert(p.name.clone());
                }
                l(vec![a("define"), l(params), body])
            }
            10 => {
                // redefine a global variable
                if let Some(x) = self.pick_s(&sc.mints.clone()) {
                    self.feat("redefine-var");
                    let save = self.fail_per_mille;
                    self.fail_per_mille = 0;
                    let e = self.int_expr(sc, depth);
                    self.fail_per_mille = save;
                    l(vec![a("define"), a(&x), e])
                } else {
                    self.definition(sc, depth)
                }
            }
            11 | 12 => {
                // a procedure returning a closure
                let data = self.rng.chance(1, 2);
                let m = self.fresh("mk");
                let outer = 1 + self.rng.below(2) as usize;
                let inner = self.rng.below(3) as usize;
                let mut sc2 = sc.clone();
                sc2.global = false;
                let mut head = vec![a(&m)];
                head.extend(self.params(outer, &mut sc2, "o"));
                let inner_ps = self.params(inner, &mut sc2, "i");
                let body = if data {
                    self.feat("quasiquote-in-returned-closure");
                    self.quasi(&sc2, depth.min(2))
                } else {
                    self.feat("define-maker");
                    self.int_expr(&sc2, depth)
                };
                if self.taint {
                    sc.tainted.insert(m.clone());
                }
                sc.makers.push(Maker { name: m, outer, inner, data });
                l(vec![a("define"), l(head), l(vec![a("lambda"), l(inner_ps), body])])
            }
            13 => {
                // a closure obtained from a maker, kept in a global and called in later forms
                let ms: Vec<Maker> = sc.makers.iter().filter(|m| !m.data).cloned().collect();
                if ms.is_empty() {
                    return self.definition(sc, depth);
                }
                self.feat("closure-from-maker-kept");
                let m = ms[self.rng.below(ms.len() as u64) as usize].clone();
                let h = self.fresh("h");
                self.touch(sc, &m.name);
                let mut mk = vec![a(&m.name)];
                mk.extend(self.call_args(sc, m.outer, depth));
                if !self.taint {
                    sc.procs.push(Proc { name: h.clone(), fixed: m.inner, variadic: false });
                }
                l(vec![a("define"), a(&h), l(mk)])
            }
            14 => {
                self.feat("define-promise");
                let p = self.fresh("pr");
                let e = if let Some(x) = self.pick_s(&sc.mints.clone()) {
                    l(vec![a("begin"), l(vec![a("set!"), a(&x), l(vec![a("+"), a(&x), int(1)])]), self.int_expr(sc, depth)])
                } else {
                    self.int_expr(sc, depth)
                };
                if self.taint {
                    sc.tainted.insert(p.clone());
                }
                sc.promises.push(p.clone());
                l(vec![a("define"), a(&p), l(vec![a("delay"), e])])
            }
            _ => {
                self.feat("define-vector");
                let v = self.fresh("gv");
                let n = 1 + self.rng.below(3) as usize;
                let mut items = vec![a("vector")];
                for _ in 0..n {
                    items.push(self.int_expr(sc, depth.min(1)));
                }
                if !self.taint {
                    sc.vecs.push((v.clone(), n));
                }
                l(vec![a("define"), a(&v), l(items)])
            }
        }
    }

    fn session(&mut self, n: usize, depth: usize) -> Vec<String> {
        let mut sc = Sc { global: true, ..Default::default() };
        let mut forms = vec![];
        while forms.len() < n {
            let f = match self.rng.below(20) {
                0..=8 => self.definition(&mut sc, depth),
                9 | 10 => self.list_expr(&sc, depth),
                11 => self.bool_expr(&sc, depth),
                12 | 13 => self.data_expr(&sc, depth),
                14 if self.fail_per_mille > 0 => {
                    self.feat("fail:syntax-form");
                    a(*self.rng.pick(&["(if)", "(if 1 2 3 4)", "(lambda (x))", "(set! 5 1)", "(lambda (1) 1)", "(let ((x)) x)", "()", "(when 1)", "(quote)"]))
                }
                _ => self.int_expr(&sc, depth),
            };
            forms.push(f.render());
        }
        forms
    }
}

/// definitions that no generated session refers to
fn unrelated(rng: &mut Rng) -> Vec<String> {
    let mut v = vec![];
    for i in 0..(2 + rng.below(5)) {
        v.push(match rng.below(6) {
            0 => format!("(define zz-unrelated-{} {})", i, rng.range(-50, 50)),
            1 => format!("(define (zz-unrelated-{} x . r) (if (null? r) (* x 2) (apply + x r)))", i),
            2 => format!("(define zz-unrelated-{} (list 1 'a \"s\" (vector {})))", i, rng.range(0, 9)),
            3 => format!("(define zz-unrelated-{} (let ((n 0)) (lambda () (set! n (+ n 1)) n)))", i),
            4 => format!("(define zz-unrelated-{} (delay (+ 1 {})))", i, rng.range(0, 9)),
            _ => format!("(define (zz-unrelated-{} f) (lambda (y) `(,f ,y #(,y))))", i),
        });
    }
    v
}

fn request(feats: &BTreeSet<&'static str>, forms: &[String]) -> String {
    let f = if feats.is_empty() { "-".to_string() } else { feats.iter().cloned().collect::<Vec<_>>().join("+") };
    let texts: Vec<String> = forms.iter().map(|t| enc_text(t)).collect();
    format!("eval-session {} F:{} {}", FUEL, f, texts.join(" "))
}

fn emit_session(out: &mut impl Write, label: &str, feats: &BTreeSet<&'static str>, forms: &[String], rng: &mut Rng) {
    let req = request(feats, forms);
    let obs = run_session(forms, None);
    writeln!(out, "{}\t{}\t{}", req, obs, req).unwrap();
    let again = run_session(forms, None);
    writeln!(out, "#oracle fresh-vm {}\t{}\t{}", label, again, obs).unwrap();
    let u = unrelated(rng);
    let with = run_session(forms, Some(&u));
    writeln!(out, "#oracle independence {}\t{}\t{}", label, with, obs).unwrap();
}

/// sessions that hit the known findings (feature-keyed)
fn finding_session(g: &mut Gen, k: u64) -> Vec<String> {
    let sc = Sc { global: true, ..Default::default() };
    let x = g.int_expr(&sc, 1).render();
    let y = g.int_expr(&sc, 1).render();
    match k % 3 {
        0 => {
            g.feat("finding:dotted-unquote");
            match g.rng.below(3) {
                0 => vec![format!("`(1 . ,{})", x)],
                1 => vec![format!("(define (dq a) `(k ,a . ,(list a {})))", y), "(dq 3)".into()],
                _ => vec![format!("(let ((t {})) `((a . ,t) b))", x)],
            }
        }
        1 => {
            g.feat("finding:toplevel-begin-define");
            match g.rng.below(2) {
                0 => vec![format!("(begin (define tb1 {}) (define tb2 {}))", x, y), "(+ tb1 tb2)".into()],
                _ => vec![format!("(begin (define (tbf q) (+ q {})) (tbf 1))", x), "(tbf 2)".into()],
            }
        }
        _ => {
            g.feat("finding:hygiene-capture");
            match g.rng.below(3) {
                0 => vec![format!("(define (hy var1) (or #f var1))"), format!("(hy {})", x)],
                1 => vec![format!("(define (hy temp) (cond ((+ 1 1) => (lambda (v) (+ temp v)))))"), format!("(hy {})", x)],
                _ => vec![format!("(let ((atom-key {})) (case (+ 1 1) ((2) atom-key) (else 0)))", x)],
            }
        }
    }
}

fn main() {
    silence_panics();
    let args: Vec<String> = std::env::args().collect();
    let mode = args.get(1).map(|s| s.as_str()).unwrap_or("");
    let n: usize = args.get(2).and_then(|s| s.parse().ok()).unwrap_or(100);
    let stdout = std::io::stdout();
    let mut out = std::io::BufWriter::new(stdout.lock());
    match mode {
        // generated sessions; every fifth one with injected failures
        "sessions" => {
            let mut master = Rng::new(seed() ^ 0xC01);
            for i in 0..n {
                let mut g = Gen::new(master.next());
                if i % 5 == 4 {
                    g.fail_per_mille = 25;
                    g.feat("with-failures");
                }
                let len = 1 + g.rng.below(12) as usize;
                let depth = 1 + g.rng.below(3) as usize;
                let forms = g.session(len, depth);
                let feats = g.feats.clone();
                emit_session(&mut out, &format!("s{}", i), &feats, &forms, &mut master);
            }
        }
        "findings" => {
            let mut master = Rng::new(seed() ^ 0xF1D);
            for i in 0..n {
                let mut g = Gen::new(master.next());
                let forms = finding_session(&mut g, i as u64);
                let feats = g.feats.clone();
                emit_session(&mut out, &format!("k{}", i), &feats, &forms, &mut master);
            }
        }
        // corpus/C01/*.scm: one form per line, `;` comment lines skipped
        "corpus" => {
            let dir = args.get(2).cloned().unwrap_or_else(|| "/verif/corpus/C01".into());
            let mut master = Rng::new(seed() ^ 0xC0);
            let mut files: Vec<_> = std::fs::read_dir(&dir).map(|d| d.filter_map(|e| e.ok()).map(|e| e.path()).collect()).unwrap_or_else(|_| vec![]);
            files.sort();
            for p in files {
                if p.extension().map(|e| e != "scm").unwrap_or(true) {
                    continue;
                }
                let text = std::fs::read_to_string(&p).unwrap_or_default();
                let forms: Vec<String> = text.lines().map(|s| s.trim().to_string()).filter(|s| !s.is_empty() && !s.starts_with(';')).collect();
                let mut feats = BTreeSet::new();
                feats.insert("corpus");
                let label = p.file_name().unwrap().to_string_lossy().to_string();
                emit_session(&mut out, &label, &feats, &forms, &mut master);
            }
        }
        // probe: one form per line on stdin
        "run" => {
            let (mut vm, log) = fresh_vm();
            for line in std::io::stdin().lock().lines() {
                let line = line.unwrap();
                if line.trim().is_empty() {
                    continue;
                }
                writeln!(out, "{}  =>  {}", line, run_form(&mut vm, &line)).unwrap();
                for l in log.borrow_mut().drain(..) {
                    writeln!(out, "   out {}", l).unwrap();
                }
            }
        }
        // print the generated sessions as text (debugging)
        "show" => {
            let mut master = Rng::new(seed() ^ 0xC01);
            for i in 0..n {
                let mut g = Gen::new(master.next());
                if i % 5 == 4 {
                    g.fail_per_mille = 25;
                }
                let len = 1 + g.rng.below(12) as usize;
                let depth = 1 + g.rng.below(3) as usize;
                let forms = g.session(len, depth);
                writeln!(out, ";; session {} {:?}", i, g.feats).unwrap();
                for f in forms {
                    writeln!(out, "{}", f).unwrap();
                }
                let _ = unrelated(&mut master);
            }
        }
        _ => {
            eprintln!("usage: eval sessions N | findings N | corpus [DIR] | run | show N");
            std::process::exit(2);
        }
    }
}
