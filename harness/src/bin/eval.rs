//! C01 (placeholder while probing): `eval run` reads one form per line from stdin.
use mwv::session::*;
use mwv::wire::*;
use std::io::BufRead;

fn main() {
    silence_panics();
    let (mut vm, log) = new_vm();
    for line in std::io::stdin().lock().lines() {
        let line = line.unwrap();
        if line.trim().is_empty() { continue; }
        let r = catch(std::panic::AssertUnwindSafe(|| eval_form(&mut vm, &line)));
        match r {
            Ok(r) => println!("{}  =>  {}", line, render(&r)),
            Err(p) => println!("{}  =>  panic {}", line, p),
        }
        for l in log.borrow_mut().drain(..) { println!("   out {}", l); }
    }
}
