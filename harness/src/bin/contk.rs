//! C05 — first-class continuations judged by a semantic specification (`Spec.EvalK`, a CPS definitional
//! interpreter with first-class continuations).
//!
//! Random well-scoped sessions over a grammar that places `call/cc` at operand, tail and nested positions,
//! stores `k` in global variables, vector / pair slots and closures, and invokes continuations
//!   * as ESCAPES (a lexically visible `k`, from the receiver body, from `deep` recursion, named-let loops,
//!     `map` / `for-each` callbacks, nested receivers — other continuations' extents),
//!   * as RE-ENTRIES of stored continuations (same form after the receiver returned — generators —, later
//!     top-level forms, loops, callbacks, procedure bodies), each re-entry site guarded by its own global
//!     counter with limit 0..3 (termination),
//! with operands evaluated before the capture (`note` leaves a trace) and mutations (`set!`, `set-car!`,
//! `set-cdr!`, `vector-set!`) between capture and invocation. Everything is integer-typed, so every
//! continuation expects an integer.
//!
//! Line: `spec-evalk <steps> D:<distribution> <form text>…  \t  <results> || <log>  \t  <same request>`;
//! the Lean driver answers the request from `Spec.EvalK`. The distribution tag carries the static counts of
//! the session (capture sites by position, invocation sites by kind and place, slot kinds) and the DYNAMIC
//! counts read back from the program's own counters after the run on the real VM (captures, escapes,
//! re-entries same-form / cross-form, per-site invocation counts).
use marwood::cell::Cell;
use marwood::vm::{SystemInterface, Vm};
use mwv::rng::Rng;
use mwv::session::error_class;
use mwv::wire::*;
use std::cell::RefCell;
use std::collections::BTreeMap;
use std::io::{BufRead, Write};
use std::rc::Rc;

const STEPS: usize = 400_000;

fn seed() -> u64 {
    std::env::var("VERIF_SEED").ok().and_then(|s| s.parse().ok()).unwrap_or(1)
}

// ---------------------------------------------------------------- observation (as bin/eval.rs)

fn enc(c: &Cell, out: &mut String) {
    match c {
        Cell::Procedure(_) => out.push_str("proc"),
        Cell::Pair(x, d) => {
            out.push_str("pair ");
            enc(x, out);
            out.push(' ');
            enc(d, out);
        }
        Cell::Vector(v) => {
            out.push_str(&format!("vec{}", v.len()));
            for x in v {
                out.push(' ');
                enc(x, out);
            }
        }
        other => out.push_str(&enc_datum(other)),
    }
}

fn enc_s(c: &Cell) -> String {
    let mut s = String::new();
    enc(c, &mut s);
    s
}

#[derive(Debug)]
struct OutLog {
    log: Rc<RefCell<Vec<String>>>,
}

impl SystemInterface for OutLog {
    fn display(&self, cell: &Cell) {
        self.log.borrow_mut().push(format!("d:{}", enc_s(cell)));
    }
    fn write(&self, cell: &Cell) {
        self.log.borrow_mut().push(format!("w:{}", enc_s(cell)));
    }
    fn terminal_dimensions(&self) -> (usize, usize) {
        (80, 24)
    }
    fn time_utc(&self) -> u64 {
        0
    }
}

fn fresh_vm() -> (Vm, Rc<RefCell<Vec<String>>>) {
    let log = Rc::new(RefCell::new(vec![]));
    let mut vm = Vm::new();
    vm.set_system_interface(Box::new(OutLog { log: log.clone() }));
    (vm, log)
}

fn coarse(class: &str) -> &'static str {
    match class {
        "unbound" => "unbound",
        "not-procedure" => "not-procedure",
        "user" => "user",
        "arity" | "type" | "range" | "syntax" => "wrong",
        "internal" => "internal",
        "parse-incomplete" | "parse-other" | "lex" => "unreadable",
        _ => "other",
    }
}

fn eval_budget(vm: &mut Vm, text: &str) -> Result<Cell, marwood::error::Error> {
    let (cell, _) = marwood::parse::parse_text(text)?;
    vm.prepare_eval(&cell)?;
    match vm.run_count(3_000_000)? {
        Some(c) => Ok(c),
        None => Err(marwood::error::Error::InvalidBytecode), // rendered as `err internal`
    }
}

fn run_form(vm: &mut Vm, text: &str) -> String {
    match catch(std::panic::AssertUnwindSafe(|| eval_budget(vm, text))) {
        Ok(Ok(c)) => format!("ok {}", enc_s(&c)),
        Ok(Err(e)) => format!("err {}", coarse(error_class(&e))),
        Err(p) => format!("panic {}", p.replace(['\t', '\n'], " ")),
    }
}

/// `gc`: a collection is forced after every top-level form and at the given instruction counts (C03's hooks)
fn run_session(forms: &[String], gc: Option<&[u64]>) -> (Vec<String>, String) {
    let (mut vm, log) = fresh_vm();
    if let Some(at) = gc {
        vm.verif_set_gc_at(at.to_vec());
        // every collection point of the library collects too (a collection inside continuation invocation, in
        // prepare_eval, … wherever a change may put one: seed C05f-1)
        vm.verif_set_gc_always(at.len() % 2 == 0);
    }
    let mut res = vec![];
    for f in forms {
        let mut r = run_form(&mut vm, f);
        if gc.is_some() {
            if let Err(p) = catch(std::panic::AssertUnwindSafe(|| vm.verif_force_gc())) {
                r = format!("{} panic-in-gc {}", r, p.replace(['\t', '\n'], " "));
            }
        }
        res.push(r);
    }
    let l = log.borrow().join(" ");
    (res, l)
}

// ---------------------------------------------------------------- generator

/// the fixed definitions every session starts with
const PRELUDE: [&str; 25] = [
    "(define kd0 #f)",
    "(define kd1 #f)",
    "(define keep '())",
    "(define kk0 #f)",
    "(define kk1 #f)",
    "(define kk2 #f)",
    "(define kv (vector #f #f #f))",
    "(define kp (cons #f #f))",
    "(define kc0 #f)",
    "(define kc1 #f)",
    "(define g0 0)",
    "(define g1 0)",
    "(define iv (vector 1 2 3))",
    "(define ip (cons 5 6))",
    "(define tr '())",
    "(define cap 0)",
    "(define esc 0)",
    "(define nsame 0)",
    "(define ncross 0)",
    "(define fno 0)",
    "(define kf (vector -1 -1 -1 -1 -1 -1 -1 -1 -1 -1))",
    "(define (deep n thunk) (if (= n 0) (thunk) (+ 0 (deep (- n 1) thunk))))",
    "(define (note n v) (set! tr (cons n tr)) v)",
    "(define (stamp! i) (vector-set! kf i fno))",
    "(define (hit! i) (if (= (vector-ref kf i) fno) (set! nsame (+ nsame 1)) (set! ncross (+ ncross 1))))",
];

#[derive(Clone, Default)]
struct Sc {
    ints: Vec<String>,
    muts: Vec<String>,
    ks: Vec<String>,
    place: &'static str,
    in_recv: bool,
}

struct G {
    rng: Rng,
    fresh: usize,
    budget: i64,
    stats: BTreeMap<String, u64>,
    counters: Vec<(String, u64)>, // re-entry site counters with their limits
    procs: Vec<String>,           // global procedures of two int parameters
    stored: Vec<usize>,           // slots some earlier-generated code stores a continuation in
    fail: bool,
    form_has_cc: bool,
}

/// (read expression, index in `kf`, kind)
const SLOTS: [(&str, usize, &str); 10] = [
    ("kk0", 0, "global"),
    ("kk1", 1, "global"),
    ("kk2", 2, "global"),
    ("(vector-ref kv 0)", 3, "vector"),
    ("(vector-ref kv 1)", 4, "vector"),
    ("(vector-ref kv 2)", 5, "vector"),
    ("(car kp)", 6, "pair"),
    ("(cdr kp)", 7, "pair"),
    ("kc0", 8, "closure"),
    ("kc1", 9, "closure"),
];

impl G {
    fn new(seed: u64) -> G {
        G { rng: Rng::new(seed), fresh: 0, budget: 0, stats: BTreeMap::new(), counters: vec![], procs: vec![], stored: vec![], fail: false, form_has_cc: false }
    }
    fn stat(&mut self, k: &str) {
        *self.stats.entry(k.to_string()).or_insert(0) += 1;
    }
    fn fresh(&mut self, base: &str) -> String {
        self.fresh += 1;
        format!("{}{}", base, self.fresh)
    }
    fn lit(&mut self) -> String {
        self.rng.range(-9, 20).to_string()
    }
    fn leaf(&mut self, sc: &Sc) -> String {
        match self.rng.below(10) {
            0..=2 => self.lit(),
            3..=5 if !sc.ints.is_empty() => sc.ints[self.rng.below(sc.ints.len() as u64) as usize].clone(),
            6 => "g0".into(),
            7 => "g1".into(),
            8 => format!("(vector-ref iv {})", self.rng.below(3)),
            9 => (*self.rng.pick(&["(car ip)", "(cdr ip)"])).to_string(),
            _ => self.lit(),
        }
    }
    /// a mutation of a variable or of data (statement)
    fn mutation(&mut self, sc: &Sc, d: usize) -> String {
        let v = self.ie(sc, d);
        match self.rng.below(7) {
            0 => {
                self.stat("mut.set!-global");
                format!("(set! g0 {})", v)
            }
            1 => {
                self.stat("mut.set!-global");
                format!("(set! g1 (+ g1 {}))", v)
            }
            2 | 3 if !sc.muts.is_empty() => {
                self.stat("mut.set!-local");
                let x = sc.muts[self.rng.below(sc.muts.len() as u64) as usize].clone();
                format!("(set! {} {})", x, v)
            }
            4 => {
                self.stat("mut.vector-set!");
                format!("(vector-set! iv {} {})", self.rng.below(3), v)
            }
            5 => {
                self.stat("mut.set-car!");
                format!("(set-car! ip {})", v)
            }
            _ => {
                self.stat("mut.set-cdr!");
                format!("(set-cdr! ip {})", v)
            }
        }
    }
    /// store the continuation variable `k` in a slot
    fn store(&mut self, sc: &Sc, k: &str) -> String {
        let (_, idx, kind) = SLOTS[self.rng.below(10) as usize];
        self.stat(&format!("store.{}", kind));
        self.stored.push(idx);
        let st = match idx {
            0..=2 => format!("(set! kk{} {})", idx, k),
            3..=5 => format!("(vector-set! kv {} {})", idx - 3, k),
            6 => format!("(set-car! kp {})", k),
            7 => format!("(set-cdr! kp {})", k),
            _ => {
                if self.rng.chance(1, 2) {
                    format!("(set! kc{} (lambda (v) ({} v)))", idx - 8, k)
                } else {
                    let m = self.leaf(sc);
                    format!("(set! kc{} (let ((m {})) (lambda (v) ({} (+ v m)))))", idx - 8, m, k)
                }
            }
        };
        format!("{} (stamp! {})", st, idx)
    }
    /// invoke a lexically visible continuation (escape while its receiver may still be running)
    fn escape(&mut self, sc: &Sc, d: usize) -> String {
        let k = sc.ks[self.rng.below(sc.ks.len() as u64) as usize].clone();
        let inner = sc.ks.last().map(|x| *x == k).unwrap_or(true);
        self.stat("inv.escape");
        self.stat(&format!("inv.escape.from-{}", sc.place));
        if !inner {
            self.stat("inv.escape.to-outer-continuation");
        }
        let v = self.ie(sc, d);
        let call = match self.rng.below(8) {
            0 => format!("(apply {} (list {}))", k, v),
            1 => format!("({} {} {})", k, self.lit(), v), // several values: the last one is delivered
            _ => format!("({} {})", k, v),
        };
        format!("(begin (set! esc (+ esc 1)) {})", call)
    }
    /// invoke a stored continuation, at most `limit` times over the whole session
    fn reentry(&mut self, sc: &Sc, d: usize) -> String {
        let (slot, idx, kind) = if !self.stored.is_empty() && self.rng.chance(6, 7) {
            SLOTS[self.stored[self.rng.below(self.stored.len() as u64) as usize]]
        } else {
            SLOTS[self.rng.below(10) as usize]
        };
        let limit = self.rng.below(4);
        let c = self.fresh("c");
        self.counters.push((c.clone(), limit));
        self.stat("inv.reentry");
        self.stat(&format!("inv.reentry.from-{}", sc.place));
        self.stat(&format!("inv.reentry.slot-{}", kind));
        self.stat(&format!("inv.reentry.limit-{}", limit));
        if sc.in_recv {
            self.stat("inv.reentry.inside-other-extent");
        }
        let v = self.ie(sc, d);
        let other = self.ie(sc, d);
        // the argument is evaluated BEFORE the guard: a continuation captured inside it re-checks the counter when
        // it is resumed (a capture between the guard and the jump would make an unguarded cycle possible)
        let a = self.fresh("a");
        format!("(let (({a} {v})) (if (and (procedure? {s}) (< {c} {l})) (begin (set! {c} (+ {c} 1)) (hit! {i}) ({s} {a})) {o}))", a = a, s = slot, c = c, l = limit, i = idx, v = v, o = other)
    }
    /// `(call/cc (lambda (k) …))`; `pos` = where the expression stands
    fn callcc(&mut self, sc: &Sc, d: usize, pos: &'static str) -> String {
        let k = self.fresh("k");
        self.form_has_cc = true;
        self.stat("cap.sites");
        self.stat(&format!("cap.{}", pos));
        if sc.in_recv {
            self.stat("cap.nested-in-receiver");
        }
        if sc.place == "map-cb" || sc.place == "foreach-cb" {
            self.stat("cap.in-callback");
        }
        if sc.place == "loop" {
            self.stat("cap.in-loop");
        }
        let mut inner = sc.clone();
        inner.ks.push(k.clone());
        inner.in_recv = true;
        if inner.place == "top" {
            inner.place = "receiver";
        }
        let mut body = vec!["(set! cap (+ cap 1))".to_string()];
        // stores
        let nst = *self.rng.pick(&[0u64, 0, 1, 1, 1, 2]);
        for _ in 0..nst {
            let st = self.store(sc, &k);
            if !sc.ints.is_empty() && self.rng.chance(1, 3) {
                let x = sc.ints[self.rng.below(sc.ints.len() as u64) as usize].clone();
                self.stat("store.conditional");
                body.push(format!("(if (< {} {}) (begin {}))", x, self.lit(), st));
            } else {
                body.push(st);
            }
        }
        if self.rng.chance(1, 4) {
            let m = self.mutation(sc, 0);
            body.push(m);
        }
        let dd = d.saturating_sub(1);
        let last = match self.rng.below(12) {
            0 | 1 => {
                self.stat("recv.normal-return");
                self.ie(sc, dd) // k not visible: returns normally (unless an outer escape fires)
            }
            2 | 3 => self.ie(&inner, dd),
            4 => {
                let e = self.escape(&inner, dd);
                format!("(+ 1 {})", e)
            }
            5 => self.escape(&inner, dd),
            6 => {
                let mut t = inner.clone();
                t.place = "deep";
                let e = self.escape(&t, dd);
                format!("(* 2 (deep {} (lambda () {})))", self.rng.below(6), e)
            }
            7 => {
                // escape from a named-let loop
                let i = self.fresh("i");
                let mut t = inner.clone();
                t.ints.push(i.clone());
                t.place = "loop";
                let e = self.escape(&t, dd);
                let fin = self.ie(&inner, 0);
                format!("(let lp (({i} 0)) (if (= {i} {n}) {fin} (begin (if (= {i} {c}) {e}) (lp (+ {i} 1)))))", i = i, n = 1 + self.rng.below(4), c = self.rng.below(4), e = e, fin = fin)
            }
            8 => {
                // escape from a map callback
                let x = self.fresh("x");
                let mut t = inner.clone();
                t.ints.push(x.clone());
                t.place = "map-cb";
                let e = self.escape(&t, dd);
                format!("(apply + (map (lambda ({x}) (if (= {x} {c}) {e} {x})) (list 1 2 3)))", x = x, c = 1 + self.rng.below(4), e = e)
            }
            9 => {
                // escape from a for-each callback
                let x = self.fresh("x");
                let mut t = inner.clone();
                t.ints.push(x.clone());
                t.place = "foreach-cb";
                let e = self.escape(&t, dd);
                let fin = self.ie(&inner, 0);
                format!("(begin (for-each (lambda ({x}) (if (> {x} {c}) {e})) (list 1 2 3)) {fin})", x = x, c = self.rng.below(4), e = e, fin = fin)
            }
            10 => {
                // nested capture whose receiver may use both continuations
                let e = self.callcc(&inner, dd, "nested");
                format!("(+ {} {})", self.lit(), e)
            }
            _ => self.callcc(&inner, dd, "tail"), // receiver body's tail expression is a call/cc
        };
        body.push(last);
        let cc = *self.rng.pick(&["call/cc", "call/cc", "call/cc", "call-with-current-continuation"]);
        format!("({} (lambda ({}) {}))", cc, k, body.join(" "))
    }

    fn ie(&mut self, sc: &Sc, d: usize) -> String {
        self.budget -= 1;
        if d == 0 || self.budget <= 0 {
            return self.leaf(sc);
        }
        if self.fail && self.rng.below(1000) < 15 {
            self.stat("fail.injected");
            return (*self.rng.pick(&["(car 5)", "unbound-variable-zz", "(error \"boom\" 1)", "(5 5)", "(vector-ref iv 7)", "((lambda (x) x))"])).to_string();
        }
        let d1 = d - 1;
        match self.rng.below(34) {
            0 | 1 => self.leaf(sc),
            2..=4 => {
                let op = *self.rng.pick(&["+", "+", "-"]);
                format!("({} {} {})", op, self.ie(sc, d1), self.ie(sc, d1))
            }
            5 => format!("(* {} {})", self.ie(sc, d1), self.rng.range(-2, 3)),
            6 => format!("(if (< {} {}) {} {})", self.ie(sc, d1), self.ie(sc, d1), self.ie(sc, d1), self.ie(sc, d1)),
            7 => {
                let x = self.fresh("v");
                let init = self.ie(sc, d1);
                let mut t = sc.clone();
                t.ints.push(x.clone());
                t.muts.push(x.clone());
                format!("(let (({} {})) {})", x, init, self.ie(&t, d1))
            }
            8 | 9 => {
                let m = self.mutation(sc, d1);
                format!("(begin {} {})", m, self.ie(sc, d1))
            }
            10 => format!("(note {} {})", self.rng.below(90), self.ie(sc, d1)),
            11..=14 => {
                // operand position: an operand evaluated (and traced) BEFORE the capture, one AFTER it
                let pre = format!("(note {} {})", 100 + self.rng.below(100), self.ie(sc, 0));
                let cc = self.callcc(sc, d1, "operand");
                self.stat("cap.operand.with-earlier-operands");
                if self.rng.chance(1, 2) {
                    let post = format!("(note {} {})", 200 + self.rng.below(100), self.ie(sc, 0));
                    format!("(+ {} {} {})", pre, cc, post)
                } else {
                    format!("(+ {} {})", pre, cc)
                }
            }
            15 => self.callcc(sc, d1, "bare"),
            16 | 17 => self.reentry(sc, d1),
            18 => {
                // accumulating loop; its body may capture / re-enter / escape
                let (i, a) = (self.fresh("i"), self.fresh("a"));
                let mut t = sc.clone();
                t.ints.push(i.clone());
                t.ints.push(a.clone());
                t.place = "loop";
                let body = self.ie(&t, d1);
                format!("(let lp (({i} 0) ({a} {init})) (if (= {i} {n}) {a} (lp (+ {i} 1) (+ {a} {body}))))", i = i, a = a, init = self.ie(sc, 0), n = 1 + self.rng.below(4), body = body)
            }
            19 => {
                // call/cc in the tail position of a loop body, the loop continues inside the receiver
                let (i, a, k) = (self.fresh("i"), self.fresh("a"), self.fresh("k"));
                let mut t = sc.clone();
                t.ints.push(i.clone());
                t.ints.push(a.clone());
                t.ks.push(k.clone());
                t.place = "loop";
                t.in_recv = true;
                self.form_has_cc = true;
                self.stat("cap.sites");
                self.stat("cap.tail");
                self.stat("cap.in-loop");
                let st = if self.rng.chance(1, 2) { self.store(sc, &k) } else { String::new() };
                let body = self.ie(&t, d1);
                format!("(let lp (({i} {n}) ({a} {init})) (if (= {i} 0) {a} (call/cc (lambda ({k}) (set! cap (+ cap 1)) {st} (lp (- {i} 1) (+ {a} {body}))))))", i = i, a = a, k = k, st = st, init = self.ie(sc, 0), n = 1 + self.rng.below(3), body = body)
            }
            20 => {
                let x = self.fresh("x");
                let mut t = sc.clone();
                t.ints.push(x.clone());
                t.place = "map-cb";
                let body = self.ie(&t, d1);
                format!("(apply + (map (lambda ({x}) {body}) (list {a} {b} {c})))", x = x, body = body, a = self.ie(sc, 0), b = self.lit(), c = self.lit())
            }
            21 => {
                let x = self.fresh("x");
                let mut t = sc.clone();
                t.ints.push(x.clone());
                t.place = "foreach-cb";
                let body = self.ie(&t, d1);
                format!("(begin (for-each (lambda ({x}) (set! g1 (+ g1 {body}))) (list {a} {b})) {fin})", x = x, body = body, a = self.lit(), b = self.ie(sc, 0), fin = self.ie(sc, 0))
            }
            22 => {
                // procedure whose body's tail expression is a call/cc
                let (p, q) = (self.fresh("p"), self.fresh("q"));
                let mut t = sc.clone();
                t.ints.push(p.clone());
                t.ints.push(q.clone());
                t.muts.push(p.clone());
                let body = self.callcc(&t, d1, "tail");
                format!("((lambda ({} {}) {}) {} {})", p, q, body, self.ie(sc, 0), self.ie(sc, 0))
            }
            26 => {
                // generator: the continuation of a binding is re-entered from the body of the same form
                let (x, k) = (self.fresh("v"), self.fresh("k"));
                let (slot, idx, kind) = SLOTS[self.rng.below(8) as usize];
                let limit = self.rng.below(4);
                let c = self.fresh("c");
                self.counters.push((c.clone(), limit));
                self.form_has_cc = true;
                self.stored.push(idx);
                for st in ["cap.sites", "cap.operand", "cap.operand.with-earlier-operands", "pattern.generator", "inv.reentry"] {
                    self.stat(st);
                }
                self.stat(&format!("store.{}", kind));
                self.stat(&format!("inv.reentry.from-{}", sc.place));
                self.stat(&format!("inv.reentry.slot-{}", kind));
                self.stat(&format!("inv.reentry.limit-{}", limit));
                let st = match idx {
                    0..=2 => format!("(set! kk{} {})", idx, k),
                    3..=5 => format!("(vector-set! kv {} {})", idx - 3, k),
                    6 => format!("(set-car! kp {})", k),
                    _ => format!("(set-cdr! kp {})", k),
                };
                let mut t = sc.clone();
                t.ints.push(x.clone());
                let m = self.mutation(&t, 0);
                format!("(let (({x} (+ (note {n} {pre}) (call/cc (lambda ({k}) (set! cap (+ cap 1)) {st} (stamp! {i}) {v}))))) {m} (if (and (procedure? {s}) (< {c} {l})) (begin (set! {c} (+ {c} 1)) (hit! {i}) ({s} (+ {x} {inc}))) {fin}))",
                    x = x, n = 300 + self.rng.below(50), pre = self.ie(sc, 0), k = k, st = st, i = idx, v = self.ie(sc, d1), m = m, s = slot, c = c, l = limit, inc = self.rng.range(1, 5), fin = self.ie(&t, d1))
            }
            27 | 28 => {
                // a continuation captured in a map callback, re-entered after map has returned (R7RS 6.10: the lists
                // map returned earlier — kept in `keep` — must not change)
                let (x, k, lst) = (self.fresh("x"), self.fresh("k"), self.fresh("l"));
                let idx = self.rng.below(3) as usize;
                let limit = self.rng.below(4);
                let c = self.fresh("c");
                self.counters.push((c.clone(), limit));
                self.form_has_cc = true;
                self.stored.push(idx);
                for st in ["cap.sites", "cap.operand", "cap.in-callback", "pattern.map-reentry", "inv.reentry", "store.global", "store.conditional", "inv.reentry.slot-global"] {
                    self.stat(st);
                }
                self.stat(&format!("inv.reentry.from-{}", sc.place));
                self.stat(&format!("inv.reentry.limit-{}", limit));
                let mut t = sc.clone();
                t.ints.push(x.clone());
                t.place = "map-cb";
                format!("(let (({lst} (map (lambda ({x}) (+ {x} (call/cc (lambda ({k}) (set! cap (+ cap 1)) (if (= {x} {pick}) (begin (set! kk{i} {k}) (stamp! {i}))) {v})))) (list 1 2 3)))) (set! keep (cons {lst} keep)) (if (and (procedure? kk{i}) (< {c} {l})) (begin (set! {c} (+ {c} 1)) (hit! {i}) (kk{i} {w})) (apply + {lst})))",
                    lst = lst, x = x, k = k, pick = 1 + self.rng.below(3), i = idx, v = self.ie(&t, d1.min(1)), c = c, l = limit, w = self.ie(sc, 0))
            }
            29 => {
                // a continuation captured DEEP (the stack has grown beyond its initial capacity), stored for later forms
                let k = self.fresh("k");
                let depth = *self.rng.pick(&[70u64, 120, 200, 320]);
                self.form_has_cc = true;
                for st in ["cap.sites", "cap.tail", "cap.deep", "pattern.deep-capture"] {
                    self.stat(st);
                }
                let st = self.store(sc, &k);
                format!("(+ (note {n} {pre}) (deep {d} (lambda () (call/cc (lambda ({k}) (set! cap (+ cap 1)) {st} {v})))))", n = 400 + self.rng.below(50), pre = self.ie(sc, 0), d = depth, k = k, st = st, v = self.ie(sc, 0))
            }
            30 | 31 => {
                // a PAIR (or vector) delivered through a continuation is the same object: mutation through the alias
                let (p, q, k) = (self.fresh("p"), self.fresh("q"), self.fresh("k"));
                let vec = self.rng.chance(1, 3);
                let (mk, setq, getp) = if vec {
                    (format!("(vector {} {})", self.ie(sc, 0), self.lit()), format!("(vector-set! {} 0 (+ (vector-ref {} 0) {}))", q, q, self.rng.range(1, 9)), format!("(+ (vector-ref {} 0) (vector-ref {} 1))", p, p))
                } else {
                    (format!("(cons {} {})", self.ie(sc, 0), self.lit()), format!("(set-car! {} (+ (car {}) {}))", q, q, self.rng.range(1, 9)), format!("(+ (car {}) (cdr {}))", p, p))
                };
                self.form_has_cc = true;
                for st in ["cap.sites", "cap.operand", "pattern.data-identity-through-k"] {
                    self.stat(st);
                }
                if self.rng.chance(1, 2) {
                    // escape delivers p
                    self.stat("inv.escape");
                    self.stat("inv.escape.from-receiver");
                    let via = match self.rng.below(3) {
                        0 => format!("({} {})", k, p),
                        1 => format!("(+ 1 ({} {}))", k, p),
                        _ => format!("(deep 3 (lambda () ({} {})))", k, p),
                    };
                    format!("(let* (({p} {mk}) ({q} (call/cc (lambda ({k}) (set! cap (+ cap 1)) (set! esc (+ esc 1)) {via})))) {setq} {getp})", p = p, mk = mk, q = q, k = k, via = via, setq = setq, getp = getp)
                } else {
                    // stored continuation re-entered with p: generator over a mutable object (own slot: it expects data)
                    let slot = if vec { "kd1" } else { "kd0" };
                    let limit = 1 + self.rng.below(3);
                    let c = self.fresh("c");
                    self.counters.push((c.clone(), limit));
                    for st in ["inv.reentry", "store.global", "inv.reentry.slot-global"] {
                        self.stat(st);
                    }
                    self.stat(&format!("inv.reentry.from-{}", sc.place));
                    self.stat(&format!("inv.reentry.limit-{}", limit));
                    format!("(let* (({p} {mk}) ({q} (call/cc (lambda ({k}) (set! cap (+ cap 1)) (set! {s} {k}) {p})))) {setq} (if (and (procedure? {s}) (< {c} {l})) (begin (set! {c} (+ {c} 1)) (set! nsame (+ nsame 1)) ({s} {p})) {getp}))",
                        p = p, mk = mk, q = q, k = k, s = slot, setq = setq, c = c, l = limit, getp = getp)
                }
            }
            32 => {
                // a PARAMETER assigned after the capture, at body level (no inner lambda / let / begin mentions it, so an
                // implementation may keep it in the call frame): re-entry must see the assignment (seed C05e-1)
                let (x, k) = (self.fresh("w"), self.fresh("k"));
                let (slot, idx, kind) = SLOTS[self.rng.below(3) as usize];
                let limit = 1 + self.rng.below(3);
                let c = self.fresh("c");
                self.counters.push((c.clone(), limit));
                self.form_has_cc = true;
                self.stored.push(idx);
                for st in ["cap.sites", "cap.bare", "pattern.frame-local-assigned-after-capture", "inv.reentry", "mut.set-local"] {
                    self.stat(st);
                }
                self.stat(&format!("store.{}", kind));
                self.stat(&format!("inv.reentry.from-{}", sc.place));
                self.stat(&format!("inv.reentry.slot-{}", kind));
                self.stat(&format!("inv.reentry.limit-{}", limit));
                format!("((lambda ({x}) (call/cc (lambda ({k}) (set! cap (+ cap 1)) (set! kk{i} {k}) (stamp! {i}) 0)) (set! {x} (+ {x} {inc})) (if (and (procedure? {s}) (< {c} {l})) (begin (set! {c} (+ {c} 1)) (hit! {i}) ({s} 0)) {x})) {init})",
                    x = x, k = k, i = idx, s = slot, c = c, l = limit, inc = self.rng.range(1, 7), init = self.ie(sc, 0))
            }
            23 if !sc.ks.is_empty() => {
                let e = self.escape(sc, d1);
                if self.rng.chance(1, 2) {
                    format!("(if (< {} {}) {} {})", self.ie(sc, 0), self.ie(sc, 0), e, self.ie(sc, d1))
                } else {
                    e
                }
            }
            24 if !self.procs.is_empty() => {
                let f = self.procs[self.rng.below(self.procs.len() as u64) as usize].clone();
                format!("({} {} {})", f, self.ie(sc, d1), self.ie(sc, 0))
            }
            _ => {
                let mut t = sc.clone();
                t.place = "deep";
                format!("(deep {} (lambda () {}))", self.rng.below(5), self.ie(&t, d1))
            }
        }
    }

    fn session(&mut self, nforms: usize, depth: usize) -> Vec<String> {
        let mut body: Vec<String> = vec![];
        let mut results: Vec<String> = vec![];
        let mut fno = 0;
        while body.len() < nforms {
            fno += 1;
            self.budget = 45;
            self.form_has_cc = false;
            let n_before = self.stats.get("inv.reentry").cloned().unwrap_or(0);
            let top = Sc { place: "top", ..Default::default() };
            let form = match self.rng.below(12) {
                0..=3 => {
                    let r = self.fresh("r");
                    let e = self.ie(&top, depth);
                    results.push(r.clone());
                    format!("(define {} (begin (set! fno {}) {}))", r, fno, e)
                }
                4 | 5 => {
                    let e = self.ie(&top, depth);
                    format!("(begin (set! fno {}) {})", fno, e)
                }
                6 | 7 => {
                    // a later top-level form that re-enters a stored continuation
                    let e = self.reentry(&top, 1);
                    self.stat("inv.reentry.toplevel-form");
                    format!("(begin (set! fno {}) {})", fno, e)
                }
                8 => {
                    let f = self.fresh("f");
                    let (p, q) = (self.fresh("p"), self.fresh("q"));
                    let sc = Sc { ints: vec![p.clone(), q.clone()], muts: vec![p.clone()], place: "proc", ..Default::default() };
                    let b = if self.rng.chance(1, 2) { self.callcc(&sc, depth, "tail") } else { self.ie(&sc, depth) };
                    self.procs.push(f.clone());
                    format!("(define ({} {} {}) {})", f, p, q, b)
                }
                9 => {
                    let e = self.ie(&top, depth);
                    format!("(begin (set! fno {}) (set! g0 {}))", fno, e)
                }
                _ => {
                    // observation
                    match self.rng.below(4) {
                        0 if !results.is_empty() => results[self.rng.below(results.len() as u64) as usize].clone(),
                        1 => "(list g0 g1 tr)".into(),
                        2 => "(list (vector->list iv) ip)".into(),
                        _ => "tr".into(),
                    }
                }
            };
            if self.form_has_cc {
                self.stat("forms.with-callcc");
            }
            if self.stats.get("inv.reentry").cloned().unwrap_or(0) > n_before {
                self.stat("forms.with-reentry-site");
            }
            body.push(form);
            // look at the state after every second action
            if self.rng.chance(1, 2) {
                body.push((*self.rng.pick(&["(list g0 g1 tr)", "(list (vector->list iv) ip g0)", "tr", "(list cap esc)", "keep"])).to_string());
            }
        }
        for r in results.iter().rev().take(3) {
            body.push(r.clone());
        }
        let mut forms: Vec<String> = PRELUDE.iter().map(|s| s.to_string()).collect();
        for (c, _) in &self.counters {
            forms.push(format!("(define {} 0)", c));
        }
        forms.extend(body);
        // the program's own counters: dynamic distribution
        let cs: Vec<String> = self.counters.iter().map(|(c, _)| c.clone()).collect();
        forms.push(format!("(list cap esc nsame ncross {})", cs.join(" ")));
        forms
    }
}

/// the integers of a wire list `pair fix:a pair fix:b … nil`
fn wire_ints(s: &str) -> Vec<i64> {
    s.split(' ').filter_map(|t| t.strip_prefix("fix:").and_then(|x| x.parse().ok())).collect()
}

fn emit(out: &mut impl Write, g: &G, forms: &[String], gc_every: Option<&[u64]>) {
    let t0 = std::time::Instant::now();
    let (res, log) = run_session(forms, gc_every);
    if std::env::var("CONTK_TIMING").is_ok() {
        eprintln!("{:?} gc={:?} deep={:?} forms={}", t0.elapsed(), gc_every.is_some(), g.stats.get("cap.deep"), forms.len());
    }
    let mut tags: Vec<String> = g.stats.iter().map(|(k, v)| format!("{}={}", k, v)).collect();
    if let Some(at) = gc_every {
        tags.push(format!("gc.forced-after-forms={}", forms.len()));
        tags.push(format!("gc.forced-at-instruction-counts={}", at.len()));
        tags.push("sessions.under-forced-gc=1".to_string());
    }
    tags.push(format!("forms={}", forms.len()));
    // dynamic counts from the last form
    if let Some(last) = res.last() {
        if last.starts_with("ok pair") {
            let v = wire_ints(last);
            if v.len() >= 4 {
                tags.push(format!("dyn.captures={}", v[0]));
                tags.push(format!("dyn.escapes={}", v[1]));
                tags.push(format!("dyn.reentry-same-form={}", v[2]));
                tags.push(format!("dyn.reentry-cross-form={}", v[3]));
                for times in 0..4 {
                    tags.push(format!("dyn.site-invoked-{}x={}", times, v[4..].iter().filter(|n| **n == times).count()));
                }
            }
        }
    }
    let texts: Vec<String> = forms.iter().map(|t| enc_text(t)).collect();
    let req = format!("spec-evalk {} D:{} {}", STEPS, tags.join(";"), texts.join(" "));
    writeln!(out, "{}\t{} || {}\t{}", req, res.join(" | "), log, req).unwrap();
}

fn gen_one(master: &mut Rng, i: usize) -> (G, Vec<String>) {
    let mut g = G::new(master.next());
    g.fail = i % 6 == 5;
    if g.fail {
        g.stat("sessions.with-failures");
    }
    let n = 4 + g.rng.below(9) as usize;
    let depth = 2 + g.rng.below(3) as usize;
    let forms = g.session(n, depth);
    (g, forms)
}

fn main() {
    silence_panics();
    let args: Vec<String> = std::env::args().collect();
    let mode = args.get(1).map(|s| s.as_str()).unwrap_or("");
    let n: usize = args.get(2).and_then(|s| s.parse().ok()).unwrap_or(100);
    let stdout = std::io::stdout();
    let mut out = std::io::BufWriter::new(stdout.lock());
    match mode {
        "sessions" => {
            let mut master = Rng::new(seed() ^ 0xC05C);
            for i in 0..n {
                let (g, forms) = gen_one(&mut master, i);
                emit(&mut out, &g, &forms, None);
                if i % 3 == 0 {
                    // the same session with a collection forced after every form and at 24 random instruction counts
                    let mut at: Vec<u64> = (0..24).map(|_| master.below(60_000)).collect();
                    at.sort();
                    emit(&mut out, &g, &forms, Some(&at));
                }
            }
        }
        // corpus/C05/*.scm: one form per line
        "corpus" => {
            let dir = args.get(2).cloned().unwrap_or_else(|| "/verif/corpus/C05".into());
            let mut files: Vec<_> = std::fs::read_dir(&dir).map(|d| d.filter_map(|e| e.ok()).map(|e| e.path()).collect()).unwrap_or_else(|_| vec![]);
            files.sort();
            for p in files {
                if p.extension().map(|e| e != "scm").unwrap_or(true) {
                    continue;
                }
                let text = std::fs::read_to_string(&p).unwrap_or_default();
                let forms: Vec<String> = text.lines().map(|s| s.trim().to_string()).filter(|s| !s.is_empty() && !s.starts_with(';')).collect();
                let mut g = G::new(0);
                g.stat("corpus");
                emit(&mut out, &g, &forms, None);
                emit(&mut out, &g, &forms, Some(&[100, 200, 300, 500, 800, 1300, 2100]));
            }
        }
        "show" => {
            let mut master = Rng::new(seed() ^ 0xC05C);
            for i in 0..n {
                let (g, forms) = gen_one(&mut master, i);
                writeln!(out, ";; session {} {:?}", i, g.stats).unwrap();
                for f in forms.iter().skip(PRELUDE.len()) {
                    writeln!(out, "{}", f).unwrap();
                }
            }
        }
        "run" => {
            let (mut vm, _log) = fresh_vm();
            for line in std::io::stdin().lock().lines() {
                let line = line.unwrap();
                if line.trim().is_empty() {
                    continue;
                }
                writeln!(out, "{}  =>  {}", line, run_form(&mut vm, &line)).unwrap();
            }
        }
        _ => {
            eprintln!("usage: contk sessions N | corpus [DIR] | show N | run");
            std::process::exit(2);
        }
    }
}
