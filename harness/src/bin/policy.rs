//! Correspondence / exploration generators of the POLICY area (C12: memory is bounded by live data).
//! Output: one line per case, `request \t impl-response [\t spec-request]`, or an
//! implementation-level oracle `#oracle <label> \t observed \t expected`.
//!
//! Sub-commands (first argument):
//!   grow <max-exp> [kinds…]   garbage-producing loop templates (one per allocation kind + mixed) × live-set sizes
//!                             {0, 10, 1000} × (n, 10n) for n = 10^2 … 10^max-exp on the real VM with its natural
//!                             collection trigger. Per pair of runs: `#oracle capacity …` (capacity(10n) =
//!                             capacity(n)) and `#oracle live …` (cells in use after a final forced collection,
//!                             symbol-table size, global slots, stack capacity: equal for n and 10n) and
//!                             `#oracle held-bytes …` (host bytes released by dropping the VM, counting
//!                             allocator: held(10n) <= 1.5*held(n) + 64 KiB); per run:
//!                             `policy-trace …` (the recorded collection points replayed through
//!                             Spec.HeapPolicy: capacity before/after each point and the collect/skip decision
//!                             must be equal) and `policy-bound …` (T12.3's bound instantiated with the measured
//!                             A and L must cover the largest capacity seen).
//!   snap <programs> <per>     the C03 snapshot stream (binary `gc snap`) re-rendered for C12: allocated set after
//!                             the real forced collection vs the model's collector (+ kind discipline `Plain`)
//!                             vs Spec.Reach through semantic references.
//!   probe <kind> <live> <n>   one run, human-readable (not used by the plugin)
//!   evalforms <form>…         evaluate forms in one VM and print the results (debugging aid, not used by the plugin)
use marwood::vm::Vm;
use mwv::wire::*;
use std::io::Write;

// ------------------------------------------------------------------ host memory held by a VM

/// Counting allocator: `LIVE` = bytes currently allocated by this process. The memory *held by a VM* is
/// measured as the bytes released by dropping it (cells, payloads of strings / bignums / vectors / code /
/// environments / continuations, free list, gc map, symbol table, global environment, stack).
mod counting {
    use std::alloc::{GlobalAlloc, Layout, System};
    use std::sync::atomic::{AtomicIsize, Ordering::Relaxed};
    pub static LIVE: AtomicIsize = AtomicIsize::new(0);
    pub struct Counting;
    unsafe impl GlobalAlloc for Counting {
        unsafe fn alloc(&self, l: Layout) -> *mut u8 {
            let p = System.alloc(l);
            if !p.is_null() {
                LIVE.fetch_add(l.size() as isize, Relaxed);
            }
            p
        }
        unsafe fn dealloc(&self, p: *mut u8, l: Layout) {
            System.dealloc(p, l);
            LIVE.fetch_sub(l.size() as isize, Relaxed);
        }
        unsafe fn realloc(&self, p: *mut u8, l: Layout, new_size: usize) -> *mut u8 {
            let q = System.realloc(p, l, new_size);
            if !q.is_null() {
                LIVE.fetch_add(new_size as isize - l.size() as isize, Relaxed);
            }
            q
        }
    }
    pub fn live() -> isize {
        LIVE.load(Relaxed)
    }
}
#[global_allocator]
static ALLOC: counting::Counting = counting::Counting;

// ------------------------------------------------------------------ templates

pub const KINDS: [&str; 21] = [
    "pairs", "vectors", "strings", "closures", "continuations", "eval", "toplevel", "symbols",
    "bignums", "mixed", "errors", "syntaxerrors", "unbound", "globalrefs",
    // generated code whose LEXICAL variable names are fresh every iteration (handed to eval and dropped)
    "evallex",
    // the pairs loop run through the sliced entry point (prepare_eval + run_count with a budget far below the
    // 8192-instruction collection cadence): slice boundaries must be collection points
    "sliced",
    // failing evaluations that are SHORT (a handful of instructions) but allocate hundreds of cells in one builtin
    // call before they fail: every failure must still be a collection point
    "shorterrors",
    // call/cc in a loop: the newest continuation is kept, the previous one travels on as a call argument (and
    // then sits in a dead stack slot): a continuation must retain stack[0..=sp] only
    "contchain",
    // a sliced evaluation (prepare_eval + run_count) that is ABANDONED deep inside a recursion, followed by another
    // complete evaluation, n times (what a host does that stops a runaway evaluation): the frames of the abandoned
    // evaluation must not stay behind as roots
    "abandoned",
    // builtins that allocate HUNDREDS of cells per instruction (vector->list, string->list, append, reverse): the
    // free list runs out long before an instruction-count based collection point comes (seed C12e-2)
    "bulk",
    // forms the compiler REJECTS (after allocating their constants) submitted while another evaluation is suspended
    // between two slices: every rejected form must still be a collection point (seed C07f-2)
    "rejected",
];

const BIG: &str = "(* 10000000000 10000000000)";

/// `(mk j)`: one object of the kind, kept in the live list
fn mk_body(kind: &str) -> String {
    match kind {
        "pairs" | "sliced" | "abandoned" | "bulk" | "rejected" => "(list j (cons j j))".into(),
        "vectors" => "(make-vector 4 j)".into(),
        "strings" => "(string-append \"live\" (number->string j))".into(),
        "closures" | "toplevel" | "errors" | "syntaxerrors" | "unbound" | "globalrefs" | "evallex" | "shorterrors" | "contchain" => "(let ((a j) (b (* j 2))) (lambda (x) (+ x a b)))".into(),
        "continuations" => "(call/cc (lambda (k) k))".into(),
        "eval" => "(eval (list 'lambda '(x) (list '+ 'x j)))".into(),
        "symbols" => "(string->symbol (string-append \"live\" (number->string j)))".into(),
        "bignums" => format!("(* {} j)", BIG),
        "mixed" => format!(
            "(let ((m (modulo j 8)))
               (cond ((= m 0) (list j (cons j j)))
                     ((= m 1) (make-vector 4 j))
                     ((= m 2) (string-append \"live\" (number->string j)))
                     ((= m 3) (let ((a j)) (lambda (x) (+ x a))))
                     ((= m 4) (call/cc (lambda (k) k)))
                     ((= m 5) (eval (list 'lambda '(x) (list '+ 'x j))))
                     ((= m 6) (string->symbol (string-append \"live\" (number->string j))))
                     (else (* {} j))))",
            BIG
        ),
        _ => panic!("unknown kind {}", kind),
    }
}

/// `(garbage i)`: creates short-lived objects of the kind and drops them
fn garbage_body(kind: &str) -> String {
    match kind {
        "pairs" | "sliced" | "abandoned" | "rejected" => "(car (list i (cons i i) (list i i i) (append (list i) (list i))))".into(),
        // no Scheme-level loop over the elements (length, map …): that would spend 25 instructions per cell
        "bulk" => "(begin (vector->list (make-vector 200 i)) (string->list (make-string 120 #\\a)) (vector->list (make-vector 60 i)) i)".into(),
        "evallex" => "((lambda (v) (procedure? (eval (list 'lambda (list v) (list 'lambda '() v))))) (string->symbol (string-append \"lexvar\" (number->string i))))".into(),
        "vectors" => "(+ (vector-ref (make-vector 5 i) 0) (vector-length (vector i i i))
                         (vector-length (list->vector (list i i))) (vector-length (vector-copy (vector i 2))))"
            .into(),
        "strings" => "(+ (string-length (string-append (number->string i) \"abc\"))
                         (string-length (make-string 3 #\\x)) (string-length (string-copy \"hello\"))
                         (string-length (list->string (list #\\a #\\b))))"
            .into(),
        "closures" => "(+ ((let ((a i) (b (+ i 1))) (lambda (x) (+ x a b))) 1)
                          (car (map (lambda (x) (+ x i)) (list 1 2 3)))
                          ((((lambda (p) (lambda (q) (lambda (r) (+ p q r)))) i) 2) 3))"
            .into(),
        "continuations" => "(begin
               (set! stash (call/cc (lambda (k) k)))
               (+ 1 (call/cc (lambda (k) (if (even? i) (k i) i)))
                    (call/cc (lambda (k) (for-each (lambda (x) (if (> x 1) (k x))) (list 1 2 3)) 0))))"
            .into(),
        "eval" => "(+ (eval (list '+ i 1))
                      ((eval (list 'lambda '(x) (list 'car (list 'cons 'x i)))) 2)
                      (eval '(let ((y 1) (z 2)) (if (< y z) y z))))"
            .into(),
        "symbols" => "(string-length (symbol->string (string->symbol (string-append \"g\" (number->string i)))))".into(),
        "bignums" => format!(
            "(begin (car (cons (* (+ {b} i) (+ {b} i)) '())) (vector-ref (vector (* {b} {b} (+ i 1))) 0) i)",
            b = BIG
        ),
        "mixed" => format!(
            "(begin
               (car (list i (cons i i) (list i i i)))
               (vector-ref (make-vector 5 i) 0)
               (string-length (string-append (number->string i) \"abc\"))
               ((let ((a i) (b (+ i 1))) (lambda (x) (+ x a b))) 1)
               (set! stash (call/cc (lambda (k) k)))
               (call/cc (lambda (k) (if (even? i) (k i) i)))
               (eval (list '+ i 1))
               ((eval (list 'lambda '(x) (list 'cons 'x i))) 2)
               (string->symbol (string-append \"g\" (number->string i)))
               (car (cons (* (+ {b} i) (+ {b} i)) '()))
               i)",
            b = BIG
        ),
        // toplevel / errors: the garbage is made by the top-level forms themselves
        "toplevel" | "errors" | "syntaxerrors" | "unbound" | "shorterrors" => "i".into(),
        "contchain" => "(car (call/cc (lambda (k) (set! stash k) (list i k (vector k)))))".into(),
        // code that mentions a global variable nobody ever defines, compiled by `eval` and dropped unrun
        "globalrefs" => "(procedure? (eval (list 'lambda '() (string->symbol (string-append \"nobody-defines-\" (number->string i))))))".into(),
        _ => panic!("unknown kind {}", kind),
    }
}

/// the `i`-th top-level form of the `toplevel` template: fresh code (a lambda, a quoted constant, a string
/// literal, a macro use) compiled, run once and dropped
fn toplevel_form(i: usize) -> String {
    format!(
        "((lambda (x) (let ((y (list x '(1 2 3) \"text\" #(1 2)))) (if (pair? y) (car y) x))) {})",
        i
    )
}

/// the `i`-th top-level form of the `errors` template: an evaluation that fails at depth (non-tail recursion),
/// holding garbage in its frames, alternating runtime errors, unbound-variable errors and `(error …)`
fn error_form(i: usize) -> String {
    match i % 3 {
        0 => format!("(deep 20 (lambda () (car {})))", i),
        1 => format!("(deep 20 (lambda () (vector-ref (vector {} 1) 7)))", i),
        _ => format!("(deep 20 (lambda () (error \"boom\" (list {} {}))))", i, i),
    }
}

/// the `i`-th top-level form of the `unbound` template: a reference to a variable nobody ever defines (a typo
/// at the REPL); the evaluation fails with "variable not bound"
fn unbound_form(i: usize) -> String {
    format!("(car (list 1 nobody-defines-{}))", i)
}

/// the `i`-th top-level form of the `syntaxerrors` template: the compiler allocates constants and code, then
/// rejects the form (no instruction is ever executed)
fn syntax_error_form(i: usize) -> String {
    match i % 2 {
        0 => format!("(begin '(1 2 3 {}) \"str\" (lambda (x) (list x 'a)) (lambda))", i),
        _ => format!("(list '(a b {}) (if))", i),
    }
}

fn setup_forms(kind: &str, live: usize) -> Vec<String> {
    let mut v = vec![
        "(define live '())".to_string(),
        "(define stash #f)".to_string(),
        format!("(define (mk j) {})", mk_body(kind)),
        "(define (build j acc) (if (= j 0) acc (build (- j 1) (cons (mk j) acc))))".to_string(),
        format!("(define (garbage i) {})", garbage_body(kind)),
        "(define (loop i n) (if (< i n) (begin (garbage i) (loop (+ i 1) n)) 'done))".to_string(),
        "(define (deep d thunk) (if (= d 0) (thunk) (cons (make-vector 3 d) (deep (- d 1) thunk))))".to_string(),
    ];
    if kind == "toplevel" {
        // the live set is code compiled by `live` separate top-level evaluations
        for j in 0..live {
            v.push(format!(
                "(set! live (cons (lambda (x) (list x {} '(a b))) live))",
                j
            ));
        }
    } else {
        v.push(format!("(set! live (build {} '()))", live));
    }
    v
}

// ------------------------------------------------------------------ one run

#[derive(Clone, Debug)]
struct Point {
    used_before: usize,
    cap_before: usize,
    collected: bool,
    used_after: usize,
    cap_after: usize,
}

#[derive(Debug)]
struct RunResult {
    chunk: usize,
    cap0: usize,
    used0: usize,
    points: Vec<Point>,
    cap_end: usize,
    used_end: usize,
    /// after one final forced collection
    live_cells: usize,
    symtab: usize,
    slots: usize,
    stack_cap: usize,
    evals_failed: usize,
    /// host bytes released by dropping the VM: before / after the final forced collection
    held_end: usize,
    held_live: usize,
}

fn drain(vm: &mut Vm, points: &mut Vec<Point>) {
    for p in vm.verif_take_gc_log() {
        points.push(Point {
            used_before: p.used_before,
            cap_before: p.capacity_before,
            collected: p.collected,
            used_after: p.used_after_sweep,
            cap_after: p.capacity_after,
        });
    }
}

fn run_template(kind: &str, live: usize, n: usize) -> Result<RunResult, String> {
    let kind = kind.to_string();
    catch(std::panic::AssertUnwindSafe(move || {
        let mut vm = Vm::new();
        vm.verif_set_gc_log(true);
        let chunk = vm.verif_heap().verif_chunk_size();
        let cap0 = vm.verif_heap().capacity();
        let used0 = vm.verif_heap().used_size();
        let mut points: Vec<Point> = vec![];
        let mut failed = 0usize;
        for f in setup_forms(&kind, live) {
            if vm.eval_text(&f).is_err() {
                panic!("setup form failed: {}", f);
            }
        }
        match kind.as_str() {
            "toplevel" => {
                for i in 0..n {
                    if vm.eval_text(&toplevel_form(i)).is_err() {
                        panic!("toplevel form failed");
                    }
                    if i % 4096 == 0 {
                        drain(&mut vm, &mut points);
                    }
                }
            }
            "errors" | "syntaxerrors" | "unbound" | "shorterrors" => {
                for i in 0..n {
                    let f = match kind.as_str() {
                        "errors" => error_form(i),
                        "shorterrors" => format!("(vector-ref (list->vector (string->list (make-string 300 #\\a))) {})", 1000 + i),
                        "unbound" => unbound_form(i),
                        _ => syntax_error_form(i),
                    };
                    if vm.eval_text(&f).is_err() {
                        failed += 1;
                    }
                    if i % 4096 == 0 {
                        drain(&mut vm, &mut points);
                    }
                }
            }
            "rejected" => {
                if vm.eval_text("(define (sink d acc) (if (= d 0) (length acc) (+ 1 (sink (- d 1) (cons (list d d) acc)))))").is_err() {
                    panic!("rejected: setup failed");
                }
                let (deep, _) = marwood::parse::parse_text("(sink 100000 '())").unwrap();
                vm.prepare_eval(&deep).unwrap();
                match vm.run_count(2000) {
                    Ok(None) => {}
                    _ => panic!("rejected: the deep evaluation ended early"),
                }
                for i in 0..n {
                    let consts: Vec<String> = (0..24).map(|j| (i * 31 + j).to_string()).collect();
                    let text = format!("(list '({}) \"rejected {}\" (if))", consts.join(" "), i);
                    let (cell, _) = marwood::parse::parse_text(&text).unwrap();
                    if vm.prepare_eval(&cell).is_ok() {
                        panic!("rejected: the form was accepted");
                    }
                    failed += 1;
                    if i % 4096 == 0 {
                        drain(&mut vm, &mut points);
                    }
                }
            }
            "abandoned" => {
                if vm.eval_text("(define (sink d acc) (if (= d 0) (length acc) (+ 1 (sink (- d 1) (cons (list d d) acc)))))").is_err() {
                    panic!("abandoned: setup failed");
                }
                let (deep, _) = marwood::parse::parse_text("(sink 100000 '())").unwrap();
                for i in 0..(n / 50).max(4) {
                    // a non-tail recursion holding fresh lists in its frames, stopped after 2000 instructions
                    vm.prepare_eval(&deep).unwrap();
                    match vm.run_count(2000) {
                        Ok(None) => {}
                        _ => panic!("abandoned: the deep evaluation ended early"),
                    }
                    // ... and the next form is evaluated instead
                    if vm.eval_text("(loop 0 50)").is_err() {
                        panic!("abandoned: loop failed");
                    }
                    if i % 64 == 0 {
                        drain(&mut vm, &mut points);
                    }
                }
            }
            "sliced" => {
                let (cell, _) = marwood::parse::parse_text(&format!("(loop 0 {})", n)).unwrap();
                vm.prepare_eval(&cell).unwrap();
                let mut slices = 0usize;
                loop {
                    match vm.run_count(1000) {
                        Ok(Some(_)) => break,
                        Ok(None) => {}
                        Err(_) => panic!("sliced loop failed"),
                    }
                    slices += 1;
                    if slices % 4096 == 0 {
                        drain(&mut vm, &mut points);
                    }
                }
            }
            _ => {
                if vm.eval_text(&format!("(loop 0 {})", n)).is_err() {
                    panic!("loop failed");
                }
            }
        }
        drain(&mut vm, &mut points);
        let cap_end = vm.verif_heap().capacity();
        let used_end = vm.verif_heap().used_size();
        vm.verif_set_gc_log(false);
        // bytes held right at the end of the run = bytes held after the forced collection + what it released
        let before_gc = counting::live();
        vm.verif_force_gc();
        let after_gc = counting::live();
        let live_cells = vm.verif_heap().used_size();
        let symtab = vm.verif_heap().verif_symbol_table().len();
        let slots = vm.verif_globenv().verif_bindings().len();
        let stack_cap = vm.verif_stack().iter().count();
        let with_vm = counting::live();
        drop(vm);
        let without_vm = counting::live();
        let held_live = (with_vm - without_vm).max(0) as usize;
        let held_end = (held_live as isize + (before_gc - after_gc)).max(0) as usize;
        RunResult {
            chunk,
            cap0,
            used0,
            points,
            cap_end,
            used_end,
            live_cells,
            symtab,
            slots,
            stack_cap,
            evals_failed: failed,
            held_end,
            held_live,
        }
    }))
}

// ------------------------------------------------------------------ rendering

/// run-length encoding of a sequence of tokens: `tok` or `tok*count`
fn rle(toks: &[String]) -> String {
    let mut out: Vec<String> = vec![];
    let mut i = 0;
    while i < toks.len() {
        let mut j = i;
        while j + 1 < toks.len() && toks[j + 1] == toks[i] {
            j += 1;
        }
        let cnt = j - i + 1;
        if cnt == 1 {
            out.push(toks[i].clone());
        } else {
            out.push(format!("{}*{}", toks[i], cnt));
        }
        i = j + 1;
    }
    if out.is_empty() {
        "-".into()
    } else {
        out.join(" ")
    }
}

const MAX_TRACE_POINTS: usize = 60_000;

fn emit_trace(out: &mut impl Write, label: &str, r: &RunResult) {
    // request: the inputs of the policy (allocations between points, live count found by each collection)
    // response: what the policy decided (capacity on entry, collected?, capacity on exit) per point + final
    let mut req = format!(
        "policy-trace {} {} {} {} {}",
        label,
        r.chunk,
        r.cap0,
        r.used0,
        r.points.len()
    );
    let mut resp: Vec<String> = vec![];
    let mut prev_used = r.used0;
    let mut a_max = 0usize;
    let mut l_max = 0usize;
    let mut cap_max = r.cap0;
    for p in &r.points {
        // nothing is freed between collection points, so the difference is the number of `alloc` calls
        let k = p.used_before.checked_sub(prev_used).unwrap_or(usize::MAX);
        req.push_str(&format!(" {} {}", k, p.used_after));
        resp.push(format!(
            "{}:{}:{}:{}",
            p.cap_before,
            if p.collected { 1 } else { 0 },
            p.used_after,
            p.cap_after
        ));
        a_max = a_max.max(k);
        if p.collected {
            l_max = l_max.max(p.used_after);
        }
        cap_max = cap_max.max(p.cap_after).max(p.cap_before);
        prev_used = p.used_after;
    }
    let k_end = r.used_end.checked_sub(prev_used).unwrap_or(usize::MAX);
    a_max = a_max.max(k_end);
    cap_max = cap_max.max(r.cap_end);
    req.push_str(&format!(" {}", k_end));
    writeln!(
        out,
        "{}\tok {} | end {} {}",
        req,
        rle(&resp),
        r.cap_end,
        r.used_end
    )
    .unwrap();
    // T12.3 instantiated with the measured premises
    writeln!(
        out,
        "policy-bound {} {} {} {} {} {} {}\tok within",
        label, r.chunk, r.cap0, r.used0, a_max, l_max, cap_max
    )
    .unwrap();
}

fn obs_capacity(r: &Result<RunResult, String>) -> String {
    match r {
        Ok(r) => format!("ok cap={}", r.cap_end),
        Err(m) => format!("panic {}", enc_text(m)),
    }
}

fn obs_live(r: &Result<RunResult, String>) -> String {
    match r {
        Ok(r) => format!(
            "ok cells={} symtab={} slots={} stack={}",
            r.live_cells, r.symtab, r.slots, r.stack_cap
        ),
        Err(m) => format!("panic {}", enc_text(m)),
    }
}

/// host bytes held by the VM after the final forced collection: the longer run may not hold more than the
/// shorter one beyond the slack of hash-table capacities (which never shrink and depend on the largest number
/// of transient symbols between two collections — bounded by the heap capacity, not by n)
fn obs_held(r10: &Result<RunResult, String>, r1: &Result<RunResult, String>) -> String {
    match (r10, r1) {
        (Ok(a), Ok(b)) => {
            let limit = b.held_live + b.held_live / 2 + 65536;
            if a.held_live <= limit {
                "ok within".into()
            } else {
                format!("ok held(10n)={} exceeds 1.5*held(n)+65536={}", a.held_live, limit)
            }
        }
        (Err(m), _) | (_, Err(m)) => format!("panic {}", enc_text(m)),
    }
}

fn cap_for(kind: &str, max_exp: u32) -> u32 {
    // one top-level evaluation costs a parse + compile (and one collection point each): one decade less
    match kind {
        "toplevel" | "errors" | "syntaxerrors" | "unbound" | "globalrefs" | "eval" | "mixed" | "evallex" | "shorterrors" => max_exp.saturating_sub(1).max(3),
        _ => max_exp,
    }
}

fn cmd_grow(args: &[String]) {
    let max_exp: u32 = args[0].parse().unwrap();
    let kinds: Vec<String> = if args.len() > 1 {
        args[1..].to_vec()
    } else {
        KINDS.iter().map(|s| s.to_string()).collect()
    };
    let stdout = std::io::stdout();
    let mut out = stdout.lock();
    for kind in &kinds {
        for live in [0usize, 10, 1000] {
            // runs are shared between consecutive decades: run(10^e) is `10n` of one pair and `n` of the next
            let top = cap_for(kind, max_exp);
            let mut prev: Option<(usize, Result<RunResult, String>)> = None;
            for e in 2..=top {
                let n = 10usize.pow(e);
                let r = run_template(kind, live, n);
                if let Ok(rr) = &r {
                    if rr.points.len() <= MAX_TRACE_POINTS {
                        emit_trace(&mut out, &format!("{}/{}/{}", kind, live, n), rr);
                    }
                    if (kind == "errors" || kind == "syntaxerrors" || kind == "unbound") && rr.evals_failed != n {
                        writeln!(
                            out,
                            "#oracle errors-all-fail kind={} live={} n={}\tok failed={}\tok failed={}",
                            kind, live, n, rr.evals_failed, n
                        )
                        .unwrap();
                    }
                }
                if let Some((pn, pr)) = &prev {
                    writeln!(
                        out,
                        "#oracle capacity kind={} live={} n={} 10n={}\t{}\t{}",
                        kind,
                        live,
                        pn,
                        n,
                        obs_capacity(&r),
                        obs_capacity(pr)
                    )
                    .unwrap();
                    writeln!(
                        out,
                        "#oracle held-bytes kind={} live={} n={} 10n={}\t{}\tok within",
                        kind,
                        live,
                        pn,
                        n,
                        obs_held(&r, pr)
                    )
                    .unwrap();
                    writeln!(
                        out,
                        "#oracle live kind={} live={} n={} 10n={}\t{}\t{}",
                        kind,
                        live,
                        pn,
                        n,
                        obs_live(&r),
                        obs_live(pr)
                    )
                    .unwrap();
                }
                prev = Some((n, r));
            }
        }
    }
}

// ------------------------------------------------------------------ snapshots (shared with C03)

/// the token of a `gc` summary that starts with `letter`
fn field<'a>(resp: &'a str, letter: char) -> Option<&'a str> {
    resp.split(' ')
        .skip(1)
        .find(|t| t.starts_with(letter))
        .map(|t| &t[1..])
}

fn cmd_snap(args: &[String]) {
    let exe = std::env::current_exe().expect("current_exe");
    let gc = exe.parent().expect("bin dir").join("gc");
    // other programs and schedules than the C03 stream of the same run
    let seed: u64 = std::env::var("VERIF_SEED").ok().and_then(|s| s.parse().ok()).unwrap_or(1);
    let outp = std::process::Command::new(gc)
        .env("VERIF_SEED", seed.wrapping_add(0xC12).to_string())
        .arg("snap")
        .args(args)
        .output()
        .expect("run gc snap");
    if !outp.status.success() {
        eprintln!("gc snap failed: {}", String::from_utf8_lossy(&outp.stderr));
        std::process::exit(3);
    }
    let stdout = std::io::stdout();
    let mut out = stdout.lock();
    for line in String::from_utf8_lossy(&outp.stdout).lines() {
        let f: Vec<&str> = line.split('\t').collect();
        if f.len() < 2 {
            continue;
        }
        if let Some(before) = f[0].strip_prefix("gc-run 1 ") {
            // allocated set and capacity left by the real collector
            let a = field(f[1], 'a').unwrap_or("?");
            let c = field(f[1], 'c').unwrap_or("?");
            writeln!(
                out,
                "policy-collect {}\tok c{} a{} plain\tpolicy-live {}",
                before, c, a, before
            )
            .unwrap();
        } else {
            // a panic of the real VM while stepping: pass through as an oracle that cannot hold
            writeln!(out, "#oracle snap-panic {}\t{}\tno-panic", f[0], f[1]).unwrap();
        }
    }
}

fn cmd_probe(args: &[String]) {
    let kind = &args[0];
    let live: usize = args[1].parse().unwrap();
    let n: usize = args[2].parse().unwrap();
    let t = std::time::Instant::now();
    match run_template(kind, live, n) {
        Ok(r) => {
            let collected = r.points.iter().filter(|p| p.collected).count();
            let caps: Vec<String> = {
                let mut v: Vec<usize> = r.points.iter().map(|p| p.cap_after).collect();
                v.dedup();
                v.iter().map(|c| c.to_string()).collect()
            };
            println!(
                "{} live={} n={}: cap0={} used0={} points={} collected={} caps={} cap_end={} used_end={} live_cells={} symtab={} slots={} stack={} failed={} held_end={} held_live={} [{:.2}s]",
                kind, live, n, r.cap0, r.used0, r.points.len(), collected, caps.join(">"), r.cap_end, r.used_end,
                r.live_cells, r.symtab, r.slots, r.stack_cap, r.evals_failed, r.held_end, r.held_live, t.elapsed().as_secs_f64()
            );
        }
        Err(m) => println!("{} live={} n={}: panic {}", kind, live, n, m),
    }
}

fn main() {
    silence_panics();
    let args: Vec<String> = std::env::args().skip(1).collect();
    if args.is_empty() {
        eprintln!("usage: policy <grow|snap|probe> …");
        std::process::exit(2);
    }
    match args[0].as_str() {
        "grow" => cmd_grow(&args[1..]),
        "snap" => cmd_snap(&args[1..]),
        "probe" => cmd_probe(&args[1..]),
        "evalforms" => {
            let mut vm = Vm::new();
            for f in &args[1..] {
                match vm.eval_text(f) {
                    Ok((c, _)) => println!("{} => {:#}", f, c),
                    Err(e) => println!("{} => ERR {:?}", f, e),
                }
            }
        }
        other => {
            eprintln!("unknown sub-command {}", other);
            std::process::exit(2);
        }
    }
}
