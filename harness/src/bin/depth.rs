//! C19 — native recursion depth.
//!
//! `depth measure <n>…`   depth counters of the real code (hook `verif::depth`) on the nested input
//!                        families, one line per (function, direction, n): `measure f dir n \t ok k`
//! `depth grid <n>… [--only op/dir] [--timeout s] [--jobs k]`
//!                        one isolated child process per scenario (operation × direction × depth ×
//!                        thread); the exit status of the child is the observation:
//!                        `grid op dir n thread profile \t ok g=k,… | err class | abort … | slow …`
//! `depth child op dir n thread`   the scenario itself (prints `stage …` lines, then `result …`)
//! `depth drop-bytes <n>…` native stack bytes used by the (uninstrumentable) drop glue of `Cell`
//! `depth chain-dump closure|cont <n>`  debug aid: the heap cells of a chain built at run time and the marker's depth
use marwood::cell::Cell;
use marwood::number::Number;
use marwood::vm::verif::depth;
use marwood::vm::{SystemInterface, Vm};
use marwood::{lex, parse};
use mwv::wire::catch;
use std::io::{Read, Write};
use std::os::unix::process::{CommandExt, ExitStatusExt};
use std::process::{Command, Stdio};
use std::sync::{Arc, Mutex};
use std::time::{Duration, Instant};

// ------------------------------------------------------------------ input families

fn sym(s: &str) -> Cell {
    Cell::Symbol(s.to_string())
}

fn one() -> Cell {
    Cell::Number(Number::Fixnum(1))
}

fn two() -> Cell {
    Cell::Number(Number::Fixnum(2))
}

fn list(items: Vec<Cell>) -> Cell {
    Cell::new_list(items)
}

/// Element `i` of the `cdr-of-pairs` family: a freshly built aggregate, `(1 . 2)` for even `i`,
/// `#(1 2)` for odd `i` (never the same object in two copies of the list).
fn pairs_elem(i: usize) -> Cell {
    if i % 2 == 0 {
        Cell::Pair(Box::new(one()), Box::new(two()))
    } else {
        Cell::Vector(vec![one(), two()])
    }
}

/// The nested datum / expression of direction `dir` and depth `n`, built without recursion.
fn nest_cell(dir: &str, n: usize) -> Cell {
    match dir {
        "car" => {
            let mut x = Cell::Nil;
            for _ in 0..n {
                x = Cell::Pair(Box::new(x), Box::new(Cell::Nil));
            }
            x
        }
        "cdr" | "dot" => {
            let mut x = Cell::Nil;
            for _ in 0..n {
                x = Cell::Pair(Box::new(one()), Box::new(x));
            }
            x
        }
        // a flat list of n shallow aggregates: element i (counted from the end) is pairs_elem(i)
        "cdr-of-pairs" => {
            let mut x = Cell::Nil;
            for i in 0..n {
                x = Cell::Pair(Box::new(pairs_elem(i)), Box::new(x));
            }
            x
        }
        // a flat list of n ones whose last cdr is 2 instead of (): `(1 1 … 1 . 2)`
        "cdr-dotted" => {
            let mut x = two();
            for _ in 0..n {
                x = Cell::Pair(Box::new(one()), Box::new(x));
            }
            x
        }
        "vec" => {
            let mut x = Cell::Vector(vec![]);
            for _ in 0..n {
                x = Cell::Vector(vec![x]);
            }
            x
        }
        "quote" => {
            let mut x = sym("x");
            for _ in 0..n {
                x = list(vec![sym("quote"), x]);
            }
            x
        }
        "expr-app" => {
            let mut x = Cell::Number(Number::Fixnum(0));
            for _ in 0..n {
                x = list(vec![sym("+"), one(), x]);
            }
            x
        }
        "expr-lambda" => {
            let mut x = Cell::Number(Number::Fixnum(0));
            for _ in 0..n {
                x = list(vec![list(vec![sym("lambda"), Cell::Nil, x])]);
            }
            x
        }
        "expr-let" => {
            let mut x = Cell::Number(Number::Fixnum(0));
            for _ in 0..n {
                x = list(vec![sym("let"), list(vec![list(vec![sym("a"), one()])]), x]);
            }
            x
        }
        _ => panic!("unknown direction {}", dir),
    }
}

/// The text the reader turns into `nest_cell(dir, n)`.
fn nest_text(dir: &str, n: usize) -> String {
    let rep = |s: &str| s.repeat(n);
    match dir {
        "car" => format!("{}(){}", rep("("), rep(")")),
        "cdr" => format!("({})", rep("1 ")),
        "dot" => format!("{}(){}", rep("(1 . "), rep(")")),
        "cdr-of-pairs" => {
            let mut s = String::with_capacity(8 * n + 2);
            s.push('(');
            for i in (0..n).rev() {
                s.push_str(if i % 2 == 0 { "(1 . 2) " } else { "#(1 2) " });
            }
            s.push(')');
            s
        }
        "cdr-dotted" => {
            if n == 0 {
                "2".to_string()
            } else {
                format!("({}. 2)", rep("1 "))
            }
        }
        "vec" => format!("{}#(){}", rep("#("), rep(")")),
        "quote" => format!("{}x", rep("'")),
        "expr-app" => format!("{}0{}", rep("(+ 1 "), rep(")")),
        "expr-lambda" => format!("{}0{}", rep("((lambda () "), rep("))")),
        "expr-let" => format!("{}0{}", rep("(let ((a 1)) "), rep(")")),
        _ => panic!("unknown direction {}", dir),
    }
}

/// Scheme definition of `(mk n)`: the structure of direction `dir` built at run time by a loop
/// in tail position (no deep source text, no deep VM stack).
fn mk_program(dir: &str) -> String {
    let (init, step) = match dir {
        "car" => ("'()", "(cons acc '())"),
        "cdr" => ("'()", "(cons 1 acc)"),
        "cdr-of-pairs" => ("'()", "(cons (if (even? i) (cons 1 2) (vector 1 2)) acc)"),
        "cdr-dotted" => ("2", "(cons 1 acc)"),
        "vec" => ("(vector)", "(vector acc)"),
        "quote" => ("'x", "(cons 'quote (cons acc '()))"),
        "closure" => ("0", "(lambda () acc)"),
        "cont" => ("0", "(call/cc (lambda (k) k))"),
        _ => panic!("unknown direction {}", dir),
    };
    format!(
        "(define (mk n) (let loop ((i 0) (acc {})) (if (= i n) acc (loop (+ i 1) {}))))",
        init, step
    )
}

/// Scheme expression measuring the depth of `x` again (tail-recursive walk); None: no walk.
fn walk_program(dir: &str) -> Option<&'static str> {
    match dir {
        "car" => Some("(let loop ((x x) (i 0)) (if (pair? x) (loop (car x) (+ i 1)) i))"),
        "cdr" | "cdr-of-pairs" | "cdr-dotted" => {
            Some("(let loop ((x x) (i 0)) (if (pair? x) (loop (cdr x) (+ i 1)) i))")
        }
        "vec" => Some(
            "(let loop ((x x) (i 0)) (if (= (vector-length x) 0) i (loop (vector-ref x 0) (+ i 1))))",
        ),
        "quote" => Some("(let loop ((x x) (i 0)) (if (pair? x) (loop (car (cdr x)) (+ i 1)) i))"),
        "closure" => Some("(let loop ((x x) (i 0)) (if (procedure? x) (loop (x) (+ i 1)) i))"),
        _ => None,
    }
}

const DATA_DIRS: [&str; 6] = ["car", "cdr", "vec", "quote", "cdr-of-pairs", "cdr-dotted"];
const DATA_OPS: [&str; 7] = ["read", "quote", "build", "gc", "equal", "write", "drop"];
const CHAIN_DIRS: [&str; 2] = ["closure", "cont"];
const CHAIN_OPS: [&str; 5] = ["build", "gc", "equal", "write", "drop"];
const EXPR_DIRS: [&str; 3] = ["expr-app", "expr-lambda", "expr-let"];
const EXPR_OPS: [&str; 3] = ["read", "build", "drop"];

/// The scenario grid: (operation, direction).
/// Library procedures applied to LONG run-time data (a list, a string and a vector of n elements, an association
/// list of n entries): the operation "evaluating computations on data nested n deep" of the property, along cdr, for
/// every procedure that walks such data. Label (no blanks) and the expression; `l s v al` are the long objects.
/// The value is bound, never returned (returning it would measure the result conversion, which is `write`'s cell).
const LIB: [(&str, &str); 62] = [
    ("length", "(length l)"),
    ("list?", "(list? l)"),
    ("reverse", "(reverse l)"),
    ("append-first", "(append l '(1))"),
    ("append-last", "(append '(1) l)"),
    ("append-both", "(append l l)"),
    ("list-tail", "(list-tail l (- n 1))"),
    ("list-ref-last", "(list-ref l (- n 1))"),
    ("list-ref-early", "(list-ref l 5)"),
    ("memq-miss", "(memq 'zz l)"),
    ("memv-miss", "(memv -1 l)"),
    ("member-miss", "(member -1 l)"),
    ("member-hit-late", "(member (- n 1) l)"),
    ("assq-miss", "(assq 'zz al)"),
    ("assv-miss", "(assv -1 al)"),
    ("assoc-miss", "(assoc -1 al)"),
    ("map-1", "(map (lambda (x) x) l)"),
    ("map-2", "(map + l l)"),
    ("map-builtin", "(map list l)"),
    ("for-each", "(for-each (lambda (x) x) l)"),
    ("apply-plus", "(apply + l)"),
    ("apply-list", "(apply list l)"),
    ("apply-vector", "(apply vector l)"),
    ("apply-max", "(apply max l)"),
    ("list->vector", "(list->vector l)"),
    ("vector->list", "(vector->list v)"),
    ("vector->list-from", "(vector->list v 10)"),
    ("vector-copy", "(vector-copy v)"),
    ("vector-fill!", "(vector-fill! v 2)"),
    ("vector-copy!", "(vector-copy! v 0 v)"),
    ("make-vector", "(make-vector n l)"),
    ("equal-list-self", "(equal? l l)"),
    ("equal-list-copy", "(equal? l (append l '()))"),
    ("equal-vector-copy", "(equal? v (vector-copy v))"),
    ("equal-string-copy", "(equal? s (string-copy s))"),
    ("string->list", "(string->list s)"),
    ("string->list-slice", "(string->list s 10 20)"),
    ("list->string", "(list->string (string->list s))"),
    ("string-copy", "(string-copy s)"),
    ("substring", "(substring s 1 (- n 1))"),
    ("string-append", "(string-append s s)"),
    ("string-upcase", "(string-upcase s)"),
    ("string-downcase", "(string-downcase s)"),
    ("string-foldcase", "(string-foldcase s)"),
    ("string<?", "(string<? s s)"),
    ("string-ci=?", "(string-ci=? s s)"),
    ("string-fill!", "(string-fill! s #\\b)"),
    ("string-ref-last", "(string-ref s (- n 1))"),
    ("string->symbol", "(string->symbol s)"),
    ("symbol->string", "(symbol->string (string->symbol s))"),
    ("string->number", "(string->number s)"),
    ("number->string-big", "(number->string (expt 7 n))"),
    ("string->vector", "(string->vector s)"),
    ("vector->string", "(vector->string (make-vector n #\\a))"),
    ("string-apply", "(apply string (string->list s))"),
    ("list-copy", "(list-copy l)"),
    ("length-of-map", "(length (map (lambda (x) (cons x x)) l))"),
    // type errors whose payload is the long datum: the error value is built, classified and dropped
    ("err-vector-ref-list", "(vector-ref l 0)"),
    ("err-string-length-list", "(string-length l)"),
    ("err-plus-list", "(+ 1 l)"),
    ("err-car-vector", "(car v)"),
    ("err-apply-improper", "(apply + 1 (append l 2))"),
];

fn lib_setup(n: usize) -> String {
    format!(
        "(define n {})
         (define (mk k) (let loop ((i 0) (acc '())) (if (= i k) acc (loop (+ i 1) (cons (- k i 1) acc)))))
         (define l (mk n))
         (define al (let loop ((i 0) (acc '())) (if (= i n) acc (loop (+ i 1) (cons (cons i i) acc)))))
         (define s (make-string n #\\a))
         (define v (make-vector n 1))",
        n
    )
}

fn scenarios() -> Vec<(&'static str, &'static str)> {
    let mut v = vec![];
    for (label, _) in LIB {
        v.push(("lib", label));
    }
    for d in DATA_DIRS {
        for o in DATA_OPS {
            v.push((o, d));
        }
    }
    v.push(("read", "dot"));
    for d in CHAIN_DIRS {
        for o in CHAIN_OPS {
            v.push((o, d));
        }
    }
    v.push(("build", "nontail"));
    v.push(("gc", "nontail"));
    v.push(("build", "nontail-error"));
    for d in EXPR_DIRS {
        for o in EXPR_OPS {
            v.push((o, d));
        }
    }
    v
}

// ------------------------------------------------------------------ the child

fn stage(name: &str) {
    println!("stage {}", name);
    let _ = std::io::stdout().flush();
}

#[derive(Debug)]
struct Sink;

impl SystemInterface for Sink {
    fn display(&self, cell: &Cell) {
        stage("fmt");
        let s = format!("{}", cell);
        std::hint::black_box(&s);
        stage("drop-converted");
    }
    fn write(&self, cell: &Cell) {
        stage("fmt");
        let s = format!("{:#}", cell);
        std::hint::black_box(&s);
        stage("drop-converted");
    }
    fn terminal_dimensions(&self) -> (usize, usize) {
        (80, 24)
    }
    fn time_utc(&self) -> u64 {
        0
    }
}

fn groups_line() -> String {
    let c = depth::snapshot();
    let mut v: Vec<String> = c
        .groups
        .iter()
        .filter(|g| g.max > 0)
        .map(|g| format!("{}={}", g.name, g.max))
        .collect();
    v.sort();
    if v.is_empty() {
        "-".into()
    } else {
        v.join(",")
    }
}

fn err_class(e: &marwood::error::Error) -> &'static str {
    mwv::session::error_class(e)
}

/// Evaluate every form of `text`; the value of the last one as text (small values only).
fn eval_all(vm: &mut Vm, text: &str) -> Result<String, String> {
    let mut rest = Some(text);
    let mut last = String::new();
    while let Some(t) = rest {
        if t.trim().is_empty() {
            break;
        }
        match vm.eval_text(t) {
            Ok((cell, r)) => {
                last = format!("{:#}", cell);
                rest = r;
            }
            Err(e) => return Err(format!("err {}", err_class(&e))),
        }
    }
    Ok(last)
}

/// One scenario. Returns the `result …` payload.
fn scenario(op: &str, dir: &str, n: usize) -> String {
    let data = DATA_DIRS.contains(&dir) || dir == "dot";
    let expr = EXPR_DIRS.contains(&dir);
    match (op, dir) {
        ("read", _) if data || expr => {
            let text = nest_text(dir, n);
            stage("lex");
            let tokens = match lex::scan(&text) {
                Ok(t) => t,
                Err(_) => return "err lex".into(),
            };
            stage("parse");
            depth::reset();
            let mut cur = tokens.iter().peekable();
            let r = parse::parse(&text, &mut cur);
            let g = groups_line();
            let out = match &r {
                Ok(_) => format!("ok {}", g),
                Err(_) => "err parse".into(),
            };
            std::mem::forget(r);
            out
        }
        ("lib", _) => {
            let expr = match LIB.iter().find(|(l, _)| *l == dir) {
                Some((_, e)) => *e,
                None => return "err unknown-lib-scenario".into(),
            };
            stage("vm");
            let mut vm = Vm::new();
            vm.set_system_interface(Box::new(Sink));
            stage("setup");
            if let Err(e) = eval_all(&mut vm, &lib_setup(n)) {
                return e;
            }
            stage("call");
            let r = eval_all(&mut vm, &format!("(define r {})", expr));
            stage("collect");
            vm.verif_force_gc();
            match r {
                Ok(_) => "ok -".into(),
                Err(e) => e,
            }
        }
        ("drop", _) if data || expr => {
            stage("construct");
            let cell = nest_cell(dir, n);
            stage("drop");
            drop(std::hint::black_box(cell));
            "ok -".into()
        }
        ("quote", _) if data => {
            stage("vm");
            let mut vm = Vm::new();
            let cell = list(vec![sym("quote"), nest_cell(dir, n)]);
            stage("compile");
            depth::reset();
            if let Err(e) = vm.prepare_eval(&cell) {
                return format!("err {}", err_class(&e));
            }
            stage("run");
            let r = vm.run();
            let g = groups_line();
            let out = match &r {
                Ok(_) => format!("ok {}", g),
                Err(e) => format!("err {}", err_class(e)),
            };
            std::mem::forget(r);
            std::mem::forget(cell);
            out
        }
        ("build", _) if expr => {
            stage("vm");
            let mut vm = Vm::new();
            let cell = nest_cell(dir, n);
            stage("compile");
            depth::reset();
            if let Err(e) = vm.prepare_eval(&cell) {
                std::mem::forget(cell);
                return format!("err {}", err_class(&e));
            }
            stage("run");
            let r = vm.run();
            let g = groups_line();
            let out = match &r {
                Ok(v) => {
                    let want = if dir == "expr-app" { n.to_string() } else { "0".to_string() };
                    let got = format!("{}", v);
                    if got == want {
                        format!("ok {}", g)
                    } else {
                        format!("wrong value {}", got)
                    }
                }
                Err(e) => format!("err {}", err_class(e)),
            };
            std::mem::forget(cell);
            out
        }
        (_, "nontail") | (_, "nontail-error") => {
            stage("vm");
            let mut vm = Vm::new();
            let base = if dir == "nontail" { "0" } else { "(car '())" };
            if let Err(e) = eval_all(
                &mut vm,
                &format!("(define (count n) (if (= n 0) {} (+ 1 (count (- n 1)))))", base),
            ) {
                return e;
            }
            if op == "gc" {
                // collections while the VM stack is deep
                vm.verif_set_gc_every(Some(std::cmp::max(1000, n / 4)));
            }
            stage("run");
            depth::reset();
            let r = eval_all(&mut vm, &format!("(count {})", n));
            let g = groups_line();
            match r {
                Ok(v) if v == n.to_string() => format!("ok {}", if op == "gc" { g } else { "-".into() }),
                Ok(v) => format!("wrong value {}", v),
                Err(e) => e,
            }
        }
        _ => {
            // structures built at run time
            stage("vm");
            let mut vm = Vm::new();
            vm.set_system_interface(Box::new(Sink));
            if let Err(e) = eval_all(&mut vm, &mk_program(dir)) {
                return e;
            }
            // what the other roots (prelude) contribute to the marker's depth
            vm.verif_force_gc();
            depth::reset();
            vm.verif_force_gc();
            let base = depth::max_of_group("mark");
            stage("build");
            depth::reset();
            if let Err(e) = eval_all(&mut vm, &format!("(define x (mk {}))", n)) {
                return e;
            }
            match op {
                "build" => match walk_program(dir) {
                    Some(w) => {
                        stage("walk");
                        match eval_all(&mut vm, w) {
                            Ok(v) if v == n.to_string() => "ok -".into(),
                            Ok(v) => format!("wrong walk {}", v),
                            Err(e) => e,
                        }
                    }
                    None => "ok -".into(),
                },
                "gc" => {
                    stage("gc");
                    depth::reset();
                    vm.verif_force_gc();
                    let g = format!("mark={},markbase={}", depth::max_of_group("mark"), base);
                    match walk_program(dir) {
                        Some(w) => {
                            stage("walk");
                            match eval_all(&mut vm, w) {
                                Ok(v) if v == n.to_string() => format!("ok {}", g),
                                Ok(v) => format!("wrong walk {}", v),
                                Err(e) => e,
                            }
                        }
                        None => format!("ok {}", g),
                    }
                }
                "equal" => {
                    stage("build2");
                    if let Err(e) = eval_all(&mut vm, &format!("(define y (mk {}))", n)) {
                        return e;
                    }
                    stage("equal");
                    let (cell, _) = parse::parse_text("(equal? x y)").unwrap();
                    if let Err(e) = vm.prepare_eval(&cell) {
                        return format!("err {}", err_class(&e));
                    }
                    depth::reset();
                    let r = vm.run();
                    let g = format!("equal={}", depth::max_of_group("equal"));
                    let want = if DATA_DIRS.contains(&dir) { "#t" } else { "#f" };
                    match r {
                        Ok(v) if format!("{}", v) == want => format!("ok {}", g),
                        Ok(v) => format!("wrong value {}", v),
                        Err(e) => format!("err {}", err_class(&e)),
                    }
                }
                "write" => {
                    stage("get_as_cell");
                    let (cell, _) = parse::parse_text("(write x)").unwrap();
                    if let Err(e) = vm.prepare_eval(&cell) {
                        return format!("err {}", err_class(&e));
                    }
                    depth::reset();
                    let r = vm.run();
                    let g = format!(
                        "fmt={},get={}",
                        depth::max_of_group("fmt"),
                        depth::max_of_group("get")
                    );
                    match r {
                        Ok(_) => format!("ok {}", g),
                        Err(e) => format!("err {}", err_class(&e)),
                    }
                }
                "drop" => {
                    // run-time structure: unbind and collect
                    stage("unbind");
                    if let Err(e) = eval_all(&mut vm, "(set! x 0)") {
                        return e;
                    }
                    stage("collect");
                    vm.verif_force_gc();
                    vm.verif_force_gc();
                    "ok -".into()
                }
                _ => format!("bad-scenario {} {}", op, dir),
            }
        }
    }
}

#[repr(C)]
struct Rlimit {
    cur: u64,
    max: u64,
}

extern "C" {
    fn setrlimit(resource: i32, rlim: *const Rlimit) -> i32;
}

const RLIMIT_STACK: i32 = 3;
const RLIMIT_CORE: i32 = 4;
const MAIN_STACK: u64 = 8 << 20;
const SMALL_STACK: usize = 2 << 20;

fn child(op: String, dir: String, n: usize, thread: String) -> ! {
    unsafe {
        setrlimit(RLIMIT_CORE, &Rlimit { cur: 0, max: 0 });
    }
    std::panic::set_hook(Box::new(|_| {}));
    let body = move || match catch(std::panic::AssertUnwindSafe(|| scenario(&op, &dir, n))) {
        Ok(s) => s,
        Err(m) => format!("panic {}", m.replace(['\n', '\t'], " ")),
    };
    let result = if thread == "main" {
        body()
    } else {
        std::thread::Builder::new()
            .stack_size(SMALL_STACK)
            .spawn(body)
            .unwrap()
            .join()
            .unwrap_or_else(|_| "panic thread".into())
    };
    println!("result {}", result);
    let _ = std::io::stdout().flush();
    // no destructors: the scenario decides what is dropped
    std::process::exit(0)
}

// ------------------------------------------------------------------ the grid (parent)

fn profile() -> &'static str {
    if cfg!(debug_assertions) {
        "debug"
    } else {
        "release"
    }
}

fn run_child(op: &str, dir: &str, n: usize, thread: &str, timeout: Duration) -> String {
    let exe = std::env::current_exe().unwrap();
    let mut cmd = Command::new(exe);
    cmd.args(["child", op, dir, &n.to_string(), thread])
        .stdin(Stdio::null())
        .stdout(Stdio::piped())
        .stderr(Stdio::piped());
    unsafe {
        cmd.pre_exec(|| {
            setrlimit(RLIMIT_CORE, &Rlimit { cur: 0, max: 0 });
            setrlimit(
                RLIMIT_STACK,
                &Rlimit {
                    cur: MAIN_STACK,
                    max: MAIN_STACK,
                },
            );
            Ok(())
        });
    }
    let mut ch = match cmd.spawn() {
        Ok(c) => c,
        Err(e) => return format!("spawn-failed {}", e),
    };
    let t0 = Instant::now();
    let mut timed_out = false;
    let status = loop {
        match ch.try_wait() {
            Ok(Some(st)) => break st,
            Ok(None) => {
                if t0.elapsed() > timeout {
                    timed_out = true;
                    let _ = ch.kill();
                    break ch.wait().unwrap();
                }
                std::thread::sleep(Duration::from_millis(5));
            }
            Err(e) => return format!("wait-failed {}", e),
        }
    };
    let mut out = String::new();
    let mut err = String::new();
    let _ = ch.stdout.take().unwrap().read_to_string(&mut out);
    let _ = ch.stderr.take().unwrap().read_to_string(&mut err);
    let mut last_stage = "start".to_string();
    let mut result = None;
    for line in out.lines() {
        if let Some(s) = line.strip_prefix("stage ") {
            last_stage = s.to_string();
        } else if let Some(r) = line.strip_prefix("result ") {
            result = Some(r.to_string());
        }
    }
    if timed_out {
        return format!("slow {}", last_stage);
    }
    if let Some(sig) = status.signal() {
        let what = if err.contains("overflowed its stack") {
            "stack-overflow".to_string()
        } else {
            format!("signal-{}", sig)
        };
        return format!("abort {} {}", what, last_stage);
    }
    match result {
        Some(r) if status.code() == Some(0) => r,
        _ => format!("exit {:?} {}", status.code(), last_stage),
    }
}

fn grid(args: &[String]) {
    let mut depths = vec![];
    let mut only: Option<String> = None;
    let mut timeout = 30u64;
    let mut jobs = 16usize;
    let mut threads: Vec<&'static str> = vec!["main", "t2m"];
    let mut i = 0;
    while i < args.len() {
        match args[i].as_str() {
            "--only" => {
                only = Some(args[i + 1].clone());
                i += 1;
            }
            "--timeout" => {
                timeout = args[i + 1].parse().unwrap();
                i += 1;
            }
            "--jobs" => {
                jobs = args[i + 1].parse().unwrap();
                i += 1;
            }
            "--threads" => {
                threads = args[i + 1].split(',').map(|t| if t == "main" { "main" } else { "t2m" }).collect();
                i += 1;
            }
            d => depths.push(d.parse::<usize>().expect("depth")),
        }
        i += 1;
    }
    let mut work = vec![];
    for (op, dir) in scenarios() {
        if let Some(f) = &only {
            let key = format!("{}/{}", op, dir);
            if !(key == *f || f.strip_suffix("/*") == Some(op) || f.strip_prefix("*/") == Some(dir)) {
                continue;
            }
        }
        for &n in &depths {
            for &thread in &threads {
                work.push((op, dir, n, thread));
            }
        }
    }
    let total = work.len();
    let queue = Arc::new(Mutex::new((0usize, work)));
    let results = Arc::new(Mutex::new(vec![String::new(); total]));
    let mut handles = vec![];
    for _ in 0..jobs {
        let queue = queue.clone();
        let results = results.clone();
        handles.push(std::thread::spawn(move || loop {
            let (idx, item) = {
                let mut q = queue.lock().unwrap();
                if q.0 >= q.1.len() {
                    return;
                }
                let idx = q.0;
                q.0 += 1;
                (idx, q.1[idx])
            };
            let (op, dir, n, thread) = item;
            let t0 = Instant::now();
            let r = run_child(op, dir, n, thread, Duration::from_secs(timeout));
            if std::env::var("VERIF_DEPTH_TIMES").is_ok() {
                eprintln!("{} ms {} {} {} {} {}", t0.elapsed().as_millis(), op, dir, n, thread, r);
            }
            let key = format!("{} {} {} {} {}", op, dir, n, thread, profile());
            results.lock().unwrap()[idx] = format!("grid {}\t{}\tgrid-spec {}", key, r, key);
        }));
    }
    for h in handles {
        h.join().unwrap();
    }
    for line in results.lock().unwrap().iter() {
        println!("{}", line);
    }
}

/// Scheme definition of `(mk n)` for the chain families of `measure`: every level is made by a call of a
/// top-level procedure, so that the chain hangs off nothing but its own code (no named-let environment).
fn chain_program(dir: &str) -> String {
    let wrap = match dir {
        "closure" => "(define (wrap acc) (lambda () acc))",
        "cont" => "(define (wrap acc) (call/cc (lambda (k) k)))",
        _ => panic!("unknown chain {}", dir),
    };
    format!(
        "{} (define (mk n) (let loop ((i 0) (acc 0)) (if (= i n) acc (loop (+ i 1) (wrap acc)))))",
        wrap
    )
}

/// Heap address the global variable `name` refers to (its slot holds a `Ptr`).
fn global_ptr(vm: &Vm, name: &str) -> Option<usize> {
    let sym = *vm.verif_heap().verif_symbol_table().get(name)?;
    let slot = vm.verif_globenv().verif_bindings().into_iter().find(|b| b.0 == sym)?.1;
    vm.verif_globenv().get_slot(slot).as_ptr().ok()
}

/// Debug aid: the heap cells reachable from the chain `x = (mk n)` of direction `dir`, breadth first.
fn chain_dump(dir: &str, n: usize) {
    let mut vm = Vm::new();
    eval_all(&mut vm, &chain_program(dir)).expect("mk");
    eval_all(&mut vm, &format!("(define x (mk {}))", n)).expect("build");
    vm.verif_force_gc();
    let root = global_ptr(&vm, "x").expect("x");
    println!("root {}", root);
    let cells = vm.verif_heap().verif_cells();
    let mut seen = std::collections::BTreeSet::new();
    let mut queue = std::collections::VecDeque::new();
    queue.push_back(root);
    while let Some(p) = queue.pop_front() {
        if !seen.insert(p) || seen.len() > 60 {
            continue;
        }
        let text = format!("{:?}", cells[p]);
        println!("{} => {}", p, text.chars().take(400).collect::<String>());
        // every decimal number in the debug text that is a heap index is a candidate successor
        let mut cur = String::new();
        for ch in text.chars().chain(std::iter::once(' ')) {
            if ch.is_ascii_digit() {
                cur.push(ch);
            } else {
                if let Ok(q) = cur.parse::<usize>() {
                    if q < cells.len() && q > 8 {
                        queue.push_back(q);
                    }
                }
                cur.clear();
            }
        }
    }
    depth::reset();
    vm.verif_heap_mut().mark(root);
    println!("mark depth from root: {}", depth::max_of_group("mark"));
}

// ------------------------------------------------------------------ measure (in process)

fn measure(depths: &[usize]) {
    let mut vm = Vm::new();
    let line = |f: &str, dir: &str, n: usize, r: String| {
        println!("measure {} {} {}\t{}", f, dir, n, r);
    };
    for &n in depths {
        // reader
        for dir in ["car", "cdr", "dot", "vec", "quote", "expr-app", "cdr-of-pairs", "cdr-dotted"] {
            let text = nest_text(dir, n);
            let tokens = lex::scan(&text).expect("lex");
            let mut cur = tokens.iter().peekable();
            depth::reset();
            let r = parse::parse(&text, &mut cur);
            let d = depth::max_of_group("parse");
            let same = r.as_ref().ok() == Some(&nest_cell(dir, n));
            line("parse", dir, n, if same { format!("ok {}", d) } else { "err parse".into() });
        }
        // datum -> heap, heap -> datum, marker, equal?, printer
        for dir in DATA_DIRS {
            let cell = nest_cell(dir, n);
            depth::reset();
            let v = vm.verif_heap_mut().put_cell(&cell);
            line("put", dir, n, format!("ok {}", depth::max_of_group("put")));
            depth::reset();
            let back = vm.verif_heap().get_as_cell(&v);
            let d = depth::max_of_group("get");
            line("get", dir, n, if back == cell { format!("ok {}", d) } else { "err roundtrip".into() });
            let w = vm.verif_heap_mut().put_cell(&cell);
            depth::reset();
            let eq = vm.equal(&v, &w);
            let d = depth::max_of_group("equal");
            line("equal", dir, n, if matches!(eq, Ok(true)) { format!("ok {}", d) } else { "err equal".into() });
            depth::reset();
            vm.verif_heap_mut().mark(v.as_ptr().unwrap());
            line("mark", dir, n, format!("ok {}", depth::max_of_group("mark")));
            vm.verif_force_gc();
            depth::reset();
            let s = format!("{:#}", cell);
            std::hint::black_box(&s);
            line("fmt", dir, n, format!("ok {}", depth::max_of_group("fmt")));
        }
    }
    // compiler on nested expressions and quote chains (quadratic in n: capped)
    let mut affine: Vec<(String, usize, usize)> = vec![];
    let mut capped: Vec<usize> = depths.iter().map(|n| std::cmp::min(*n, 300)).collect();
    capped.dedup();
    for &n in &capped {
        for dir in ["expr-app", "expr-lambda", "quote"] {
            let cell = nest_cell(dir, n);
            depth::reset();
            let r = vm.prepare_eval(&cell);
            let d = depth::max_of_group("compile");
            line("compile", dir, n, if r.is_ok() { format!("ok {}", d) } else { "err compile".into() });
            affine.push((format!("free {}", dir), n, depth::max_of_group("free")));
        }
        let cell = nest_cell("expr-let", n);
        depth::reset();
        let r = vm.prepare_eval(&cell);
        assert!(r.is_ok());
        for g in ["compile", "free", "macro"] {
            affine.push((format!("{} expr-let", g), n, depth::max_of_group(g)));
        }
    }
    // marker on chains built at run time: `mark` called on the outermost closure / newest continuation, compared
    // with the graph-level model `markDepthHeap` on `closureChain n` / `contChain n` (exact)
    for &n in depths {
        for dir in CHAIN_DIRS {
            eval_all(&mut vm, &chain_program(dir)).expect("mk");
            eval_all(&mut vm, &format!("(define x (mk {}))", n)).expect("build");
            // a collection leaves no mark bit behind
            vm.verif_force_gc();
            match global_ptr(&vm, "x") {
                Some(root) => {
                    depth::reset();
                    vm.verif_heap_mut().mark(root);
                    line("mark", dir, n, format!("ok {}", depth::max_of_group("mark")));
                }
                None => line("mark", dir, n, "err no-root".into()),
            }
            eval_all(&mut vm, "(define x 0)").expect("x");
            vm.verif_force_gc();
        }
    }
    // families without a Lean model: the measured depth must be affine in n with the slope the
    // call structure prescribes (frames per nesting level)
    let expected = [
        ("free expr-app", 0),
        ("free expr-lambda", 4),
        ("free quote", 0),
        ("compile expr-let", 6),
        ("free expr-let", 4),
        ("macro expr-let", 0),
    ];
    for (label, slope) in expected {
        let pts: Vec<(usize, usize)> = affine.iter().filter(|a| a.0 == label).map(|a| (a.1, a.2)).collect();
        let mut obs = "too-few-points".to_string();
        if pts.len() >= 2 {
            let slack: i64 = 0;
            let (n0, d0) = pts[0];
            let ok = pts.iter().all(|&(n, d)| {
                ((d as i64 - d0 as i64) - slope as i64 * (n as i64 - n0 as i64)).abs() <= slack
            });
            obs = if ok {
                format!("affine slope={}", slope)
            } else {
                format!("not-affine {:?}", pts)
            };
        }
        println!(
            "#oracle affine {} {:?}\t{}\taffine slope={}",
            label,
            pts.iter().map(|p| p.0).collect::<Vec<_>>(),
            obs,
            slope
        );
    }
    // drop glue: native stack bytes (no counter can be placed in derived drop glue)
    for dir in DATA_DIRS {
        for n in [200usize, 1000, 5000] {
            let b = drop_bytes(nest_cell(dir, n), 64 << 20);
            line("drop", dir, n, format!("ok {}", b));
        }
    }
}

// ------------------------------------------------------------------ drop glue: stack bytes

/// Native stack bytes used while dropping `cell`: paint the region below the current frame,
/// drop, and look for the lowest overwritten byte.
#[inline(never)]
fn drop_bytes(cell: Cell, window: usize) -> usize {
    let marker = 0u8;
    let top = &marker as *const u8 as usize;
    // leave the frames of this function and of the helpers alone
    let hi = top - 4096;
    let lo = hi - window;
    unsafe {
        let mut p = lo;
        while p < hi {
            std::ptr::write_volatile(p as *mut u8, 0xA5);
            p += 1;
        }
    }
    drop(std::hint::black_box(cell));
    let mut lowest = hi;
    unsafe {
        let mut p = lo;
        while p < hi {
            if std::ptr::read_volatile(p as *const u8) != 0xA5 {
                lowest = p;
                break;
            }
            p += 1;
        }
    }
    hi - lowest
}

fn drop_measure(depths: &[usize]) {
    for dir in ["car", "cdr", "vec", "quote"] {
        for &n in depths {
            let cell = nest_cell(dir, n);
            let b = drop_bytes(cell, 64 << 20);
            println!("drop-bytes {} {} {}\tok {}", dir, n, profile(), b);
        }
    }
}

fn main() {
    let args: Vec<String> = std::env::args().skip(1).collect();
    let nums = |a: &[String]| -> Vec<usize> { a.iter().map(|x| x.parse().expect("depth")).collect() };
    match args.first().map(|s| s.as_str()) {
        Some("child") => child(
            args[1].clone(),
            args[2].clone(),
            args[3].parse().unwrap(),
            args[4].clone(),
        ),
        Some("grid") => grid(&args[1..]),
        Some("measure") => {
            let d = nums(&args[1..]);
            mwv::wire::silence_panics();
            std::thread::Builder::new()
                .stack_size(1 << 30)
                .spawn(move || measure(&d))
                .unwrap()
                .join()
                .unwrap();
        }
        Some("chain-dump") => chain_dump(&args[1], args[2].parse().unwrap()),
        Some("drop-bytes") => {
            let d = nums(&args[1..]);
            std::thread::Builder::new()
                .stack_size(1 << 30)
                .spawn(move || drop_measure(&d))
                .unwrap()
                .join()
                .unwrap();
        }
        _ => {
            eprintln!("usage: depth measure <n>… | grid <n>… [--only op/dir] [--timeout s] [--jobs k] | drop-bytes <n>… | chain-dump closure|cont <n>");
            std::process::exit(2);
        }
    }
    let _ = std::io::stdout().flush();
}
