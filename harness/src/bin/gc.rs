//! Correspondence generators of the HEAP area (C03, C12, C18).
//! Output: one line per case, `request \t impl-response [\t spec-request]`.
//!
//! Sub-commands (first argument):
//!   snap <programs> <snaps-per-program>   heap snapshot before a forced collection -> summary after (C03/C12)
//!   obs  <programs> <schedules>           results/errors/output under collection schedules vs schedule-free (C03)
//!   corpus <file> <k>                     one session file under `gc every k` vs schedule-free (C03 corpus)
//!   heapops <sequences> <maxlen>          random Heap API operation sequences (C03/C18 model ops)
//!   grow <quick|thorough>                 garbage loops: capacity(n) = capacity(10n), trace vs Spec.HeapPolicy (C12)
//!   sym  <cases>                          symbol interning across routes and collections (C18)
//!   symrt <cases>                         string->symbol / symbol->string round trips (C18)
#[path = "../gc_snapshot.rs"]
mod snapshot;
#[path = "../gc_programs.rs"]
mod programs;

use marwood::cell::Cell;
use marwood::error::Error;
use marwood::parse;
use marwood::vm::gc::State;
use marwood::vm::heap::Heap;
use marwood::vm::vcell::VCell;
use marwood::vm::{SystemInterface, Vm};
use mwv::rng::Rng;
use mwv::wire::*;
use snapshot::*;
use std::cell::RefCell;
use std::io::Write;
use std::rc::Rc;

// ------------------------------------------------------------------ output log

#[derive(Debug)]
struct LogInterface {
    log: Rc<RefCell<Vec<String>>>,
}
impl SystemInterface for LogInterface {
    fn display(&self, cell: &Cell) {
        self.log.borrow_mut().push(format!("d:{}", cell));
    }
    fn write(&self, cell: &Cell) {
        self.log.borrow_mut().push(format!("w:{:#}", cell));
    }
    fn terminal_dimensions(&self) -> (usize, usize) {
        (80, 24)
    }
    fn time_utc(&self) -> u64 {
        0
    }
}

fn err_class(e: &Error) -> String {
    let d = format!("{:?}", e);
    let end = d.find(|c: char| !c.is_alphanumeric()).unwrap_or(d.len());
    d[..end].to_string()
}

// ------------------------------------------------------------------ schedules

#[derive(Clone, Debug)]
pub enum Schedule {
    None,
    Every(usize),
    /// collect before the instructions whose ordinal is in the list (ordinals counted from the
    /// moment the schedule is installed, i.e. after VM construction)
    At(Vec<u64>),
    /// every collection point of the library collects (every call of `run_gc`, wherever it is: end of a form,
    /// error path, the 8192-cycle test, and any site a change may add), none between them
    Points,
}

impl Schedule {
    fn name(&self) -> String {
        match self {
            Schedule::None => "none".into(),
            Schedule::Every(k) => format!("every{}", k),
            Schedule::Points => "points".into(),
            Schedule::At(v) => format!(
                "at{}",
                v.iter().map(|x| x.to_string()).collect::<Vec<_>>().join(",")
            ),
        }
    }
    fn install(&self, vm: &mut Vm) {
        let base = vm.verif_state().instructions;
        match self {
            Schedule::None => {
                vm.verif_set_gc_every(None);
                vm.verif_set_gc_at(vec![]);
                vm.verif_set_gc_always(false);
            }
            Schedule::Points => vm.verif_set_gc_always(true),
            Schedule::Every(k) => vm.verif_set_gc_every(Some(*k)),
            Schedule::At(v) => vm.verif_set_gc_at(v.iter().map(|x| x + base).collect()),
        }
    }
}

fn random_boundaries(rng: &mut Rng, horizon: u64, n: usize) -> Vec<u64> {
    let mut v: Vec<u64> = (0..n).map(|_| 1 + rng.below(horizon)).collect();
    v.sort();
    v.dedup();
    v
}

// ------------------------------------------------------------------ running sessions through the real eval path

/// Evaluate every form of `text` through `Vm::eval_text` (the real run_count path); returns the
/// canonical transcript: per form `ok <datum>` / `err <class>` / `panic`, then the output log.
fn run_session(text: &str, sched: &Schedule) -> String {
    let text = text.to_string();
    let sched = sched.clone();
    let r = catch(move || {
        let log = Rc::new(RefCell::new(vec![]));
        let mut vm = Vm::new();
        vm.set_system_interface(Box::new(LogInterface { log: log.clone() }));
        sched.install(&mut vm);
        let mut out: Vec<String> = vec![];
        let mut rest: Option<&str> = Some(&text);
        while let Some(t) = rest {
            if t.trim().is_empty() {
                break;
            }
            // `Vm::eval_text` (parse, prepare_eval, run) with a ceiling: generated programs terminate by
            // construction, so a form still running after 5*10^7 instructions or 30 s is a changed VM that loops
            let r = std::panic::catch_unwind(std::panic::AssertUnwindSafe(|| -> Result<Option<(marwood::cell::Cell, Option<&str>)>, marwood::error::Error> {
                let (cell, remaining) = parse::parse_text(t)?;
                vm.prepare_eval(&cell)?;
                let t0 = std::time::Instant::now();
                let mut slices = 0u32;
                loop {
                    if let Some(v) = vm.run_count(200_000)? {
                        return Ok(Some((v, remaining)));
                    }
                    slices += 1;
                    if slices >= 250 || t0.elapsed().as_secs() >= 30 {
                        return Ok(None);
                    }
                }
            }));
            let r = match r {
                Ok(Ok(None)) => {
                    out.push("diverged".into());
                    break;
                }
                Ok(Ok(Some(x))) => Ok(Ok(x)),
                Ok(Err(e)) => Ok(Err(e)),
                Err(e) => Err(e),
            };
            match r {
                Err(_) => {
                    out.push("panic".into());
                    break;
                }
                Ok(Ok((cell, remaining))) => {
                    out.push(format!("ok {}", enc_datum(&cell)));
                    rest = remaining;
                }
                Ok(Err(e)) => {
                    out.push(format!("err {}", err_class(&e)));
                    // skip the failed form: re-parse to find the remaining text
                    match parse::parse_text(t) {
                        Ok((_, remaining)) => rest = remaining,
                        Err(_) => break,
                    }
                }
            }
        }
        let log = log.borrow().join("|");
        format!("{} ## {}", out.join(" ; "), enc_text(&log))
    });
    match r {
        Ok(s) => s,
        Err(m) => format!("panic-outer {}", enc_text(&m)),
    }
}

// ------------------------------------------------------------------ stepping sessions with snapshots

struct SnapCase {
    before: String,
    after: String,
}

/// Run the forms of `text` with the harness's own instruction loop (verif_step); before each
/// instruction whose ordinal satisfies `due`, take a snapshot, force a collection, and summarise.
/// At most `limit` snapshots are kept (chosen by `keep`), but every due collection is performed.
fn step_session(
    text: &str,
    due: &mut dyn FnMut(u64) -> bool,
    keep: &mut dyn FnMut(u64) -> bool,
    limit: usize,
    max_instr: u64,
) -> Vec<SnapCase> {
    let mut cases = vec![];
    let mut vm = Vm::new();
    let mut rest: Option<&str> = Some(text);
    let mut n: u64 = 0;
    'forms: while let Some(t) = rest {
        if t.trim().is_empty() {
            break;
        }
        let (cell, remaining) = match parse::parse_text(t) {
            Ok(x) => x,
            Err(_) => break,
        };
        rest = remaining;
        if vm.prepare_eval(&cell).is_err() {
            continue;
        }
        loop {
            n += 1;
            if n > max_instr {
                break 'forms;
            }
            if due(n) {
                if cases.len() < limit && keep(n) {
                    let before = snapshot(&vm);
                    vm.verif_force_gc();
                    let after = summary(vm.verif_heap());
                    cases.push(SnapCase { before, after });
                } else {
                    vm.verif_force_gc();
                }
            }
            match vm.verif_step() {
                Ok(true) => break,
                Ok(false) => continue,
                Err(_) => break,
            }
        }
        // end of evaluation: the real run_count collects here (utilisation permitting); snapshot a
        // forced one (the harness cannot wipe the stack, so dead frames stay roots here)
        if cases.len() < limit && keep(n) {
            let before = snapshot(&vm);
            vm.verif_force_gc();
            let after = summary(vm.verif_heap());
            cases.push(SnapCase { before, after });
        }
    }
    cases
}

fn emit_snap(out: &mut impl Write, c: &SnapCase) {
    writeln!(
        out,
        "gc-run 1 {}\tok {} Wok/ok\tgc-reach {}",
        c.before, c.after, c.before
    )
    .unwrap();
}

fn cmd_snap(args: &[String], seed: u64) {
    let nprog: usize = args[0].parse().unwrap();
    let per: usize = args[1].parse().unwrap();
    let mut rng = Rng::new(seed ^ 0x51A9);
    let stdout = std::io::stdout();
    let mut out = stdout.lock();
    for i in 0..nprog {
        let prog = programs::gen_program(&mut rng, i);
        // schedule for the stepping loop
        let mode = rng.below(3);
        let k = 1 + rng.below(16);
        let p = 1 + rng.below(40);
        let mut r1 = rng.clone();
        let mut due = move |n: u64| -> bool {
            match mode {
                0 => n % k == 0,
                1 => r1.below(p) == 0,
                _ => n % (k * 7 + 1) == 0,
            }
        };
        let mut r2 = Rng::new(rng.next());
        let mut keep = move |_n: u64| -> bool { r2.below(50) == 0 };
        let text = prog.clone();
        let r = catch(std::panic::AssertUnwindSafe(move || {
            step_session(&text, &mut due, &mut keep, per, 400_000)
        }));
        match r {
            Ok(cases) => {
                for c in &cases {
                    emit_snap(&mut out, c);
                }
            }
            Err(m) => {
                // a panic of the real VM while stepping with forced collections: report as a case
                writeln!(
                    out,
                    "gc-obs sched=step prog={} ref={}\t{}\tgc-obs sched=step prog={} ref={}",
                    enc_text(&prog),
                    enc_text("no-panic"),
                    enc_text(&format!("panic {}", m)),
                    enc_text(&prog),
                    enc_text("no-panic")
                )
                .unwrap();
            }
        }
    }
}

// ------------------------------------------------------------------ unobservability exploration

fn emit_obs(out: &mut impl Write, prog: &str, sched: &Schedule, reference: &str, got: &str) {
    let req = format!(
        "gc-obs sched={} prog={} ref={}",
        sched.name(),
        enc_text(prog),
        enc_text(reference)
    );
    writeln!(out, "{}\t{}\t{}", req, enc_text(got), req).unwrap();
}

fn schedules_for(rng: &mut Rng, how_many: usize, all: bool) -> Vec<Schedule> {
    let mut v = vec![];
    if all {
        for k in 1..=16 {
            v.push(Schedule::Every(k));
        }
        v.push(Schedule::At(random_boundaries(rng, 3000, 40)));
        v.push(Schedule::At(random_boundaries(rng, 60000, 200)));
        v.push(Schedule::Points);
        return v;
    }
    v.push(Schedule::Points);
    for _ in 1..how_many.max(2) {
        match rng.below(4) {
            0 => v.push(Schedule::At(random_boundaries(rng, 5000, 60))),
            _ => v.push(Schedule::Every(1 + rng.below(16) as usize)),
        }
    }
    v
}

fn cmd_obs(args: &[String], seed: u64) {
    let nprog: usize = args[0].parse().unwrap();
    let nsched: usize = args[1].parse().unwrap();
    let all = nsched >= 18;
    let mut rng = Rng::new(seed ^ 0x0B5);
    let stdout = std::io::stdout();
    let mut out = stdout.lock();
    // the leading template of program i is template (i + seed) mod TEMPLATE_COUNT: a quick run has fewer programs
    // per shard than templates, and the shards' seeds differ by 7919 = -1 mod 22, so together they cover every
    // template as a leading one whatever the seed is
    let off = (seed % programs::TEMPLATE_COUNT as u64) as usize;
    for i in 0..nprog {
        let prog = programs::gen_program(&mut rng, i + off);
        let reference = run_session(&prog, &Schedule::None);
        for s in schedules_for(&mut rng, nsched, all) {
            let got = run_session(&prog, &s);
            emit_obs(&mut out, &prog, &s, &reference, &got);
        }
    }
}

fn cmd_corpus(args: &[String]) {
    let text = std::fs::read_to_string(&args[0]).expect("corpus file");
    let ks: Vec<usize> = args[1..].iter().map(|a| a.parse().unwrap()).collect();
    let stdout = std::io::stdout();
    let mut out = stdout.lock();
    let reference = run_session(&text, &Schedule::None);
    for k in ks {
        let s = Schedule::Every(k);
        let got = run_session(&text, &s);
        emit_obs(&mut out, &text, &s, &reference, &got);
    }
}

// ------------------------------------------------------------------ Heap API operation sequences

fn small_vcell(rng: &mut Rng, cap: usize) -> VCell {
    use marwood::number::Number;
    let a = rng.below(cap as u64 + 3) as usize;
    let b = rng.below(cap as u64 + 3) as usize;
    const NAMES: [&str; 6] = ["a", "b", "c", "foo", "λ", "x y"];
    match rng.below(12) {
        0 => VCell::Nil,
        1 => VCell::Number(Number::from(7)),
        2 | 3 => VCell::Pair(a, b),
        4 => VCell::Ptr(a),
        5 | 6 | 7 => VCell::symbol(*rng.pick(&NAMES)),
        8 => VCell::Closure(a, b),
        9 => VCell::vector(vec![VCell::Ptr(a), VCell::Nil, VCell::Ptr(b)]),
        10 => VCell::EnvironmentPointer(a),
        _ => VCell::Bool(true),
    }
}

fn cmd_heapops(args: &[String], seed: u64) {
    let nseq: usize = args[0].parse().unwrap();
    let maxlen: usize = args[1].parse().unwrap();
    let mut rng = Rng::new(seed ^ 0x4EA9);
    let stdout = std::io::stdout();
    let mut out = stdout.lock();
    for _ in 0..nseq {
        let chunk = *rng.pick(&[4usize, 8, 8, 12, 16]);
        let len = 1 + rng.below(maxlen as u64) as usize;
        // generate ops against a shadow run so that arguments stay mostly meaningful
        let mut req = format!("heap-ops {}", chunk);
        let mut resp: Vec<String> = vec![];
        let mut heap = Heap::new(chunk);
        let mut panicked = false;
        for _ in 0..len {
            let cap = heap.capacity();
            let op = rng.below(100);
            if op < 35 {
                let v = small_vcell(&mut rng, cap);
                let mut s = String::new();
                enc_vcell(&v, &mut s);
                req.push_str(&format!(" put {}", s));
                let r = catch(std::panic::AssertUnwindSafe(|| heap.put(v)));
                match r {
                    Ok(v) => {
                        let mut s = String::new();
                        enc_vcell(&v, &mut s);
                        resp.push(s.replace(' ', "_"));
                    }
                    Err(_) => {
                        panicked = true;
                        break;
                    }
                }
            } else if op < 50 {
                let v = small_vcell(&mut rng, cap);
                let mut s = String::new();
                enc_vcell(&v, &mut s);
                req.push_str(&format!(" mput {}", s));
                let r = catch(std::panic::AssertUnwindSafe(|| heap.maybe_put(v)));
                match r {
                    Ok(v) => {
                        let mut s = String::new();
                        enc_vcell(&v, &mut s);
                        resp.push(s.replace(' ', "_"));
                    }
                    Err(_) => {
                        panicked = true;
                        break;
                    }
                }
            } else if op < 58 {
                req.push_str(" alloc");
                match catch(std::panic::AssertUnwindSafe(|| heap.alloc())) {
                    Ok(p) => resp.push(format!("{}", p)),
                    Err(_) => {
                        panicked = true;
                        break;
                    }
                }
            } else if op < 66 {
                // free an allocated cell (the API has no guard; keep to allocated cells mostly)
                let cands: Vec<usize> = (0..cap)
                    .filter(|i| heap.verif_gc_state(*i) == Some(State::Allocated))
                    .collect();
                let p = if cands.is_empty() || rng.chance(1, 10) {
                    rng.below(cap as u64 + 2) as usize
                } else {
                    *rng.pick(&cands)
                };
                req.push_str(&format!(" free {}", p));
                match catch(std::panic::AssertUnwindSafe(|| heap.free(p))) {
                    Ok(()) => resp.push("-".into()),
                    Err(_) => {
                        panicked = true;
                        break;
                    }
                }
            } else if op < 84 {
                let p = rng.below(cap as u64 + 2) as usize;
                req.push_str(&format!(" mark {}", p));
                match catch(std::panic::AssertUnwindSafe(|| heap.mark(p))) {
                    Ok(()) => resp.push("-".into()),
                    Err(_) => {
                        panicked = true;
                        break;
                    }
                }
            } else if op < 96 {
                req.push_str(" sweep");
                match catch(std::panic::AssertUnwindSafe(|| heap.sweep())) {
                    Ok(()) => resp.push("-".into()),
                    Err(_) => {
                        panicked = true;
                        break;
                    }
                }
            } else {
                req.push_str(" grow");
                match catch(std::panic::AssertUnwindSafe(|| heap.grow())) {
                    Ok(()) => resp.push("-".into()),
                    Err(_) => {
                        panicked = true;
                        break;
                    }
                }
            }
        }
        let impl_resp = if panicked {
            "panic".to_string()
        } else {
            format!("ok {} | {} | {}", resp.join(" "), summary(&heap), full_state(&heap))
        };
        writeln!(out, "{}\t{}", req, impl_resp).unwrap();
    }
}

// ------------------------------------------------------------------ main

fn main() {
    silence_panics();
    let args: Vec<String> = std::env::args().skip(1).collect();
    let seed: u64 = std::env::var("VERIF_SEED")
        .ok()
        .and_then(|s| s.parse().ok())
        .unwrap_or(1);
    if args.is_empty() {
        eprintln!("usage: gc <snap|obs|corpus|heapops|grow|sym|symrt> …");
        std::process::exit(2);
    }
    match args[0].as_str() {
        "snap" => cmd_snap(&args[1..], seed),
        "obs" => cmd_obs(&args[1..], seed),
        "corpus" => cmd_corpus(&args[1..]),
        "heapops" => cmd_heapops(&args[1..], seed),
        other => {
            eprintln!("unknown sub-command {}", other);
            std::process::exit(2);
        }
    }
}
