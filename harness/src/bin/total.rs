//! C06 "Total API" exploration: every public entry point on every input yields Ok or Err, never a
//! panic, an abort or a hang; every error renders; the same VM accepts further input afterwards.
//!
//! Modes (all randomness derives from `VERIF_SEED`):
//!   total registry                 one line per global procedure of a fresh `Vm`:
//!                                  `gen|closure <name>\t<min> <max|inf>` (arity window probed; `gen` = Rust builtin)
//!   total builtins <quick|thorough>  every global procedure x arity 0..5 x boundary palette
//!   total values                   every palette value as the *value of an evaluation*
//!   total text <n>                 Unicode token soup and mutated programs into scan / parse_text /
//!                                  prepare_eval+run_count / eval_text / highlight / highlight_check
//!   total palette                  `palette <tok>\t<datum rendering>` (cross-check with the Lean palette)
//!   total replay <request...>      run the given request lines (one per argument, or from stdin with `-`)
//!   total worker                   (internal) isolated child: request lines on stdin, result lines on stdout
//!
//! Output: `request<TAB>ok|err <class>|panic <site>|hang <kind>|abort <status>`; a response may carry the
//! suffix ` then <class>` when the probe `(+ 1 2)` evaluated afterwards in the SAME Vm did not answer 3.
//! Every case runs in an isolated worker process under a wall-clock limit and an address-space limit, so
//! that a native loop (`hang wall`), a native stack overflow or an allocation failure (`abort <signal>`)
//! is an observation and not a crash of the harness. Interpreted non-termination is caught earlier by the
//! instruction budget of `prepare_eval` + `run_count` (`hang budget`).
use marwood::cell::Cell;
use marwood::error::Error;
use marwood::syntax::ReplHighlighter;
use marwood::vm::vcell::VCell;
use marwood::vm::{SystemInterface, Vm};
use mwv::rng::Rng;
use mwv::session::error_class;
use mwv::wire::{dec_text, enc_datum, enc_text};
use std::cell::RefCell;
use std::io::{BufRead, BufReader, Write};
use std::panic::AssertUnwindSafe;
use std::process::{Child, ChildStdin, Command, Stdio};
use std::sync::atomic::{AtomicUsize, Ordering};
use std::sync::mpsc::{channel, Receiver, RecvTimeoutError};
use std::sync::{Arc, Mutex};
use std::time::Duration;

// ------------------------------------------------------------------------------- palette

#[derive(Clone, Copy, PartialEq, Eq, Debug)]
enum K {
    Int,    // exact integer, |n| <= 10^6
    Huge,   // exact integer beyond 10^6 (i32/i64 extremes, bignums)
    Rat,
    Flo,
    Char,
    Str,
    Sym,
    Bool,
    List,   // '() and proper / improper / shared lists
    Vec,
    Proc,
    Cont,
    Macro,
    Unspec,
    Circ,   // circular list / self-containing vector
}

struct P {
    tok: &'static str,
    scm: &'static str,
    kind: K,
    /// member of the reduced palette used for the full arity-2 cross product in the quick tier
    core: bool,
}

const fn p(tok: &'static str, scm: &'static str, kind: K, core: bool) -> P {
    P { tok, scm, kind, core }
}

/// Boundary palette. Every entry is a self-contained Scheme expression that builds its value afresh.
static PALETTE: &[P] = &[
    p("0", "0", K::Int, true),
    p("-1", "-1", K::Int, true),
    p("1", "1", K::Int, true),
    p("2", "2", K::Int, false),
    p("3", "3", K::Int, false),
    p("10", "10", K::Int, false),
    p("37", "37", K::Int, false),
    p("55296", "55296", K::Int, false),
    p("1114112", "1114112", K::Huge, false),
    p("1000000", "1000000", K::Int, false),
    p("i32max", "2147483647", K::Huge, true),
    p("i32min", "-2147483648", K::Huge, false),
    p("i32max+1", "2147483648", K::Huge, false),
    p("i32min-1", "-2147483649", K::Huge, false),
    p("i64max", "9223372036854775807", K::Huge, true),
    p("i64min", "-9223372036854775808", K::Huge, false),
    p("i64max+1", "9223372036854775808", K::Huge, false),
    p("i64min-1", "-9223372036854775809", K::Huge, false),
    p("u64max", "18446744073709551615", K::Huge, false),
    p("2^64", "18446744073709551616", K::Huge, false),
    p("big", "100000000000000000000000000000000000000", K::Huge, true),
    p("-big", "-100000000000000000000000000000000000000", K::Huge, false),
    p("1/2", "1/2", K::Rat, true),
    p("-1/2", "-1/2", K::Rat, false),
    p("rat31", "2147483647/2147483646", K::Rat, false),
    p("ratmin", "-2147483648/3", K::Rat, false),
    p("ratbig", "100000000000000000000/3", K::Rat, false),
    // the same values in ANOTHER representation (zero and small integers carried as a rational or as a bignum):
    // what arithmetic leaves behind, never what the reader produces
    p("rat0", "(- 1/2 1/2)", K::Rat, true),
    p("rat2", "(/ 4 2)", K::Rat, false),
    p("big0", "(- 9223372036854775808 9223372036854775808)", K::Huge, false),
    p("big1", "(- 9223372036854775809 9223372036854775808)", K::Huge, false),
    p("0.0", "0.0", K::Flo, false),
    p("-0.0", "-0.0", K::Flo, false),
    p("1.5", "1.5", K::Flo, true),
    p("-2.5", "-2.5", K::Flo, false),
    p("1e308", "1e308", K::Flo, false),
    p("1e19", "1e19", K::Flo, false),
    p("5e-324", "(string->number \"5e-324\")", K::Flo, false),
    p("+inf", "(* 1e308 10)", K::Flo, true),
    p("-inf", "(- (* 1e308 10))", K::Flo, false),
    p("nan", "(- (* 1e308 10) (* 1e308 10))", K::Flo, true),
    p("ch-a", "#\\a", K::Char, true),
    p("ch-A", "#\\A", K::Char, false),
    p("ch-0", "#\\x0", K::Char, false),
    p("ch-9", "#\\9", K::Char, false),
    p("ch-sp", "#\\space", K::Char, false),
    p("ch-lam", "#\\λ", K::Char, true),
    p("ch-ss", "#\\ß", K::Char, false),
    p("ch-max", "#\\x10FFFF", K::Char, false),
    // Unicode-numeric characters outside ASCII (decimal digit, fraction, letter-number, fullwidth digit)
    p("ch-arab3", "#\\x663", K::Char, false),
    p("ch-half", "#\\xBD", K::Char, false),
    p("ch-roman4", "#\\x2163", K::Char, false),
    p("ch-fw5", "#\\xFF15", K::Char, false),
    p("s-empty", "(string)", K::Str, true),
    p("s-a", "(string #\\a)", K::Str, false),
    p("s-abc", "(string-copy \"abc\")", K::Str, false),
    p("s-uni", "(string-copy \"λx→ß𝄞\")", K::Str, true),
    p("s-num", "(string-copy \"10\")", K::Str, false),
    p("s-1e400", "(string-copy \"1e400\")", K::Str, false),
    p("s-lit", "\"lit\"", K::Str, false),
    p("sym", "'a", K::Sym, true),
    p("sym-uni", "'λ", K::Sym, false),
    p("sym-quote", "'quote", K::Sym, false),
    p("#t", "#t", K::Bool, false),
    p("#f", "#f", K::Bool, true),
    p("nil", "'()", K::List, true),
    p("l1", "(list 1)", K::List, false),
    p("l3", "(list 1 2 3)", K::List, true),
    p("l-chars", "(list #\\a #\\λ)", K::List, false),
    p("l-dot", "(cons 1 2)", K::List, true),
    p("l-dot3", "(cons 1 (cons 2 3))", K::List, false),
    p("l-shared", "(let ((x (list 1 2))) (list x x))", K::List, false),
    p("l-alist", "(list (cons 1 2) (cons 'a 'b) 3)", K::List, false),
    p("l-lit", "'(1 2)", K::List, false),
    p("l-expr", "'(+ 1 2)", K::List, false),
    p("l-nest", "'((((((((1))))))))", K::List, false),
    p("v0", "(vector)", K::Vec, true),
    p("v1", "(vector 1)", K::Vec, false),
    p("v3", "(vector 1 2 3)", K::Vec, true),
    p("v-chars", "(vector #\\a #\\λ)", K::Vec, false),
    p("v-lit", "#(1 2)", K::Vec, false),
    p("v-shared", "(let ((x (vector 1 2))) (vector x x))", K::Vec, false),
    p("v-nest", "(vector (vector (vector (list (vector)))))", K::Vec, false),
    p("p-builtin", "car", K::Proc, true),
    p("p-lambda", "(lambda (x) x)", K::Proc, true),
    p("p-varargs", "(lambda args args)", K::Proc, false),
    p("p-thunk", "(lambda () 1)", K::Proc, false),
    p("p-prelude", "length", K::Proc, false),
    p("p-closure", "(let ((n 1)) (lambda (x) (+ x n)))", K::Proc, false),
    p("cont", "(call/cc (lambda (k) k))", K::Cont, true),
    p("macro", "(begin (define-syntax c06-m (syntax-rules () ((_ x) x))) c06-m)", K::Macro, true),
    p("unspec", "(if #f #f)", K::Unspec, true),
    p("l-proc", "(list 'quote car)", K::List, false),
    p("v-proc", "(vector car)", K::Vec, false),
    p("l-cont", "(list (call/cc (lambda (k) k)))", K::List, false),
    p("l-unspec", "(list (if #f #f))", K::List, false),
    p("circ-cdr", "(let ((c (list 1 2))) (set-cdr! (cdr c) c) c)", K::Circ, true),
    p("circ-self", "(let ((c (list 1))) (set-cdr! c c) c)", K::Circ, false),
    p("circ-car", "(let ((c (list 1 2))) (set-car! c c) c)", K::Circ, true),
    p("circ-vec", "(let ((v (vector 1 2))) (vector-set! v 0 v) v)", K::Circ, true),
    p("circ-vl", "(let ((v (vector 1))) (vector-set! v 0 (list v)) v)", K::Circ, false),
    p("circ-lv", "(let ((c (list 1 2))) (set-car! (cdr c) (vector c)) c)", K::Circ, false),
];

/// the procedures R7RS requires to cope with circular structure (the property's quantifier)
const CIRC_PROCS: &[&str] = &["list?", "length", "equal?", "display", "write"];

fn pal(tok: &str) -> Option<&'static P> {
    PALETTE.iter().find(|q| q.tok == tok)
}

/// Out of the property's quantifier (requested allocation > 10^6): not generated.
fn out_of_scope(name: &str, args: &[&P]) -> bool {
    let huge = |q: &P| q.kind == K::Huge;
    match name {
        "make-vector" | "make-string" => match args.first() {
            Some(q) if huge(q) && !q.scm.starts_with('-') => true,
            // 10^6 slots each holding an aggregate: the value of the evaluation, copied out of the heap
            // as a tree, has far more than 10^6 nodes
            Some(q) if q.tok == "1000000" => {
                args.get(1).map_or(false, |f| matches!(f.kind, K::List | K::Vec | K::Str | K::Circ))
            }
            _ => false,
        },
        "expt" | "pow" if args.len() == 2 => {
            // a large exponent is in scope only when the power stays small or is inexact
            let exact = matches!(args[0].kind, K::Int | K::Huge | K::Rat);
            let unit = matches!(args[0].tok, "0" | "1" | "-1");
            let small = matches!(args[0].tok, "2" | "1/2" | "-1/2");
            if huge(args[1]) {
                exact && !unit
            } else if matches!(args[1].tok, "55296" | "1000000") {
                exact && !unit && !small
            } else {
                false
            }
        }
        _ => false,
    }
}

// ------------------------------------------------------------------------------- evaluation

#[derive(Debug)]
struct FmtInterface;
impl SystemInterface for FmtInterface {
    fn display(&self, cell: &Cell) {
        let _ = format!("{}", cell);
    }
    fn write(&self, cell: &Cell) {
        let _ = format!("{:#}", cell);
    }
    fn terminal_dimensions(&self) -> (usize, usize) {
        (80, 24)
    }
    fn time_utc(&self) -> u64 {
        0
    }
}

thread_local! {
    static SITE: RefCell<String> = RefCell::new(String::new());
}

fn install_panic_hook() {
    std::panic::set_hook(Box::new(|info| {
        let site = match info.location() {
            Some(l) => {
                let f = l.file();
                let f = match f.find("marwood/src/") {
                    Some(i) => &f[i + "marwood/".len()..],
                    None => {
                        let parts: Vec<&str> = f.rsplit('/').take(2).collect();
                        return SITE.with(|s| {
                            *s.borrow_mut() = format!(
                                "{}:{}",
                                parts.into_iter().rev().collect::<Vec<_>>().join("/"),
                                l.line()
                            )
                        });
                    }
                };
                format!("{}:{}", f, l.line())
            }
            None => "unknown".into(),
        };
        SITE.with(|s| *s.borrow_mut() = site);
    }));
}

fn catch<T>(f: impl FnOnce() -> T) -> Result<T, String> {
    SITE.with(|s| s.borrow_mut().clear());
    std::panic::catch_unwind(AssertUnwindSafe(f)).map_err(|_| SITE.with(|s| s.borrow().clone()))
}

fn new_vm() -> Vm {
    let mut vm = Vm::new();
    vm.set_system_interface(Box::new(FmtInterface));
    vm
}

const BUDGET: usize = 2_000_000;

/// class of a returned error, after rendering it (Display) under catch_unwind
fn err_class(e: &Error) -> String {
    match catch(|| format!("{}", e)) {
        Ok(_) => format!("err {}", error_class(e)),
        Err(site) => format!("panic display-of-error {}", site),
    }
}

fn ok_class(c: &Cell) -> String {
    // the result must be renderable both ways
    match catch(|| (format!("{}", c).len(), format!("{:#}", c).len())) {
        Ok(_) => "ok".into(),
        Err(site) => format!("panic display-of-value {}", site),
    }
}

/// one datum of `text` through parse_text / prepare_eval / run_count(budget)
/// One datum of `text` through the sliced entry point.
fn eval_sliced_one(vm: &mut Vm, cell: &Cell, budget: usize) -> String {
    let r = catch(|| -> Result<Option<Cell>, Error> {
        vm.prepare_eval(cell)?;
        vm.run_count(budget)
    });
    match r {
        Err(site) => format!("panic {}", site),
        Ok(Ok(Some(c))) => ok_class(&c),
        Ok(Ok(None)) => "hang budget".into(),
        Ok(Err(e)) => err_class(&e),
    }
}

/// The read–eval loop of the front ends over a whole text: datum by datum in ONE VM, continuing after an
/// error (that is what "the same VM accepts further input afterwards" means for a REPL); the class reported
/// is that of the last datum, a panic or budget hang anywhere ends the loop and is reported.
fn eval_loop(vm: &mut Vm, text: &str, mut one: impl FnMut(&mut Vm, &Cell) -> String) -> String {
    let mut rest = text;
    let mut last = String::new();
    for _ in 0..64 {
        let parsed = catch(|| marwood::parse::parse_text(rest).map(|(c, r)| (c, r.map(|s| s.len()))));
        let (cell, remaining) = match parsed {
            Err(site) => return format!("panic {}", site),
            Ok(Err(e)) => {
                return if last.is_empty() { err_class(&Error::from(e)) } else { last };
            }
            Ok(Ok(x)) => x,
        };
        last = one(vm, &cell);
        if last.starts_with("panic") || last.starts_with("hang") {
            return last;
        }
        match remaining {
            Some(n) if n > 0 => rest = &rest[rest.len() - n..],
            _ => break,
        }
    }
    last
}

fn eval_sliced(vm: &mut Vm, text: &str, budget: usize) -> String {
    eval_loop(vm, text, |vm, cell| eval_sliced_one(vm, cell, budget))
}

fn eval_unsliced(vm: &mut Vm, text: &str) -> String {
    eval_loop(vm, text, |vm, cell| match catch(|| vm.eval(cell)) {
        Err(site) => format!("panic {}", site),
        Ok(Ok(c)) => ok_class(&c),
        Ok(Err(e)) => err_class(&e),
    })
}

/// "the same VM accepts further input afterwards"
fn probe(vm: &mut Vm) -> Option<String> {
    let r = catch(|| vm.eval_text("(+ 1 2)").map(|(c, _)| c));
    match r {
        Ok(Ok(c)) if format!("{}", c) == "3" => None,
        Ok(Ok(_)) => Some("wrong-value".into()),
        Ok(Err(e)) => Some(format!("err {}", error_class(&e))),
        Err(site) => Some(format!("panic {}", site)),
    }
}

struct Worker {
    vm: Option<Vm>,
    used: usize,
    fresh_every: usize,
}

impl Worker {
    fn vm(&mut self) -> &mut Vm {
        if self.vm.is_none() || self.used >= self.fresh_every {
            self.vm = Some(new_vm());
            self.used = 0;
        }
        self.used += 1;
        self.vm.as_mut().unwrap()
    }

    fn with_probe(&mut self, class: String) -> String {
        if class.starts_with("hang") {
            // an abandoned sliced evaluation: the VM is dropped, not probed
            self.vm = None;
            return class;
        }
        let vm = self.vm.as_mut().unwrap();
        let r = match probe(vm) {
            None => class.clone(),
            Some(p) => format!("{} then {}", class, p),
        };
        if r.contains("panic") {
            self.vm = None;
        }
        r
    }

    /// `=k` as an argument: the very same object as argument `k` (bound once, passed twice)
    fn call_text(req: &[&str]) -> Option<String> {
        let shared: Vec<usize> =
            req[1..].iter().filter_map(|t| t.strip_prefix('=').and_then(|k| k.parse().ok())).collect();
        let mut binds = String::new();
        let mut text = format!("({}", req[0]);
        for (i, t) in req[1..].iter().enumerate() {
            text.push(' ');
            if let Some(k) = t.strip_prefix('=') {
                let k: usize = k.parse().ok()?;
                if k >= i {
                    return None;
                }
                text.push_str(&format!("zq-shared-{}", k));
            } else if shared.contains(&i) {
                binds.push_str(&format!("(zq-shared-{} {})", i, pal(t)?.scm));
                text.push_str(&format!("zq-shared-{}", i));
            } else {
                text.push_str(pal(t)?.scm);
            }
        }
        text.push(')');
        if binds.is_empty() {
            Some(text)
        } else {
            Some(format!("(let ({}) {})", binds, text))
        }
    }

    fn handle(&mut self, request: &str) -> String {
        let w: Vec<&str> = request.split(' ').collect();
        match w[0] {
            // `call` in the quantifier, `xcall` outside it (circular data into other procedures)
            "call" | "xcall" if w.len() >= 2 => {
                let text = match Worker::call_text(&w[1..]) {
                    Some(t) => t,
                    None => return "bad-request".into(),
                };
                let vm = self.vm();
                let class = eval_sliced(vm, &text, BUDGET);
                self.with_probe(class)
            }
            "value" if w.len() == 2 => {
                let q = match pal(w[1]) {
                    Some(q) => q,
                    None => return "bad-request".into(),
                };
                let vm = self.vm();
                let class = eval_sliced(vm, q.scm, BUDGET);
                self.with_probe(class)
            }
            // free text: `scm <enc>` evaluates one datum sliced (replay of hand-written cases)
            "scm" if w.len() == 2 => {
                let text = match dec_text(w[1]) {
                    Some(t) => t,
                    None => return "bad-request".into(),
                };
                let vm = self.vm();
                let class = eval_sliced(vm, &text, BUDGET);
                self.with_probe(class)
            }
            "text" if w.len() == 2 => {
                let text = match dec_text(w[1]) {
                    Some(t) => t,
                    None => return "bad-request".into(),
                };
                self.text_case(&text)
            }
            _ => "bad-request".into(),
        }
    }

    /// all text entry points on one text; the response lists one class per entry point
    fn text_case(&mut self, text: &str) -> String {
        let scan = match catch(|| marwood::lex::scan(text)) {
            Err(site) => format!("panic {}", site),
            Ok(Ok(_)) => "ok".into(),
            Ok(Err(e)) => err_class(&Error::from(e)),
        };
        let parse = match catch(|| marwood::parse::parse_text(text).map(|(c, _)| c)) {
            Err(site) => format!("panic {}", site),
            Ok(Ok(c)) => ok_class(&c),
            Ok(Err(e)) => err_class(&Error::from(e)),
        };
        // highlighter at every byte cursor 0..=len+2 (also inside multi-byte characters)
        let hl = ReplHighlighter::new();
        let mut hls = "ok".to_string();
        for i in 0..=text.len() + 2 {
            if let Err(site) = catch(|| (hl.highlight(text, i).len(), hl.highlight_check(text, i))) {
                hls = format!("panic {}", site);
                break;
            }
        }
        // evaluator: sliced first (instruction budget); the uninterrupted evaluator only on texts
        // the sliced one finished, in a second fresh VM, and both must agree on the class
        self.vm = None;
        let vm = self.vm();
        let sliced = eval_sliced(vm, text, BUDGET);
        let sliced = self.with_probe(sliced);
        let eval = if sliced.starts_with("hang") {
            "skipped".to_string()
        } else {
            self.vm = None;
            let vm = self.vm();
            let c = eval_unsliced(vm, text);
            self.with_probe(c)
        };
        self.vm = None;
        let bad = [&scan, &parse, &hls, &sliced, &eval]
            .iter()
            .any(|c| c.contains("panic") || c.contains("then"));
        let agree = eval == "skipped" || eval == sliced;
        let head = if bad {
            "panic"
        } else if !agree {
            "panic sliced-differs"
        } else if sliced.starts_with("hang") {
            "hang budget"
        } else if sliced == "ok" {
            "ok"
        } else {
            "err"
        };
        format!(
            "{} scan={} parse={} hl={} sliced={} eval={}",
            head,
            scan.replace(' ', "_"),
            parse.replace(' ', "_"),
            hls.replace(' ', "_"),
            sliced.replace(' ', "_"),
            eval.replace(' ', "_")
        )
    }
}

fn worker_main() {
    install_panic_hook();
    let fresh_every = std::env::var("TOTAL_FRESH_EVERY")
        .ok()
        .and_then(|s| s.parse().ok())
        .unwrap_or(50);
    let mut w = Worker { vm: None, used: 0, fresh_every };
    let stdin = std::io::stdin();
    let stdout = std::io::stdout();
    for line in stdin.lock().lines() {
        let line = match line {
            Ok(l) => l,
            Err(_) => break,
        };
        let resp = w.handle(&line);
        let mut out = stdout.lock();
        let _ = writeln!(out, "{}", resp);
        let _ = out.flush();
    }
}

// ------------------------------------------------------------------------------- isolation

struct Iso {
    child: Child,
    stdin: ChildStdin,
    rx: Receiver<String>,
}

fn spawn_worker() -> Iso {
    let exe = std::env::current_exe().expect("current_exe");
    // address-space limit 8 GiB: an allocation failure becomes an abort of the child
    let mut child = Command::new("sh")
        .arg("-c")
        .arg("ulimit -v 3145728; exec \"$0\" worker")
        .arg(exe)
        .stdin(Stdio::piped())
        .stdout(Stdio::piped())
        .stderr(Stdio::null())
        .spawn()
        .expect("spawn worker");
    let stdin = child.stdin.take().unwrap();
    let stdout = child.stdout.take().unwrap();
    let (tx, rx) = channel();
    std::thread::spawn(move || {
        for line in BufReader::new(stdout).lines() {
            match line {
                Ok(l) => {
                    if tx.send(l).is_err() {
                        break;
                    }
                }
                Err(_) => break,
            }
        }
    });
    Iso { child, stdin, rx }
}

fn wall_limit() -> Duration {
    Duration::from_secs(
        std::env::var("TOTAL_WALL_S").ok().and_then(|s| s.parse().ok()).unwrap_or(10),
    )
}

/// Run all requests in isolated workers; a worker that stalls or dies is replaced. A `hang wall` verdict of
/// the parallel pass is not final: on a loaded machine a budget-limited evaluation (a few seconds in a debug
/// build) can exceed the wall limit, so every such request is run once more in a second, lightly loaded pass with three times the limit.
fn run_isolated(requests: Vec<String>, jobs: usize) -> Vec<String> {
    let mut out = run_isolated_pass(requests.clone(), jobs, wall_limit());
    let again: Vec<usize> = (0..out.len()).filter(|i| out[*i] == "hang wall").collect();
    if !again.is_empty() {
        // second pass: only the stalled requests, at most 4 at a time, three times the limit (genuine native
        // loops cost one extended limit in total, not one each)
        let reqs: Vec<String> = again.iter().map(|i| requests[*i].clone()).collect();
        let r = run_isolated_pass(reqs, jobs.min(4), wall_limit() * 3);
        for (k, i) in again.iter().enumerate() {
            out[*i] = r[k].clone();
        }
    }
    out
}

fn run_isolated_pass(requests: Vec<String>, jobs: usize, limit: Duration) -> Vec<String> {
    let n = requests.len();
    let requests = Arc::new(requests);
    let results: Arc<Mutex<Vec<Option<String>>>> = Arc::new(Mutex::new(vec![None; n]));
    let next = Arc::new(AtomicUsize::new(0));
    let mut handles = vec![];
    for _ in 0..jobs.max(1).min(n.max(1)) {
        let requests = requests.clone();
        let results = results.clone();
        let next = next.clone();
        handles.push(std::thread::spawn(move || {
            let mut iso: Option<Iso> = None;
            loop {
                let i = next.fetch_add(1, Ordering::SeqCst);
                if i >= requests.len() {
                    break;
                }
                if iso.is_none() {
                    iso = Some(spawn_worker());
                }
                let w = iso.as_mut().unwrap();
                let sent = writeln!(w.stdin, "{}", requests[i]).and_then(|_| w.stdin.flush());
                let resp = if sent.is_err() {
                    Err(RecvTimeoutError::Disconnected)
                } else {
                    w.rx.recv_timeout(limit)
                };
                let resp = match resp {
                    Ok(r) => r,
                    Err(RecvTimeoutError::Timeout) => {
                        let _ = w.child.kill();
                        let _ = w.child.wait();
                        iso = None;
                        "hang wall".to_string()
                    }
                    Err(RecvTimeoutError::Disconnected) => {
                        let st = w.child.wait().ok();
                        iso = None;
                        use std::os::unix::process::ExitStatusExt;
                        match st {
                            Some(s) => match s.signal() {
                                Some(sig) => format!("abort signal-{}", sig),
                                None => format!("abort exit-{}", s.code().unwrap_or(-1)),
                            },
                            None => "abort unknown".to_string(),
                        }
                    }
                };
                results.lock().unwrap()[i] = Some(resp);
            }
            if let Some(mut w) = iso {
                drop(w.stdin);
                let _ = w.child.wait();
            }
        }));
    }
    for h in handles {
        let _ = h.join();
    }
    let results = results.lock().unwrap();
    results.iter().map(|r| r.clone().unwrap_or_else(|| "abort lost".into())).collect()
}

fn jobs() -> usize {
    std::env::var("TOTAL_JOBS").ok().and_then(|s| s.parse().ok()).unwrap_or(6)
}

fn emit(requests: Vec<String>) {
    let responses = run_isolated(requests.clone(), jobs());
    let stdout = std::io::stdout();
    let mut out = std::io::BufWriter::new(stdout.lock());
    for (q, r) in requests.iter().zip(responses) {
        let _ = writeln!(out, "{}\t{}", q, r);
    }
}

// ------------------------------------------------------------------------------- registry

/// (name, kind) of every global binding whose value is a procedure, sorted by name
fn registry(vm: &Vm) -> Vec<(String, &'static str)> {
    let heap = vm.verif_heap();
    let cells = heap.verif_cells();
    let mut out = vec![];
    for (sym, slot) in vm.verif_globenv().verif_bindings() {
        let name = match cells.get(sym) {
            Some(VCell::Symbol(s)) => s.to_string(),
            _ => continue,
        };
        let mut v = vm.verif_globenv().get_slot(slot);
        if let VCell::Ptr(a) = v {
            v = match cells.get(a) {
                Some(c) => c.clone(),
                None => continue,
            };
        }
        let kind = match v {
            VCell::BuiltInProc(_) => "builtin",
            VCell::Closure(_, _) | VCell::Lambda(_) => "closure",
            _ => continue,
        };
        out.push((name, kind));
    }
    out.sort();
    out
}

fn registry_main() {
    install_panic_hook();
    let vm = new_vm();
    let reg = registry(&vm);
    // arity window: which argument counts 0..=8 do not answer InvalidNumArgs (arguments all `0`)
    let mut requests = vec![];
    for (name, _) in &reg {
        for k in 0..=8 {
            let mut r = format!("call {}", name);
            for _ in 0..k {
                r.push_str(" 0");
            }
            requests.push(r);
        }
    }
    let responses = run_isolated(requests, jobs());
    let mut it = responses.iter();
    for (name, kind) in &reg {
        let accepted: Vec<bool> = (0..=8).map(|_| !it.next().unwrap().starts_with("err arity")).collect();
        let min = accepted.iter().position(|a| *a);
        let max = accepted.iter().rposition(|a| *a);
        let contiguous = match (min, max) {
            (Some(a), Some(b)) => accepted[a..=b].iter().all(|x| *x),
            _ => true,
        };
        let (mn, mx) = match (min, max) {
            (Some(a), Some(8)) => (a.to_string(), "inf".to_string()),
            (Some(a), Some(b)) => (a.to_string(), b.to_string()),
            _ => ("none".into(), "none".into()),
        };
        // `gen <name>` is answered by the driver from the regenerated table (Rust builtins only)
        println!(
            "{} {}\t{} {}{}",
            if *kind == "builtin" { "gen" } else { "closure" },
            name,
            mn,
            mx,
            if contiguous { "" } else { " non-contiguous" }
        );
    }
}

// ------------------------------------------------------------------------------- builtin cases

/// palette indices that plausibly reach past the first type check of `name`
fn affinity(name: &str) -> Vec<usize> {
    let want: &[K] = if name.starts_with("vector") || name.ends_with("vector") || name.contains("vector") {
        &[K::Vec, K::Int, K::List, K::Str]
    } else if name.starts_with("string") || name.contains("string") || name == "substring" {
        &[K::Str, K::Int, K::Char, K::List, K::Sym]
    } else if name.starts_with("char") || name.contains("char") || name == "digit-value" {
        &[K::Char, K::Int]
    } else if name.starts_with("list")
        || matches!(
            name,
            "append" | "reverse" | "length" | "car" | "cdr" | "cons" | "set-car!" | "set-cdr!" | "map"
                | "for-each" | "memq" | "memv" | "member" | "assq" | "assv" | "assoc" | "apply" | "any?"
                | "map1" | "caar" | "cadr" | "cdar" | "cddr"
        )
    {
        &[K::List, K::Int, K::Proc]
    } else if matches!(name, "eval" | "call/cc" | "call-with-current-continuation" | "force" | "error") {
        &[K::Proc, K::List, K::Cont, K::Sym]
    } else {
        &[K::Int, K::Huge, K::Rat, K::Flo]
    };
    (0..PALETTE.len()).filter(|i| want.contains(&PALETTE[*i].kind)).collect()
}

fn builtin_requests(tier: &str, seed: u64) -> Vec<String> {
    let vm = new_vm();
    let reg = registry(&vm);
    drop(vm);
    let quick = tier != "thorough";
    let mut rng = Rng::new(seed ^ 0xC06);
    let mut out = vec![];
    let noncirc: Vec<usize> = (0..PALETTE.len()).filter(|i| PALETTE[*i].kind != K::Circ).collect();
    let circ: Vec<usize> = (0..PALETTE.len()).filter(|i| PALETTE[*i].kind == K::Circ).collect();
    let core: Vec<usize> = noncirc.iter().copied().filter(|i| PALETTE[*i].core).collect();
    let push = |out: &mut Vec<String>, name: &str, idx: &[usize]| {
        let args: Vec<&P> = idx.iter().map(|i| &PALETTE[*i]).collect();
        if out_of_scope(name, &args) {
            return;
        }
        let has_circ = args.iter().any(|q| q.kind == K::Circ);
        let cmd = if has_circ && !CIRC_PROCS.contains(&name) { "xcall" } else { "call" };
        let mut r = format!("{} {}", cmd, name);
        for q in &args {
            r.push(' ');
            r.push_str(q.tok);
        }
        out.push(r);
    };
    for (name, _) in &reg {
        let aff = affinity(name);
        let takes_circ = CIRC_PROCS.contains(&name.as_str());
        // arity 0 and 1: everything (circular data only into the five procedures of the quantifier)
        push(&mut out, name, &[]);
        for i in 0..PALETTE.len() {
            if PALETTE[i].kind != K::Circ || takes_circ {
                push(&mut out, name, &[i]);
            }
        }
        // arity 2: full cross product (thorough) / core cross product + affinity cross product (quick)
        if quick {
            for &a in &core {
                for &b in &core {
                    push(&mut out, name, &[a, b]);
                }
            }
            for _ in 0..150 {
                let a = if rng.chance(2, 3) { *rng.pick(&aff) } else { *rng.pick(&noncirc) };
                let b = if rng.chance(2, 3) { *rng.pick(&aff) } else { *rng.pick(&noncirc) };
                push(&mut out, name, &[a, b]);
            }
        } else {
            for &a in &noncirc {
                for &b in &noncirc {
                    push(&mut out, name, &[a, b]);
                }
            }
        }
        if takes_circ {
            for &c in &circ {
                for &b in if quick { &core } else { &noncirc } {
                    push(&mut out, name, &[c, b]);
                    push(&mut out, name, &[b, c]);
                }
                for &d in &circ {
                    push(&mut out, name, &[c, d]);
                }
            }
        }
        // shared containers: the SAME object at two argument positions (arity 2..5), other positions sampled
        let containers: Vec<usize> = noncirc
            .iter()
            .copied()
            .filter(|i| matches!(PALETTE[*i].kind, K::Str | K::List | K::Vec))
            .collect();
        // procedures that accept containers: every pair of positions x every container of an accepted kind, the
        // other positions from the accepted kinds (so that validation passes and the work on the two aliases is
        // reached); all procedures: a few random ones
        let aff_containers: Vec<usize> = aff.iter().copied().filter(|i| containers.contains(i)).collect();
        let small: Vec<usize> =
            (0..PALETTE.len()).filter(|i| ["0", "1", "2", "3"].contains(&PALETTE[*i].tok)).collect();
        let mut plans: Vec<(usize, usize, usize, Option<usize>)> = vec![];
        for arity in 2..=(if quick { 4usize } else { 5 }) {
            for a in 0..arity {
                for b in (a + 1)..arity {
                    for &c in &aff_containers {
                        for _ in 0..(if quick { 2 } else { 6 }) {
                            plans.push((arity, a, b, Some(c)));
                        }
                    }
                }
            }
            for _ in 0..(if quick { 4 } else { 40 }) {
                let a = rng.below(arity as u64) as usize;
                let mut b = rng.below(arity as u64) as usize;
                if a == b {
                    b = (a + 1) % arity;
                }
                plans.push((arity, a.min(b), a.max(b), None));
            }
        }
        for (arity, a, b, fixed) in plans {
            {
                let idx: Vec<usize> = (0..arity)
                    .map(|k| {
                        if k == a {
                            match fixed {
                                Some(c) => c,
                                None => {
                                    if rng.chance(3, 4) { *rng.pick(&containers) } else { *rng.pick(&aff) }
                                }
                            }
                        } else if fixed.is_some() && rng.chance(1, 2) {
                            // small indices: ranges that pass validation, so that the work on the aliases is reached
                            *rng.pick(&small)
                        } else if fixed.is_some() || rng.chance(3, 5) {
                            *rng.pick(&aff)
                        } else {
                            *rng.pick(&noncirc)
                        }
                    })
                    .collect();
                let args: Vec<&P> = idx.iter().map(|i| &PALETTE[*i]).collect();
                if out_of_scope(name, &args) || args.iter().any(|q| q.kind == K::Circ) {
                    continue;
                }
                let mut r = format!("call {}", name);
                for (k, q) in args.iter().enumerate() {
                    r.push(' ');
                    if k == b {
                        r.push_str(&format!("={}", a));
                    } else {
                        r.push_str(q.tok);
                    }
                }
                out.push(r);
            }
        }
        // arity 3..5: sampled, biased to the kinds the procedure accepts
        let per = if quick { 40 } else { 600 };
        for arity in 3..=5usize {
            for _ in 0..per {
                let idx: Vec<usize> = (0..arity)
                    .map(|_| {
                        if rng.chance(3, 5) {
                            *rng.pick(&aff)
                        } else if takes_circ && rng.chance(1, 4) {
                            *rng.pick(&circ)
                        } else {
                            *rng.pick(&noncirc)
                        }
                    })
                    .collect();
                push(&mut out, name, &idx);
            }
        }
    }
    if !quick {
        // outside the quantifier, informational: circular data into the other procedures (sampled;
        // most of these die converting the datum for the error message)
        for _ in 0..90 {
            let (name, _) = rng.pick(&reg);
            if CIRC_PROCS.contains(&name.as_str()) {
                continue;
            }
            let c = *rng.pick(&circ);
            if rng.chance(1, 2) {
                push(&mut out, name, &[c]);
            } else if rng.chance(1, 2) {
                push(&mut out, name, &[c, *rng.pick(&noncirc)]);
            } else {
                push(&mut out, name, &[*rng.pick(&noncirc), c]);
            }
        }
    }
    out
}

// ------------------------------------------------------------------------------- text cases

const SEED_PROGRAMS: &[&str] = &[
    "(define)",
    "(define x)",
    "(define 1 2)",
    "(define (f) )",
    "(define (f . 1) 1)",
    "(lambda)",
    "(lambda (x))",
    "(lambda (1) 1)",
    "(lambda (x x) x)",
    "(lambda (x . 1) x)",
    "(if)",
    "(if 1)",
    "(if 1 2 3 4)",
    "(let ((x)) x)",
    "(let ((x 1 2)) x)",
    "(let (x) x)",
    "(let x)",
    "(let loop)",
    "(let* ((x 1) (y)) y)",
    "(letrec ((x)) x)",
    "(set!)",
    "(set! x)",
    "(set! 1 2)",
    "(set! undefined-variable 1)",
    "(quote)",
    "(quote 1 2)",
    "(quasiquote)",
    "`(1 ,@(list 2 3) 4)",
    "`(1 `(2 ,(3 ,(+ 1 2))))",
    "`(1 . ,(+ 1 2))",
    "`#(1 ,(+ 1 2))",
    "`,@(list 1 2)",
    "(unquote 1)",
    ",x",
    ",@x",
    "(define-syntax)",
    "(define-syntax m)",
    "(define-syntax m 1)",
    "(define-syntax m (syntax-rules))",
    "(define-syntax m (syntax-rules 1))",
    "(define-syntax m (syntax-rules () 1))",
    "(define-syntax m (syntax-rules () (1 2)))",
    "(define-syntax m (syntax-rules () ((_ a ...) (a ... ...))))",
    "(define-syntax m (syntax-rules () ((_ a ... b ...) 1)))",
    "(define-syntax m (syntax-rules (...) ((_ ...) 1)))",
    "(define-syntax 1 (syntax-rules () ((_) 1)))",
    "(begin (define-syntax m (syntax-rules () ((_ a) (m a a)) ((_ a b) b))) (m 1))",
    "(begin (define-syntax m (syntax-rules () ((_ (a b) ...) (list (cons a b) ...)))) (m (1 2) (3)))",
    "(syntax-rules)",
    "(else)",
    "(=> 1)",
    "(cond)",
    "(cond (else))",
    "(cond (1 => ))",
    "(cond (1 => 2))",
    "(case)",
    "(case 1)",
    "(case 1 (1 2))",
    "(case 1 ((1) => car))",
    "(and . 1)",
    "(or 1 . 2)",
    "(when)",
    "(unless)",
    "(begin)",
    "(begin . 1)",
    "(car . 1)",
    "(car 1 . 2)",
    "(1 2 3)",
    "((lambda (x) x))",
    "((lambda (x) x) 1 2)",
    "((lambda (x . y) y))",
    "(\"string\" 1)",
    "()",
    "#()",
    "'#(1 #(2 #(3)))",
    "(eval (list 'quote car))",
    "(eval (vector car))",
    "(eval '(define))",
    "(eval '(lambda))",
    "(eval (list (lambda (x) x) 1))",
    "(eval (list car ''(1)))",
    "(eval (call/cc (lambda (k) k)))",
    "(apply + 1)",
    "(apply + 1 2)",
    "(apply + '(1 . 2))",
    "(apply car '((1)) '())",
    "(apply apply (list + (list 1 2)))",
    "(call/cc 5)",
    "(call/cc call/cc)",
    "(call/cc (lambda (k) (k 1 2)))",
    "(call/cc (lambda (k) (k)))",
    "((call/cc (lambda (k) k)) 1)",
    "(error)",
    "(error 'a \"b\" 1 car (if #f #f))",
    "(error (vector car))",
    "(exact->inexact 1/3)",
    "(exact->inexact 100000000000000000000000000000000000000000000000000000000000000000000000000000000000000000000000000000000000000000000000000000000000000000000000000000000000000000000000000000000000000000000000000000000000000000000000000000000000000000000000000000000000000000000000000000000000000000000000000000000000000000)",
    "(inexact->exact 1e308)",
    "(inexact->exact (/ 1.0 0.0))",
    "(inexact->exact (- (/ 1.0 0.0) (/ 1.0 0.0)))",
    "(expt 2 100000)",
    "(expt 2 -100000)",
    "(expt 0 -1)",
    "(expt 0 0)",
    "(expt 1/2 1000)",
    "(expt 2.0 1000000)",
    "(expt -8 1/3)",
    "(string->number \"1e400\")",
    "(string->number \"-1e400\")",
    "(string->number \"1/0\")",
    "(string->number \"#e1.5e400\")",
    "(string->number \"#x-ff/0\")",
    "(string->number \"\")",
    "(string->number \"+\")",
    "(string->number \"1\" 1)",
    "(string->number \"1\" 37)",
    "(string->number \"z\" 36)",
    "(number->string 1.5 2)",
    "(number->string 1/3 37)",
    "(number->string 10 0)",
    "(number->string 10 1)",
    "(integer->char 55296)",
    "(integer->char 1114112)",
    "(integer->char -1)",
    "(vector-ref (vector 1 2) 1/2)",
    "(vector-ref (vector 1 2) 1.0)",
    "(vector-ref (vector 1 2) -1)",
    "(list-tail (list 1 2) -1)",
    "(list-tail (list 1 2) 3)",
    "(list-ref (list 1 2) 2)",
    "(make-vector 1000000)",
    "(make-vector 1000000 (vector))",
    "(make-string 1000000)",
    "(make-string 1000000 #\\λ)",
    "(make-vector -1)",
    "(make-vector 1.5)",
    "(vector-length (make-vector 1000000 0))",
    "(string-length (make-string 1000000 #\\a))",
    "(length (vector->list (make-vector 10000 0)))",
    "(quotient 1 0)",
    "(remainder 1 0)",
    "(modulo 1 0)",
    "(/ 1 0)",
    "(/ 0)",
    "(/ 1.0 0)",
    "(% 1 0)",
    "(quotient -9223372036854775808 -1)",
    "(modulo -9223372036854775808 -1)",
    "(abs -9223372036854775808)",
    "(- -9223372036854775808)",
    "(* 9223372036854775807 9223372036854775807)",
    "(+ 9223372036854775807 1)",
    "(exact (floor 1e300))",
    "(round 1e300)",
    "(truncate -1e300)",
    "(sqrt -1)",
    "(sqrt 100000000000000000000000000000000000000000)",
    "(log 0)",
    "(log -1)",
    "(atan 0 0)",
    "(max)",
    "(min 1 'a)",
    "(string-ref \"\" 0)",
    "(string-set! \"abc\" 0 #\\λ)",
    "(string-set! (string-copy \"aλc\") 1 #\\a)",
    "(substring \"abc\" 2 1)",
    "(string-copy \"λλλ\" 1 2)",
    "(string-fill! (make-string 3 #\\a) #\\λ 1 2)",
    "(symbol->string 'λ)",
    "(string->symbol \"\")",
    "(string->symbol \"a b\")",
    "(let loop ((i 0)) (if (< i 1000) (loop (+ i 1)) i))",
    "(let loop ((i 0) (acc '())) (if (< i 64) (loop (+ i 1) (list acc)) acc))",
    "(letrec ((even? (lambda (n) (if (= n 0) #t (odd? (- n 1))))) (odd? (lambda (n) (if (= n 0) #f (even? (- n 1)))))) (even? 100))",
    "(map car '((1) (2) 3))",
    "(map (lambda (x y) x) '(1 2) '(1))",
    "(map 1 '(1))",
    "(for-each car 1)",
    "(vector-map car #(1))",
    "(force (delay (car 1)))",
    "(force 1)",
    "(make-promise 1)",
    "(assq 1 '(1 2))",
    "(assoc 1 1)",
    "(member 1 '(1 . 2))",
    "(memq 1 2)",
    "(length '(1 . 2))",
    "(length 5)",
    "(reverse '(1 . 2))",
    "(append '(1 . 2) '(3))",
    "(append 1)",
    "(append 1 2)",
    "(list->string (list 1))",
    "(list->string '(#\\a . #\\b))",
    "(vector->list #(1 2) 1)",
    "(vector-fill! #(1 2) 0 5)",
    "(string-append \"a\" 1)",
    "(char-upcase \"a\")",
    "(char->integer 1)",
    "(symbol=? 'a 1)",
    "(symbol=? 'a)",
    "(eq?)",
    "(not)",
    "(newline 1)",
    "(display)",
    "(display 1 2 3)",
    "(write (list \"a\\nb\" #\\x0 'sym (vector) 1.5 car))",
    "(define x 1) x",
    "#;(1 2) 3",
    "#|block|# 1",
    "#| unterminated",
    "\"unterminated",
    "(1 . 2 3)",
    "(1 . )",
    "( . 1)",
    "(.)",
    "'",
    "#\\",
    "#\\xD800",
    "#\\x110000",
    "#\\xFFFFFFFFFFFFFFFFFFFFFFFF",
    "\"\\x110000;\"",
    "\"\\xD800;\"",
    "\"\\xFFFFFFFFFFFFFFFFFFFF;\"",
    "\"\\q\"",
    "\"a\\\n   b\"",
    "#e1.5",
    "#i1/3",
    "#x#e1F",
    "#e#x1F",
    "#b102",
    "#e1e400",
    "#i1e400",
    "1e400",
    "-1e400",
    "1e-400",
    "#e1e-400",
    "1/0",
    "#i1/0",
    "0/0",
    "-0/1",
    "1e",
    "1e+",
    ".5",
    "-.5e-3",
    "+.",
    "...",
    "|a b|",
    "|unterminated",
    "#t#f",
    "#true",
    "#false",
    "#u8(1 2)",
    "#1=(1 . #1#)",
    "[1 2)",
    "(1 2]",
    "{1 2}",
];

const SOUP_ATOMS: &[&str] = &[
    "(", ")", "[", "]", "#(", "'", "`", ",", ",@", ".", " ", "\n", "\t", ";c\n", "#|", "|#", "#;", "\"", "\\",
    "#\\", "#\\x", "#t", "#f", "#e", "#i", "#x", "#b", "#o", "#d", "0", "1", "-", "+", "1/2", "/", "1e", "e400",
    ".5", "+inf.0", "-inf.0", "+nan.0", "a", "λ", "ß", "𝄞", "\u{0}", "\u{7f}", "\u{85}", "\u{a0}", "\u{2028}",
    "\u{feff}", "\u{10ffff}", "\u{e000}", "\u{301}", "|", "#", "@", "{", "}", "quote", "lambda", "define", "if",
    "let", "set!", "define-syntax", "syntax-rules", "...", "_", "else", "=>", "car", "cons", "x", "9223372036854775808",
    "\\x41;", "\\n", "#\\space", "#\\newline", "#\\x41", "#\\λ",
    // fix c1c04ca: the sign of an exponent belongs to the number token
    "1e-7", "2.5E+3", ".5e-1", "e-", "E+", "1e-", "1e-x",
];

fn depth_ok(text: &str) -> bool {
    // the property bounds nesting depth by 64
    let mut d = 0i32;
    let mut m = 0i32;
    for c in text.chars() {
        match c {
            '(' | '[' | '\'' | '`' | ',' => {
                d += 1;
                m = m.max(d)
            }
            ')' | ']' => d -= 1,
            _ => {}
        }
    }
    m <= 60
}

fn soup(rng: &mut Rng) -> String {
    let n = 1 + rng.below(24);
    let mut s = String::new();
    for _ in 0..n {
        if rng.chance(1, 12) {
            // an arbitrary scalar value
            let c = loop {
                let v = rng.below(0x110000) as u32;
                if let Some(c) = char::from_u32(v) {
                    break c;
                }
            };
            s.push(c);
        } else {
            let a: &&str = rng.pick(SOUP_ATOMS);
            s.push_str(a);
        }
    }
    s
}

fn mutate(rng: &mut Rng, base: &str, light: &[&str]) -> String {
    let mut cs: Vec<char> = base.chars().collect();
    let edits = 1 + rng.below(3);
    for _ in 0..edits {
        let pos = rng.below(cs.len() as u64 + 1) as usize;
        match rng.below(6) {
            0 if !cs.is_empty() => {
                cs.remove(pos.min(cs.len() - 1));
            }
            1 => {
                let a: Vec<char> = rng.pick(SOUP_ATOMS).chars().collect();
                for (k, c) in a.into_iter().enumerate() {
                    cs.insert(pos + k, c);
                }
            }
            2 if !cs.is_empty() => {
                let i = pos.min(cs.len() - 1);
                cs[i] = *rng.pick(&['(', ')', '\'', '.', '#', '"', ' ', '0', 'a', 'λ', ',', '`']);
            }
            3 if cs.len() > 2 => {
                // duplicate a slice
                let a = rng.below(cs.len() as u64) as usize;
                let b = (a + 1 + rng.below(8) as usize).min(cs.len());
                let sl: Vec<char> = cs[a..b].to_vec();
                for (k, c) in sl.into_iter().enumerate() {
                    cs.insert(pos.min(cs.len()) + k * 0, c);
                }
            }
            4 if cs.len() > 2 => {
                // truncate
                let a = 1 + rng.below(cs.len() as u64 - 1) as usize;
                cs.truncate(a);
            }
            _ => {
                // splice another seed program in
                let other: Vec<char> = rng.pick(light).chars().collect();
                for (k, c) in other.into_iter().enumerate() {
                    cs.insert((pos + k).min(cs.len()), c);
                }
            }
        }
    }
    cs.into_iter().collect()
}

/// maximal digit runs of at least 6 digits
fn digit_runs(t: &str) -> Vec<String> {
    let mut out = vec![];
    let mut cur = String::new();
    for c in t.chars().chain(std::iter::once(' ')) {
        if c.is_ascii_digit() {
            cur.push(c);
        } else {
            if cur.len() >= 6 {
                out.push(cur.clone());
            }
            cur.clear();
        }
    }
    out
}

/// seeds that request 10^6 units of allocation are run as they are and never used as mutation
/// material (a mutated size or exponent would leave the quantifier: allocation sizes <= 10^6)
fn heavy(seed: &str) -> bool {
    seed.contains("100000")
}

fn text_requests(n: usize, seed: u64) -> Vec<String> {
    let mut rng = Rng::new(seed ^ 0x7E47);
    let light: Vec<&str> = SEED_PROGRAMS.iter().copied().filter(|s| !heavy(s)).collect();
    let known_runs: Vec<String> = light.iter().flat_map(|s| digit_runs(s)).collect();
    let mut out: Vec<String> = SEED_PROGRAMS.iter().map(|s| format!("text {}", enc_text(s))).collect();
    // ill-formed binders: every kind of datum in every position where the language wants a variable name
    // (formals of lambda / define / nested and internal define, let-family bindings, set!, define-syntax keyword),
    // at top level and nested inside procedure bodies (the analyses that run over a body see the nested ones first)
    const BINDER_DATA: [&str; 14] = ["1.5", ".5", "-0.0", "1e3", "#i1/3", "7", "3/4", "100000000000000000000",
        "\"s\"", "#\\a", "#(1 2)", "(1 2)", "()", "#t"];
    const BINDER_SHAPES: [&str; 16] = [
        "(lambda (D) 1)", "(lambda (x . D) 1)", "(lambda D 1)", "(define (f D) 1)", "(define (f . D) 1)", "(define D 1)",
        "(set! D 1)", "(let ((D 1)) 2)", "(let* ((D 1)) 2)", "(letrec ((D 1)) 2)", "(let loop ((D 1)) 2)",
        "(define (g) (define (h D) 1) 2)", "(lambda () (define (f D) 0) 1)", "(lambda (x) (define D 2) x)",
        "(let ((x 1)) (define (f a D) a) (f 1 2))", "(define-syntax D (syntax-rules () ((_) 1)))",
    ];
    for sh in BINDER_SHAPES.iter() {
        for d in BINDER_DATA.iter() {
            let t = sh.replace("D", d);
            out.push(format!("text {}", enc_text(&t)));
            out.push(format!("text {}", enc_text(&format!("(eval '{})", t))));
        }
    }
    let fixed = out.len();
    while out.len() < n + fixed {
        let t = if rng.chance(2, 5) {
            soup(&mut rng)
        } else {
            let base = *rng.pick(&light);
            mutate(&mut rng, base, &light)
        };
        if digit_runs(&t).iter().any(|r| !known_runs.contains(r)) {
            continue;
        }
        if t.is_empty() || !depth_ok(&t) || t.chars().count() > 600 {
            continue;
        }
        out.push(format!("text {}", enc_text(&t)));
    }
    out
}

// ------------------------------------------------------------------------------- main

fn main() {
    let args: Vec<String> = std::env::args().collect();
    let seed: u64 = std::env::var("VERIF_SEED").ok().and_then(|s| s.parse().ok()).unwrap_or(1);
    let mode = args.get(1).map(|s| s.as_str()).unwrap_or("");
    match mode {
        "worker" => worker_main(),
        "registry" => registry_main(),
        "builtins" => {
            install_panic_hook();
            let tier = args.get(2).map(|s| s.as_str()).unwrap_or("quick");
            emit(builtin_requests(tier, seed));
        }
        "count" => {
            install_panic_hook();
            let tier = args.get(2).map(|s| s.as_str()).unwrap_or("quick");
            println!("{}", builtin_requests(tier, seed).len());
        }
        "values" => {
            emit(PALETTE.iter().map(|q| format!("value {}", q.tok)).collect());
        }
        "text" => {
            let n: usize = args.get(2).and_then(|s| s.parse().ok()).unwrap_or(1000);
            emit(text_requests(n, seed));
        }
        "palette" => {
            // rendering of every non-circular palette value (cross-check with the Lean palette)
            install_panic_hook();
            for q in PALETTE {
                if q.kind == K::Circ {
                    println!("palette {}\tcircular", q.tok);
                    continue;
                }
                let mut vm = new_vm();
                let r = catch(|| vm.eval_text(q.scm).map(|(c, _)| c));
                let s = match r {
                    Ok(Ok(c)) => format!("ok {}", enc_datum(&c)),
                    Ok(Err(e)) => format!("err {}", error_class(&e)),
                    Err(site) => format!("panic {}", site),
                };
                println!("palette {}\t{}", q.tok, s);
            }
        }
        "replay" => {
            let reqs: Vec<String> = if args.get(2).map(|s| s.as_str()) == Some("-") {
                std::io::stdin().lock().lines().filter_map(|l| l.ok()).filter(|l| !l.is_empty()).collect()
            } else {
                args[2..].to_vec()
            };
            emit(reqs);
        }
        "show" => {
            // debugging aid: evaluate in-process and print the written result / the error text
            install_panic_hook();
            let text = args[2..].join(" ");
            let mut vm = new_vm();
            match catch(|| vm.eval_text(&text).map(|(c, _)| c)) {
                Ok(Ok(c)) => println!("ok {:#}", c),
                Ok(Err(e)) => println!("err {} [{}]", error_class(&e), e),
                Err(site) => println!("panic {}", site),
            }
        }
        "one" => {
            // debugging aid: evaluate the given Scheme text through a worker
            let text = args[2..].join(" ");
            emit(vec![format!("scm {}", enc_text(&text))]);
        }
        _ => {
            eprintln!("usage: total registry|builtins <tier>|values|text <n>|palette|replay <req>...|one <scheme>");
            std::process::exit(2);
        }
    }
}
