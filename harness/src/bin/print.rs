//! Correspondence generators of the PRINT area (C10, C18).
//! Output: one line per case, `request \t impl-response [\t spec-request]`.
//!
//! Sub-commands (first argument):
//!   c10-rt <n>      readable data (recursive generator): write, parse_text, write again        (C10, spec)
//!   c10-trip <n>    readable data: source text `(quote <written>)` -> Vm::eval_text -> result -> text (C10, spec)
//!   c10-eval <n>    readable data: Vm::eval of (quote d) as a Cell                                  (C10, spec)
//!   c10-any <n>     arbitrary data (unreadable symbols, non-finite doubles, opaque values): round trip, model only
//!   c10-print <n>   arbitrary data in display and write mode, model only
//!   c10-chars <full|quick>  every scalar value as a character and inside strings                  (C10, spec)
//!   sym-enc <n> | sym-dec <n> | sym-rt <n> | sym-rt2 <n> | sym-chars <full|quick>                  (C18)
//!   sym-eq <n>      two symbols by production routes x collection schedules: eq?, names            (C18, spec)
//!   probe <text>…   evaluate texts and print the results (manual use)
use marwood::cell::Cell;
use marwood::error::Error;
use marwood::lex;
use marwood::number::Number;
use marwood::parse;
use marwood::vm::Vm;
use mwv::rng::Rng;
use mwv::wire::*;
use std::io::Write;
use std::panic::AssertUnwindSafe;

#[path = "../reader_parse.rs"]
#[allow(dead_code)]
mod rp;
#[path = "../reader_num.rs"]
#[allow(dead_code)]
mod rn;
use rp::{parse_err_class, Oracle};

// ------------------------------------------------------------------ generators

/// scalar values with weight on what the printer and the reader treat specially
fn gen_char(rng: &mut Rng) -> char {
    loop {
        let v: u32 = match rng.below(14) {
            0 | 1 | 2 => 0x61 + rng.below(26) as u32,
            3 => 0x20 + rng.below(0x5f) as u32,
            4 => *rng.pick(&[
                0x20, 0x0a, 0x09, 0x0d, 0x00, 0x07, 0x08, 0x1b, 0x7f, 0x0b, 0x0c, 0x22, 0x5c, 0x28, 0x29, 0x3b, 0x23,
                0x27, 0x60, 0x2c, 0x2e, 0x7c, 0x78, 0x58, 0x5b, 0x7b, 0x40, 0x2b, 0x2d, 0x30, 0x39,
            ]),
            5 => rng.below(0x20) as u32,
            6 => 0x7f + rng.below(0x22) as u32,
            7 => rng.below(0x100) as u32,
            8 => *rng.pick(&[
                0x85, 0xa0, 0xaa, 0xb5, 0xd7, 0xf7, 0xff, 0x100, 0x2028, 0x2029, 0x3000, 0xd7ff, 0xe000, 0xfeff,
                0xfffd, 0xffff, 0x10000, 0x1f600, 0x10ffff, 0x3bb,
            ]),
            9 => 0x2000 + rng.below(0x70) as u32,
            10 | 11 => rng.below(0x10000) as u32,
            _ => rng.below(0x110000) as u32,
        };
        if let Some(c) = char::from_u32(v) {
            return c;
        }
    }
}

fn gen_string(rng: &mut Rng) -> String {
    let n = match rng.below(8) {
        0 => 0,
        1 => 1,
        7 => 9 + rng.below(12),
        _ => 2 + rng.below(6),
    };
    (0..n).map(|_| gen_char(rng)).collect()
}

/// does the reader, given exactly this text, produce the symbol with this spelling?
fn reads_as_symbol(s: &str) -> bool {
    let t = s.to_string();
    matches!(catch(move || parse::parse_text(&t).map(|(c, r)| (c, r.is_none()))),
             Ok(Ok((Cell::Symbol(y), true))) if y == s)
}

fn ident_char(rng: &mut Rng, first: bool) -> char {
    match rng.below(10) {
        0 => *rng.pick(&['!', '$', '%', '&', '*', '/', ':', '<', '=', '>', '?', '^', '_', '~']),
        1 if !first => *rng.pick(&['0', '1', '7', '9', '+', '-', '.', '@', ';']),
        2 => *rng.pick(&['λ', 'é', 'ß', 'µ', 'ª', '日', '本', '😀', 'Ω', 'ÿ', 'À']),
        3 => (b'A' + rng.below(26) as u8) as char,
        _ => (b'a' + rng.below(26) as u8) as char,
    }
}

/// a spelling the reader produces as a symbol from the text of the spelling itself
fn gen_reader_symbol(rng: &mut Rng) -> String {
    loop {
        let s: String = match rng.below(10) {
            0 => rng
                .pick(&[
                    "+", "-", "...", "->x", "a.b", "1+", "-a", "<=?", "!x", "$%&*/:<=>?^_~", "quote", "quasiquote",
                    "unquote", "lambda", "λ", "a@b", "a;b", "x1", "..", ".a", "+.", "-.", "a\\b", "\\", "日本", "é",
                    "a+", "a-b", "1/0", "0/0", "1a", "12ab", "1.2.3", "-+5", "+-5", "++", "--", "1e", "e1", "inf",
                    "nan", "-inf", "+inf", "NaN", "a\\x41;b", "\\x41;", "x", "X", "t", "f", "define", "if", ".5.",
                    "1/2/3", "1//2", "+a", ".+", "-.5a", "1_000", "a\\", "\\\\", "\\x;", "ff", "e", "1f5", "-e",
                    // fix c1c04ca: a spelling with a signed exponent that reads as a number is no longer a
                    // reader-producible symbol (reads_as_symbol below asks the real reader); the near misses are
                    "1e-7", "2.5E+3", ".5e-1", "-1e+2", "1e-", "1e-x", "1ee-7", ".e-1", ".5e-x", "1e-7x", "1.e-2",
                    "1e--7", "1e+-7", "+1e-7", "1e+", "-1E-", "1.2.3e-4", "1/2e-3", "1e-7e-7", "+e-1", "-e+1", "e-7",
                ])
                .to_string(),
            1 => {
                // number-initial tokens that may or may not be numbers
                let n = 1 + rng.below(4);
                let mut s = String::new();
                s.push(*rng.pick(&['+', '-', '1', '9', '.', '0']));
                for _ in 0..n {
                    s.push(*rng.pick(&['0', '1', '5', 'a', 'e', 'e', 'E', 'f', '.', '/', '+', '-', '-', 'x', 'g', '@']));
                }
                s
            }
            2 => {
                let mut s = String::new();
                s.push(gen_char(rng));
                if rng.chance(1, 2) {
                    s.push(gen_char(rng));
                }
                s
            }
            _ => {
                let n = 1 + rng.below(7);
                (0..n).map(|i| ident_char(rng, i == 0)).collect()
            }
        };
        if reads_as_symbol(&s) {
            return s;
        }
    }
}

/// symbols the reader produces only behind a radix prefix (`#b12` is the symbol `12`)
fn gen_prefix_only_symbol(rng: &mut Rng) -> String {
    rng.pick(&["12", "9", "1/2", "102", "7/8", "-2", "+19", "8", "1/9"]).to_string()
}

fn gen_any_symbol(rng: &mut Rng) -> String {
    match rng.below(6) {
        0 => rng
            .pick(&["", " ", "a b", "(", ")", "1", "12", "#t", "\"", "'a", "a)", ".", "a\nb", ";", "#\\a", "1.5", "a(b"])
            .to_string(),
        1 => gen_string(rng),
        _ => gen_reader_symbol(rng),
    }
}

fn finite(n: &Number) -> bool {
    match n {
        Number::Float(f) => f.is_finite(),
        _ => true,
    }
}

fn sym(s: &str) -> Cell {
    Cell::Symbol(s.to_string())
}

fn quote(c: Cell) -> Cell {
    Cell::new_list(vec![sym("quote"), c])
}

#[derive(Clone, Copy, PartialEq)]
enum Kind {
    /// what C10 quantifies over (reader-producible symbols, finite doubles, no opaque values)
    Readable,
    /// Readable plus (rarely) symbols the reader produces only behind a radix prefix
    ReadablePlus,
    /// anything a Cell can hold
    Any,
}

fn gen_atom(rng: &mut Rng, kind: Kind) -> Cell {
    match rng.below(16) {
        0 => Cell::Bool(rng.chance(1, 2)),
        1 | 2 | 3 => loop {
            let n = rn::random_number(rng);
            if kind == Kind::Any || finite(&n) {
                break Cell::Number(n);
            }
        },
        4 | 5 => Cell::Char(gen_char(rng)),
        6 | 7 | 8 => Cell::String(gen_string(rng)),
        9 => Cell::Nil,
        10 if kind == Kind::Any => match rng.below(8) {
            0 => Cell::Undefined,
            1 => Cell::Void,
            2 => Cell::Procedure(None),
            3 => Cell::Procedure(Some("car".into())),
            4 => Cell::Macro,
            5 => Cell::Continuation,
            _ => Cell::Symbol(gen_any_symbol(rng)),
        },
        _ => {
            if kind == Kind::Any {
                Cell::Symbol(gen_any_symbol(rng))
            } else if kind == Kind::ReadablePlus && rng.chance(1, 200) {
                Cell::Symbol(gen_prefix_only_symbol(rng))
            } else {
                Cell::Symbol(gen_reader_symbol(rng))
            }
        }
    }
}

fn gen_datum(rng: &mut Rng, depth: u32, kind: Kind) -> Cell {
    let k = if depth == 0 { 0 } else { rng.below(12) };
    match k {
        0..=3 => gen_atom(rng, kind),
        4 | 5 => {
            let n = rng.below(5);
            Cell::new_list((0..n).map(|_| gen_datum(rng, depth - 1, kind)).collect::<Vec<_>>())
        }
        6 => {
            let n = 1 + rng.below(4);
            let v: Vec<Cell> = (0..n).map(|_| gen_datum(rng, depth - 1, kind)).collect();
            let tail = gen_datum(rng, depth - 1, kind);
            Cell::new_improper_list(v, tail)
        }
        7 | 8 => {
            let n = rng.below(5);
            Cell::Vector((0..n).map(|_| gen_datum(rng, depth - 1, kind)).collect())
        }
        9 => quote(gen_datum(rng, depth - 1, kind)),
        10 => {
            // shapes around the quote sugar
            let x = gen_datum(rng, depth - 1, kind);
            let y = gen_datum(rng, depth - 1, kind);
            match rng.below(8) {
                0 => Cell::new_list(vec![sym("quote")]),
                1 => Cell::new_list(vec![sym("quote"), x, y]),
                2 => Cell::new_improper_list(vec![sym("quote")], x),
                3 => Cell::new_list(vec![sym("quasiquote"), x]),
                4 => Cell::new_list(vec![sym("unquote"), x]),
                5 => Cell::new_list(vec![x, sym("quote"), y]),
                6 => Cell::new_improper_list(vec![x], quote(y)),
                _ => quote(quote(x)),
            }
        }
        _ => Cell::new_pair(gen_datum(rng, depth - 1, kind), gen_datum(rng, depth - 1, kind)),
    }
}

fn pick_depth(rng: &mut Rng) -> u32 {
    match rng.below(10) {
        0 | 1 => 0,
        2 | 3 => 1,
        4 | 5 => 2,
        6 => 3,
        7 => 4,
        8 => 5,
        _ => 6,
    }
}

// ------------------------------------------------------------------ running the real code

fn write_of(c: &Cell) -> String {
    format!("{:#}", c)
}

/// write, read back, write again. `ok <w> | <d'> | <rest> | <w2>`
fn impl_roundtrip(d: &Cell, o: &mut Oracle) -> String {
    o.add_print_cell(d);
    let d2 = d.clone();
    let w = match catch(move || write_of(&d2)) {
        Ok(w) => w,
        Err(_) => return "panic write".into(),
    };
    rp::oracle_for_text(&w, o);
    let t = w.clone();
    let r = catch(move || parse::parse_text(&t).map(|(c, rest)| (c, rest.map(|s| s.to_string()))));
    match r {
        Err(_) => format!("ok {} | panic", enc_text(&w)),
        Ok(Err(e)) => format!("ok {} | err {}", enc_text(&w), parse_err_class(&e)),
        Ok(Ok((c, rest))) => {
            o.add_print_cell(&c);
            let c2 = c.clone();
            let w2 = catch(move || write_of(&c2)).unwrap_or_else(|_| "PANIC".into());
            format!(
                "ok {} | {} | {} | {}",
                enc_text(&w),
                enc_datum(&c),
                rest.map(|s| enc_text(&s)).unwrap_or_else(|| "none".into()),
                enc_text(&w2)
            )
        }
    }
}

fn vm_err_class(e: &Error) -> String {
    match e {
        Error::ParseError(p) => format!("Parse:{}", parse_err_class(p)),
        other => rn::vm_err_class(other),
    }
}

fn eval_cell(vm: &mut Vm, form: &Cell) -> Result<Result<Cell, Error>, String> {
    let form = form.clone();
    let mut vmref = AssertUnwindSafe(vm);
    catch(move || vmref.eval(&form))
}

fn show_eval(r: &Result<Result<Cell, Error>, String>) -> String {
    match r {
        Err(_) => "panic".into(),
        Ok(Ok(c)) => format!("ok {}", enc_datum(c)),
        Ok(Err(e)) => format!("err {}", vm_err_class(e)),
    }
}

/// source text `(quote <w>)` -> VM heap -> result -> text. `ok <w> | <result> | <w2>`
fn impl_trip(vm: &mut Vm, d: &Cell, o: &mut Oracle) -> String {
    o.add_print_cell(d);
    let w = write_of(d);
    let src = format!("(quote {})", w);
    rp::oracle_for_text(&src, o);
    let mut vmref = AssertUnwindSafe(vm);
    let r = catch(move || vmref.eval_text(&src).map(|(c, rest)| (c, rest.is_none())));
    match r {
        Err(_) => format!("ok {} | panic", enc_text(&w)),
        Ok(Err(e)) => format!("ok {} | err {}", enc_text(&w), vm_err_class(&e)),
        Ok(Ok((_, false))) => format!("ok {} | trailing", enc_text(&w)),
        Ok(Ok((c, true))) => {
            o.add_print_cell(&c);
            format!("ok {} | {} | {}", enc_text(&w), enc_datum(&c), enc_text(&write_of(&c)))
        }
    }
}

// ------------------------------------------------------------------ C18: symbols

fn call1(vm: &mut Vm, name: &str, arg: Cell) -> Result<Result<Cell, Error>, String> {
    eval_cell(vm, &Cell::new_list(vec![sym(name), arg]))
}

fn show_text_result(r: &Result<Result<Cell, Error>, String>) -> String {
    match r {
        Err(_) => "panic".into(),
        Ok(Ok(Cell::Symbol(s))) | Ok(Ok(Cell::String(s))) => format!("ok {}", enc_text(s)),
        Ok(Ok(c)) => format!("ok? {}", enc_datum(c)),
        Ok(Err(e)) => format!("err {}", vm_err_class(e)),
    }
}

/// strings given to string->symbol
fn gen_name(rng: &mut Rng) -> String {
    match rng.below(10) {
        0 => rng
            .pick(&[
                "", " ", "a b", "\\", "a\\b", "\\x41;", "A", "1", "12foo", " foo", "+", "-", "...", "1+", "a;b", ";",
                "(", ")", "#t", "\"", "'", "a\\", "\\\\", "x", "\\x", "λ", "a\tb", "\n", ".", "..", "a.b", "@", "@a", "a@",
                "\u{85}", "\u{a0}", "\u{2028}", "😀", "\u{10ffff}", "\0", "a\0b", "|a|", "#", "a#", "é", "×", "÷",
            ])
            .to_string(),
        1 | 2 => gen_reader_symbol(rng),
        3 => {
            // digit / sign / dot initial
            let mut s = String::new();
            s.push(*rng.pick(&['0', '7', '+', '-', '.', '@', ';', '#']));
            let n = rng.below(4);
            for i in 0..n {
                s.push(ident_char(rng, i == 0));
            }
            s
        }
        _ => gen_string(rng),
    }
}

/// spellings handed to symbol->string
fn gen_spelling(vm: &mut Vm, rng: &mut Rng) -> String {
    match rng.below(8) {
        0 | 1 => gen_reader_symbol(rng),
        2 | 3 => {
            // what string->symbol builds
            let s = gen_name(rng);
            match call1(vm, "string->symbol", Cell::String(s.clone())) {
                Ok(Ok(Cell::Symbol(y))) => y,
                _ => s,
            }
        }
        4 => {
            // escapes of every kind, valid or not
            let mut s = String::new();
            let n = 1 + rng.below(4);
            for _ in 0..n {
                match rng.below(8) {
                    0 => s.push_str(*rng.pick(&["\\n", "\\t", "\\a", "\\b", "\\\\", "\\q", "\\(", "\\"])),
                    1 => s.push_str(&format!("\\x{:x};", gen_char(rng) as u32)),
                    2 => s.push_str(&format!("\\x{:X};", gen_char(rng) as u32)),
                    3 => s.push_str(*rng.pick(&[
                        "\\x;", "\\x41", "\\xzz;", "\\x110000;", "\\xd800;", "\\xffffffff;", "\\x100000000;",
                        "\\x0041;", "\\X41;", "\\x",
                    ])),
                    _ => s.push(ident_char(rng, false)),
                }
            }
            s
        }
        _ => gen_any_symbol(rng),
    }
}

#[derive(Clone, Debug)]
enum Route {
    /// `'y` in source text
    LitText(String),
    /// `(quote y)` handed to the compiler as a Cell
    Quoted(String),
    /// `(string->symbol "s")`
    S2S(String),
    /// the literal in the template of a macro
    Macro(String),
    /// `(eval ''y)` / `(eval '(quote y))`
    Eval(String),
    /// `(eval '(string->symbol "s"))`
    EvalS2S(String),
    /// `(car '(y z))`
    CarOfList(String),
    /// `(string->symbol (symbol->string 'y))`
    ReS2S(String),
}

impl Route {
    fn name(&self) -> &'static str {
        match self {
            Route::LitText(_) => "lit",
            Route::Quoted(_) => "quoted",
            Route::S2S(_) => "s2s",
            Route::Macro(_) => "macro",
            Route::Eval(_) => "eval",
            Route::EvalS2S(_) => "eval-s2s",
            Route::CarOfList(_) => "car",
            Route::ReS2S(_) => "re-s2s",
        }
    }
}

static MACRO_COUNTER: std::sync::atomic::AtomicU64 = std::sync::atomic::AtomicU64::new(0);

/// evaluate whatever the route needs beforehand, return the expression that yields the symbol
fn route_expr(vm: &mut Vm, r: &Route) -> Option<Cell> {
    Some(match r {
        Route::LitText(y) => {
            let t = format!("'{}", y);
            match parse::parse_text(&t) {
                Ok((c, None)) => c,
                _ => return None,
            }
        }
        Route::Quoted(y) => quote(sym(y)),
        Route::S2S(s) => Cell::new_list(vec![sym("string->symbol"), Cell::String(s.clone())]),
        Route::Macro(y) => {
            let n = MACRO_COUNTER.fetch_add(1, std::sync::atomic::Ordering::Relaxed);
            let m = format!("zq-macro-{}", n);
            let def = Cell::new_list(vec![
                sym("define-syntax"),
                sym(&m),
                Cell::new_list(vec![
                    sym("syntax-rules"),
                    Cell::Nil,
                    Cell::new_list(vec![Cell::new_list(vec![sym("_")]), quote(sym(y))]),
                ]),
            ]);
            match eval_cell(vm, &def) {
                Ok(Ok(_)) => {}
                _ => return None,
            }
            Cell::new_list(vec![sym(&m)])
        }
        Route::Eval(y) => Cell::new_list(vec![sym("eval"), quote(quote(sym(y)))]),
        Route::EvalS2S(s) => Cell::new_list(vec![
            sym("eval"),
            quote(Cell::new_list(vec![sym("string->symbol"), Cell::String(s.clone())])),
        ]),
        Route::CarOfList(y) => {
            Cell::new_list(vec![sym("car"), quote(Cell::new_list(vec![sym(y), sym("zq-other")]))])
        }
        Route::ReS2S(y) => Cell::new_list(vec![
            sym("string->symbol"),
            Cell::new_list(vec![sym("symbol->string"), quote(sym(y))]),
        ]),
    })
}

/// a route that produces the symbol whose *name* is `s` (`enc` = what string->symbol spells it)
fn route_for_name(rng: &mut Rng, s: &str, enc: &str) -> Route {
    let literal_ok = reads_as_symbol(enc) && enc != "_" && enc != "...";
    loop {
        let r = match rng.below(8) {
            0 if literal_ok => Route::LitText(enc.to_string()),
            1 => Route::Quoted(enc.to_string()),
            2 => Route::S2S(s.to_string()),
            3 if enc != "_" && enc != "..." => Route::Macro(enc.to_string()),
            4 => Route::Eval(enc.to_string()),
            5 => Route::EvalS2S(s.to_string()),
            6 => Route::CarOfList(enc.to_string()),
            7 => Route::ReS2S(enc.to_string()),
            _ => continue,
        };
        return r;
    }
}

/// a route that produces the symbol with *spelling* `y`
fn route_for_spelling(rng: &mut Rng, y: &str) -> Route {
    let literal_ok = reads_as_symbol(y) && y != "_" && y != "...";
    loop {
        let r = match rng.below(5) {
            0 if literal_ok => Route::LitText(y.to_string()),
            1 => Route::Quoted(y.to_string()),
            2 if y != "_" && y != "..." => Route::Macro(y.to_string()),
            3 => Route::Eval(y.to_string()),
            4 => Route::CarOfList(y.to_string()),
            _ => continue,
        };
        return r;
    }
}

fn garbage_form(rng: &mut Rng) -> Cell {
    let n = 2 + rng.below(12);
    let t = format!(
        "(let loop ((i 0) (acc '())) (if (< i {}) (loop (+ i 1) (cons (string->symbol (string-append \"zq-g\" (number->string i))) (cons (vector i 'zq-junk \"s\") acc))) (length acc)))",
        n
    );
    parse::parse_text(&t).unwrap().0
}

fn encode_name(vm: &mut Vm, s: &str) -> String {
    match call1(vm, "string->symbol", Cell::String(s.to_string())) {
        Ok(Ok(Cell::Symbol(y))) => y,
        _ => s.to_string(),
    }
}

/// spellings interned in a VM that has evaluated nothing yet (builtins and prelude)
fn fresh_symbols() -> &'static std::collections::HashSet<String> {
    static FRESH: std::sync::OnceLock<std::collections::HashSet<String>> = std::sync::OnceLock::new();
    FRESH.get_or_init(|| Vm::new().verif_heap().verif_symbol_table().keys().cloned().collect())
}

/// one case of the interning exploration; None when a route could not be set up
fn sym_eq_case(rng: &mut Rng) -> Option<String> {
    let mut vm = Vm::new();
    // the pair of productions
    let mut force_lit = false;
    let (r1, r2) = match rng.below(10) {
        0 | 1 | 2 => {
            // one name, two routes
            let s = if rng.chance(1, 2) { gen_reader_symbol(rng) } else { gen_name(rng) };
            let enc = encode_name(&mut vm, &s);
            (route_for_name(rng, &s, &enc), route_for_name(rng, &s, &enc))
        }
        3 | 4 => {
            // two names
            let s1 = gen_name(rng);
            let s2 = if rng.chance(1, 3) {
                // a near miss: case, one more character, an escape spelled out
                match rng.below(4) {
                    0 => s1.to_uppercase(),
                    1 => format!("{}a", s1),
                    2 => s1.chars().map(|c| format!("\\x{:x};", c as u32)).collect(),
                    _ => format!(" {}", s1),
                }
            } else {
                gen_name(rng)
            };
            let e1 = encode_name(&mut vm, &s1);
            let e2 = encode_name(&mut vm, &s2);
            (route_for_name(rng, &s1, &e1), route_for_name(rng, &s2, &e2))
        }
        5 | 6 => {
            // one spelling, two routes
            let y = gen_reader_symbol(rng);
            (route_for_spelling(rng, &y), route_for_spelling(rng, &y))
        }
        7 => {
            // a reader spelling against string->symbol of its name
            let y = gen_reader_symbol(rng);
            let name = match call1(&mut vm, "symbol->string", quote(sym(&y))) {
                Ok(Ok(Cell::String(s))) => s,
                _ => return None,
            };
            let a = route_for_spelling(rng, &y);
            let b = if rng.chance(1, 2) { Route::S2S(name) } else { Route::EvalS2S(name) };
            if rng.chance(1, 2) {
                (a, b)
            } else {
                (b, a)
            }
        }
        8 => {
            // one name, string->symbol twice, the raw text interned as a spelling in between (`force_lit`): names
            // whose spelling differs from the text (not identifier-initial, or a backslash inside) and ordinary ones
            force_lit = true;
            let s = match rng.below(4) {
                0 => format!("{}{}", rng.pick(&["1", "+", "-", ".", "9", "#", "1+", "-x"]), gen_name(rng)),
                1 => format!("{}\\{}", gen_name(rng), gen_name(rng)),
                2 => rng.pick(&["1+", "-x", "+", "-", "...", "1", "x\\y", ".a"]).to_string(),
                _ => gen_name(rng),
            };
            let a = if rng.chance(1, 2) { Route::S2S(s.clone()) } else { Route::EvalS2S(s.clone()) };
            let b = if rng.chance(1, 2) { Route::S2S(s.clone()) } else { Route::EvalS2S(s) };
            (a, b)
        }
        _ => {
            let y1 = gen_reader_symbol(rng);
            let y2 = gen_reader_symbol(rng);
            (route_for_spelling(rng, &y1), route_for_spelling(rng, &y2))
        }
    };
    // schedule
    let every: Option<usize> = *rng.pick(&[None, None, None, Some(1), Some(2), Some(3), Some(5), Some(7), Some(16), Some(50)]);
    let shape = if force_lit { rng.below(2) } else { rng.below(4) }; // 0: across evaluations, 1: across with forced collections and garbage, 2: within one evaluation, 3: drop and re-intern
    let e1 = route_expr(&mut vm, &r1)?;
    let e2 = route_expr(&mut vm, &r2)?;
    vm.verif_set_gc_every(every);
    let collections_before = vm.verif_state().collections;
    let def = |name: &str, e: Cell| Cell::new_list(vec![sym("define"), sym(name), e]);
    let mut ok = true;
    let run = |vm: &mut Vm, f: &Cell| -> bool { matches!(eval_cell(vm, f), Ok(Ok(_))) };
    let (na, nb): (&str, &str);
    let mut extra_oracle: Option<String> = None;
    // between the two productions, a symbol whose SPELLING is the raw name of the first string->symbol route is
    // interned by another evaluation (as reading the literal would): string->symbol must not pick it up
    let interposed: Option<Cell> = match (&r1, shape) {
        (Route::S2S(n) | Route::EvalS2S(n), 0 | 1) if !n.is_empty() && (force_lit || rng.chance(1, 2)) => {
            Some(def("zq-i", quote(sym(n))))
        }
        _ => None,
    };
    match shape {
        0 => {
            ok &= run(&mut vm, &def("zq-a", e1));
            if let Some(f) = &interposed {
                run(&mut vm, f);
            }
            ok &= run(&mut vm, &def("zq-b", e2));
            na = "zq-a";
            nb = "zq-b";
        }
        1 => {
            ok &= run(&mut vm, &def("zq-a", e1));
            if let Some(f) = &interposed {
                run(&mut vm, f);
            }
            vm.verif_force_gc();
            ok &= run(&mut vm, &garbage_form(rng));
            vm.verif_force_gc();
            ok &= run(&mut vm, &def("zq-b", e2));
            vm.verif_force_gc();
            na = "zq-a";
            nb = "zq-b";
        }
        2 => {
            // (define zq-p (let* ((a e1) (j <garbage>) (b e2)) (cons a b)))
            let form = Cell::new_list(vec![
                sym("let*"),
                Cell::new_list(vec![
                    Cell::new_list(vec![sym("a"), e1]),
                    Cell::new_list(vec![sym("j"), garbage_form(rng)]),
                    Cell::new_list(vec![sym("b"), e2]),
                ]),
                Cell::new_list(vec![sym("cons"), sym("a"), sym("b")]),
            ]);
            ok &= run(&mut vm, &def("zq-p", form));
            ok &= run(&mut vm, &def("zq-a", Cell::new_list(vec![sym("car"), sym("zq-p")])));
            ok &= run(&mut vm, &def("zq-b", Cell::new_list(vec![sym("cdr"), sym("zq-p")])));
            na = "zq-a";
            nb = "zq-b";
        }
        _ => {
            // the first production is dropped and swept, then both are produced
            ok &= run(&mut vm, &def("zq-a", e1.clone()));
            let first = match eval_cell(&mut vm, &sym("zq-a")) {
                Ok(Ok(Cell::Symbol(s))) => Some(s),
                _ => None,
            };
            ok &= run(&mut vm, &def("zq-a", Cell::Number(Number::Fixnum(0))));
            vm.verif_force_gc();
            // the table entry of an otherwise unreferenced spelling is gone (a macro definition keeps
            // the spelling of its template alive, so only macro-free cases are checked, and only names
            // a fresh VM does not know)
            let no_macro = !matches!(r1, Route::Macro(_)) && !matches!(r2, Route::Macro(_));
            if let (Some(s), Route::S2S(_) | Route::EvalS2S(_), true) = (&first, &r1, no_macro) {
                if !fresh_symbols().contains(s) && !s.starts_with("zq-") {
                    let present = vm.verif_heap().verif_symbol_table().contains_key(s);
                    extra_oracle = Some(format!(
                        "#oracle swept-symbol-leaves-the-table {}\t{}\tabsent",
                        enc_text(s),
                        if present { "present" } else { "absent" }
                    ));
                }
            }
            ok &= run(&mut vm, &def("zq-b", e2));
            ok &= run(&mut vm, &def("zq-c", e1));
            vm.verif_force_gc();
            na = "zq-b";
            nb = "zq-c";
        }
    }
    if !ok {
        return None;
    }
    vm.verif_set_gc_every(None);
    let collections = vm.verif_state().collections - collections_before;
    let a = eval_cell(&mut vm, &sym(na));
    let b = eval_cell(&mut vm, &sym(nb));
    let (sa, sb) = match (&a, &b) {
        (Ok(Ok(Cell::Symbol(x))), Ok(Ok(Cell::Symbol(y)))) => (x.clone(), y.clone()),
        _ => return None,
    };
    let eq = eval_cell(&mut vm, &Cell::new_list(vec![sym("eq?"), sym(na), sym(nb)]));
    let eq = match eq {
        Ok(Ok(Cell::Bool(b))) => {
            if b {
                "b1"
            } else {
                "b0"
            }
        }
        Err(_) => "panic",
        _ => "err",
    };
    let s2s = |n: &str| Cell::new_list(vec![sym("symbol->string"), sym(n)]);
    let nameeq = eval_cell(&mut vm, &Cell::new_list(vec![sym("string=?"), s2s(na), s2s(nb)]));
    let nameeq = match nameeq {
        Ok(Ok(Cell::Bool(true))) => "b1",
        Ok(Ok(Cell::Bool(false))) => "b0",
        Err(_) => "panic",
        _ => "err",
    };
    let mode = match shape {
        3 => "drop",
        _ => {
            if collections > 0 {
                "keep"
            } else {
                "none"
            }
        }
    };
    let shape_name = if interposed.is_some() {
        ["across-lit", "across-forced-lit", "within", "drop"][shape as usize]
    } else {
        ["across", "across-forced", "within", "drop"][shape as usize]
    };
    let mut line = format!(
        "c18-eq {} {} {} {}+{}/{}/every-{}/gc{}\tok {} {}\tspec-c18-eq {} {}",
        mode,
        enc_text(&sa),
        enc_text(&sb),
        r1.name(),
        r2.name(),
        shape_name,
        every.map(|k| k.to_string()).unwrap_or_else(|| "none".into()),
        collections.min(9),
        eq,
        nameeq,
        enc_text(&sa),
        enc_text(&sb)
    );
    if let Some(o) = extra_oracle {
        line.push('\n');
        line.push_str(&o);
    }
    Some(line)
}

// ------------------------------------------------------------------ main

fn scalar_blocks(full: bool, rng: &mut Rng) -> Vec<Vec<char>> {
    // blocks of 16 consecutive scalar values; `full` = all of Unicode
    let mut starts: Vec<u32> = vec![];
    if full {
        starts.extend((0..0x110000u32).step_by(16));
    } else {
        starts.extend((0..0x3000u32).step_by(16));
        starts.extend([0xd7f0, 0xe000, 0xfff0, 0x10000, 0x1f600, 0x10fff0]);
        for _ in 0..600 {
            starts.push((rng.below(0x110000) as u32) & !15);
        }
    }
    starts
        .into_iter()
        .map(|s| (s..s + 16).filter_map(char::from_u32).collect::<Vec<char>>())
        .filter(|v| !v.is_empty())
        .collect()
}

fn main() {
    silence_panics();
    let args: Vec<String> = std::env::args().collect();
    let cmd = args.get(1).map(|s| s.as_str()).unwrap_or("");
    let seed: u64 = std::env::var("VERIF_SEED").ok().and_then(|s| s.parse().ok()).unwrap_or(1);
    let out = std::io::stdout();
    let mut out = std::io::BufWriter::new(out.lock());
    let n: usize = args.get(2).and_then(|s| s.parse().ok()).unwrap_or(0);
    match cmd {
        "c10-rt" | "c10-any" => {
            let mut rng = Rng::new(seed ^ if cmd == "c10-rt" { 0x1010 } else { 0x1011 });
            let kind = if cmd == "c10-rt" { Kind::ReadablePlus } else { Kind::Any };
            for _ in 0..n {
                let depth = pick_depth(&mut rng);
                let d = gen_datum(&mut rng, depth, kind);
                let mut o = Oracle::default();
                let imp = impl_roundtrip(&d, &mut o);
                let e = enc_datum(&d);
                if cmd == "c10-rt" {
                    writeln!(out, "c10-rt {} {}\t{}\tspec-c10-rt {}", o.render(), e, imp, e).unwrap();
                } else {
                    writeln!(out, "c10-rt {} {}\t{}", o.render(), e, imp).unwrap();
                }
            }
        }
        "c10-print" => {
            let mut rng = Rng::new(seed ^ 0x1012);
            for _ in 0..n {
                let depth = pick_depth(&mut rng);
                let d = gen_datum(&mut rng, depth, Kind::Any);
                let mut o = Oracle::default();
                o.add_print_cell(&d);
                let alt = rng.chance(1, 2);
                let d2 = d.clone();
                let t = catch(move || if alt { format!("{:#}", d2) } else { format!("{}", d2) });
                let imp = match t {
                    Ok(t) => format!("ok {}", enc_text(&t)),
                    Err(_) => "panic".into(),
                };
                writeln!(out, "print {} {} {}\t{}", o.render(), if alt { 1 } else { 0 }, enc_datum(&d), imp).unwrap();
            }
        }
        "c10-trip" => {
            let mut rng = Rng::new(seed ^ 0x1013);
            let mut vm = Vm::new();
            for _ in 0..n {
                let depth = pick_depth(&mut rng);
                let d = gen_datum(&mut rng, depth, Kind::Readable);
                let mut o = Oracle::default();
                let imp = impl_trip(&mut vm, &d, &mut o);
                let e = enc_datum(&d);
                writeln!(out, "c10-trip {} {}\t{}\tspec-c10-rt {}", o.render(), e, imp, e).unwrap();
            }
        }
        "c10-eval" => {
            let mut rng = Rng::new(seed ^ 0x1014);
            let mut vm = Vm::new();
            for i in 0..n {
                let depth = pick_depth(&mut rng);
                // every fourth datum may contain anything a Cell can hold (opaque values panic in put_cell)
                let kind = if i % 4 == 3 { Kind::Any } else { Kind::Readable };
                let d = gen_datum(&mut rng, depth, kind);
                let r = eval_cell(&mut vm, &quote(d.clone()));
                let e = enc_datum(&d);
                if kind == Kind::Readable {
                    writeln!(out, "c10-eval {}\t{}\tspec-id {}", e, show_eval(&r), e).unwrap();
                } else {
                    writeln!(out, "c10-eval {}\t{}", e, show_eval(&r)).unwrap();
                    if r.is_err() {
                        // a panic inside the VM may leave it unusable
                        vm = Vm::new();
                    }
                }
            }
        }
        "c10-chars" => {
            let mut rng = Rng::new(seed ^ 0x1015);
            let full = args.get(2).map(|s| s == "full").unwrap_or(false);
            for block in scalar_blocks(full, &mut rng) {
                // as characters: a vector of 16 character objects
                let d = Cell::Vector(block.iter().map(|c| Cell::Char(*c)).collect());
                let mut o = Oracle::default();
                let imp = impl_roundtrip(&d, &mut o);
                let e = enc_datum(&d);
                writeln!(out, "c10-rt {} {}\t{}\tspec-c10-rt {}", o.render(), e, imp, e).unwrap();
                // inside a string, and each alone in a dotted pair after a character
                let d = Cell::String(block.iter().collect());
                let imp = impl_roundtrip(&d, &mut o);
                let e = enc_datum(&d);
                writeln!(out, "c10-rt {} {}\t{}\tspec-c10-rt {}", o.render(), e, imp, e).unwrap();
                let c = block[rng.below(block.len() as u64) as usize];
                let d = Cell::new_pair(Cell::Char(c), Cell::Char(c));
                let imp = impl_roundtrip(&d, &mut o);
                let e = enc_datum(&d);
                writeln!(out, "c10-rt {} {}\t{}\tspec-c10-rt {}", o.render(), e, imp, e).unwrap();
            }
        }
        "sym-enc" => {
            let mut rng = Rng::new(seed ^ 0x1801);
            let mut vm = Vm::new();
            for _ in 0..n {
                let s = gen_name(&mut rng);
                let r = call1(&mut vm, "string->symbol", Cell::String(s.clone()));
                writeln!(out, "sym-enc {}\t{}", enc_text(&s), show_text_result(&r)).unwrap();
            }
        }
        "sym-dec" => {
            let mut rng = Rng::new(seed ^ 0x1802);
            let mut vm = Vm::new();
            for _ in 0..n {
                let y = gen_spelling(&mut vm, &mut rng);
                let r = call1(&mut vm, "symbol->string", quote(sym(&y)));
                writeln!(out, "sym-dec {}\t{}", enc_text(&y), show_text_result(&r)).unwrap();
            }
        }
        "sym-rt" => {
            let mut rng = Rng::new(seed ^ 0x1803);
            let mut vm = Vm::new();
            for _ in 0..n {
                let s = gen_name(&mut rng);
                let form = Cell::new_list(vec![
                    sym("symbol->string"),
                    Cell::new_list(vec![sym("string->symbol"), Cell::String(s.clone())]),
                ]);
                let r = eval_cell(&mut vm, &form);
                let e = enc_text(&s);
                writeln!(out, "sym-rt {}\t{}\tspec-text {}", e, show_text_result(&r), e).unwrap();
            }
        }
        "sym-rt2" => {
            let mut rng = Rng::new(seed ^ 0x1804);
            let mut vm = Vm::new();
            for _ in 0..n {
                let y = match rng.below(3) {
                    0 => {
                        let s = gen_name(&mut rng);
                        encode_name(&mut vm, &s)
                    }
                    _ => gen_reader_symbol(&mut rng),
                };
                let form = Cell::new_list(vec![
                    sym("eq?"),
                    quote(sym(&y)),
                    Cell::new_list(vec![
                        sym("string->symbol"),
                        Cell::new_list(vec![sym("symbol->string"), quote(sym(&y))]),
                    ]),
                ]);
                let r = eval_cell(&mut vm, &form);
                writeln!(out, "sym-rt2 {}\t{}\tspec-c18-true", enc_text(&y), show_eval(&r)).unwrap();
            }
        }
        "sym-chars" => {
            let mut rng = Rng::new(seed ^ 0x1805);
            let full = args.get(2).map(|s| s == "full").unwrap_or(false);
            let mut vm = Vm::new();
            for block in scalar_blocks(full, &mut rng) {
                // the block as one string (first character in initial position), the block after `a`,
                // and every 4th character alone (initial position)
                let mut strings: Vec<String> = vec![block.iter().collect(), format!("a{}", block.iter().collect::<String>())];
                for (i, c) in block.iter().enumerate() {
                    if full && i % 4 != (block[0] as usize / 16) % 4 {
                        continue;
                    }
                    strings.push(c.to_string());
                }
                for s in strings {
                    let form = Cell::new_list(vec![
                        sym("symbol->string"),
                        Cell::new_list(vec![sym("string->symbol"), Cell::String(s.clone())]),
                    ]);
                    let r = eval_cell(&mut vm, &form);
                    let e = enc_text(&s);
                    writeln!(out, "sym-rt {}\t{}\tspec-text {}", e, show_text_result(&r), e).unwrap();
                    let r = call1(&mut vm, "string->symbol", Cell::String(s.clone()));
                    writeln!(out, "sym-enc {}\t{}", e, show_text_result(&r)).unwrap();
                }
            }
        }
        "sym-eq" => {
            let mut rng = Rng::new(seed ^ 0x1806);
            let mut done = 0;
            let mut tries = 0;
            while done < n && tries < 4 * n + 100 {
                tries += 1;
                let mut r2 = Rng::new(rng.next());
                let res = catch(AssertUnwindSafe(move || sym_eq_case(&mut r2)));
                match res {
                    Ok(Some(line)) => {
                        writeln!(out, "{}", line).unwrap();
                        done += 1;
                    }
                    Ok(None) => {}
                    Err(m) => {
                        writeln!(out, "c18-eq panic - - -\tpanic {}\tspec-c18-eq - -", m.replace(['\n', '\t'], " ")).unwrap();
                        done += 1;
                    }
                }
            }
        }
        // corpus: one datum per line as source text (read by the real reader); `;` lines are comments
        "c10-corpus" => {
            let text = std::fs::read_to_string(&args[2]).expect("corpus file");
            let mut vm = Vm::new();
            for line in text.lines() {
                let line = line.trim_end();
                if line.is_empty() || line.starts_with(';') {
                    continue;
                }
                let d = match parse::parse_text(line) {
                    Ok((d, None)) => d,
                    _ => {
                        // every corpus line is a datum in its WRITTEN form: a line the reader no longer accepts
                        // is a failing input of the property, not a harness failure
                        writeln!(
                            out,
                            "#oracle corpus-line-reads {}\tunreadable\tone-datum",
                            line.replace('\t', " ")
                        )
                        .unwrap();
                        continue;
                    }
                };
                let e = enc_datum(&d);
                let mut o = Oracle::default();
                let imp = impl_roundtrip(&d, &mut o);
                writeln!(out, "c10-rt {} {}\t{}\tspec-c10-rt {}", o.render(), e, imp, e).unwrap();
                let mut o = Oracle::default();
                let imp = impl_trip(&mut vm, &d, &mut o);
                writeln!(out, "c10-trip {} {}\t{}\tspec-c10-rt {}", o.render(), e, imp, e).unwrap();
                let r = eval_cell(&mut vm, &quote(d.clone()));
                writeln!(out, "c10-eval {}\t{}\tspec-id {}", e, show_eval(&r), e).unwrap();
            }
        }
        // corpus: `<enc|dec|rt|rt2> <raw text to the end of the line>`
        "sym-corpus" => {
            let text = std::fs::read_to_string(&args[2]).expect("corpus file");
            let mut vm = Vm::new();
            for line in text.lines() {
                if line.is_empty() || line.starts_with(';') {
                    continue;
                }
                let (op, arg) = match line.split_once(' ') {
                    Some((a, b)) => (a, b.to_string()),
                    None => (line, String::new()),
                };
                let e = enc_text(&arg);
                let s2s = |x: Cell| Cell::new_list(vec![sym("string->symbol"), x]);
                let y2s = |x: Cell| Cell::new_list(vec![sym("symbol->string"), x]);
                match op {
                    "enc" => {
                        let r = eval_cell(&mut vm, &s2s(Cell::String(arg.clone())));
                        writeln!(out, "sym-enc {}\t{}", e, show_text_result(&r)).unwrap();
                    }
                    "dec" => {
                        let r = eval_cell(&mut vm, &y2s(quote(sym(&arg))));
                        writeln!(out, "sym-dec {}\t{}", e, show_text_result(&r)).unwrap();
                    }
                    "rt" => {
                        let r = eval_cell(&mut vm, &y2s(s2s(Cell::String(arg.clone()))));
                        writeln!(out, "sym-rt {}\t{}\tspec-text {}", e, show_text_result(&r), e).unwrap();
                    }
                    "rt2" => {
                        let form = Cell::new_list(vec![sym("eq?"), quote(sym(&arg)), s2s(y2s(quote(sym(&arg))))]);
                        let r = eval_cell(&mut vm, &form);
                        writeln!(out, "sym-rt2 {}\t{}\tspec-c18-true", e, show_eval(&r)).unwrap();
                    }
                    _ => {
                        eprintln!("bad corpus line: {}", line);
                        std::process::exit(3);
                    }
                }
            }
        }
        // the hypotheses FloatText / FloatLex about Rust's float formatting, on sampled finite doubles
        "c10-floattext" => {
            let mut rng = Rng::new(seed ^ 0x1016);
            let mut done = 0;
            while done < n {
                let z = rn::random_number(&mut rng);
                let f = match z {
                    Number::Float(f) if f.is_finite() => f,
                    _ => continue,
                };
                done += 1;
                let t = format!("{}", Number::Float(f));
                let mut cs = t.chars();
                let first = cs.next().unwrap_or(' ');
                let sub = |c: char| c.is_ascii_hexdigit() || c == '.' || c == '/';
                let shape = (first == '-' || first.is_ascii_digit()) && t.chars().skip(1).all(sub) && t.len() > (first == '-') as usize;
                let mark = (t.contains('.') || t.contains('e')) && !t.contains('/');
                let back = t.parse::<f64>().map(|g| g.to_bits() == f.to_bits()).unwrap_or(false);
                let verdict = if !shape {
                    "shape"
                } else if !mark {
                    "mark"
                } else if !back {
                    "parse"
                } else {
                    "ok"
                };
                writeln!(out, "#oracle float-text-hypotheses {:016x}\t{}\tok", f.to_bits(), verdict).unwrap();
            }
        }
        "probe" => {
            let mut vm = Vm::new();
            for t in &args[2..] {
                let t2 = t.clone();
                let mut vmref = AssertUnwindSafe(&mut vm);
                let r = catch(move || vmref.eval_text(&t2).map(|(c, _)| c));
                match r {
                    Err(m) => println!("{} => panic {}", t, m),
                    Ok(Ok(c)) => println!("{} => {:#}   [{}]", t, c, enc_datum(&c)),
                    Ok(Err(e)) => println!("{} => err {:?}", t, e),
                }
            }
        }
        _ => {
            eprintln!("usage: print c10-rt|c10-trip|c10-eval|c10-any|c10-print N | c10-chars full|quick | sym-enc|sym-dec|sym-rt|sym-rt2|sym-eq N | sym-chars full|quick | probe <text>…");
            std::process::exit(2);
        }
    }
    let _ = lex::scan("");
}
