//! Correspondence generators of the PRINT area (C10, C18). Scratch probe version.
use marwood::cell::Cell;
use marwood::vm::Vm;
use mwv::wire::*;

fn main() {
    silence_panics();
    let args: Vec<String> = std::env::args().collect();
    let cmd = args.get(1).map(|s| s.as_str()).unwrap_or("");
    match cmd {
        "probe" => {
            let mut vm = Vm::new();
            for t in &args[2..] {
                let t2 = t.clone();
                let mut vmref = std::panic::AssertUnwindSafe(&mut vm);
                let r = catch(move || vmref.eval_text(&t2).map(|(c, _)| c));
                match r {
                    Err(m) => println!("{} => panic {}", t, m),
                    Ok(Ok(c)) => println!("{} => {:#}   [{}]", t, c, enc_datum(&c)),
                    Ok(Err(e)) => println!("{} => err {:?}", t, e),
                }
            }
            let _ = Cell::Nil;
        }
        _ => {
            eprintln!("usage: print probe <text>…");
            std::process::exit(2);
        }
    }
}
