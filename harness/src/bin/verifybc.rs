//! Translation validation of the stack discipline of compiled code (C04 / C05 / C07).
//!
//! `verifybc lambdas N`: run generated and hand-written sessions in the real VM, single-stepping
//! with the `verif_step` hook; then
//!   * dump EVERY `Lambda` object found in the real heap (prelude procedures, lambda bodies,
//!     top-level and entry lambdas, `eval`-compiled code) as `vbc <cells>` — the Lean bytecode
//!     verifier must accept it (`ok <kind> <max temporaries>`); the implementation column carries
//!     the kind and the highest number of temporaries observed while stepping that code;
//!   * for every (code object, offset) an instruction was executed at, `vat <cells> <offset>` with
//!     the observed number of temporaries of the current frame (`sp - (bp + 4)`; `sp - entry sp`
//!     for entry code; below the argument block at CALL/TCALL; `pre` at VARARG/ENTER) — the
//!     verifier's abstract stack at that offset must have exactly that height.
use marwood::vm::environment::BindingSource;
use marwood::vm::opcode::OpCode;
use marwood::vm::vcell::VCell;
use marwood::vm::Vm;
use mwv::progs::*;
use mwv::session::*;
use mwv::wire::silence_panics;
use std::collections::{BTreeMap, BTreeSet};
use std::io::Write;

fn seed() -> u64 {
    std::env::var("VERIF_SEED").ok().and_then(|s| s.parse().ok()).unwrap_or(1)
}

fn code_string(bc: &[VCell]) -> String {
    if bc.is_empty() {
        return "-".into();
    }
    bc.iter().map(mwv::trace::cell).collect::<Vec<_>>().join(",")
}

fn is_entry_code(bc: &[VCell]) -> bool {
    !matches!(bc.first(), Some(VCell::OpCode(OpCode::Enter)) | Some(VCell::OpCode(OpCode::VarArg)))
}

#[derive(Default)]
struct Obs {
    /// code string -> offset -> observed heights ("pre" or a number)
    at: BTreeMap<String, BTreeMap<usize, BTreeSet<String>>>,
    /// code string -> highest observed number of temporaries
    max: BTreeMap<String, usize>,
    steps: u64,
    undecodable: u64,
    /// CALL / TCALL / ENTER steps executed, and those at which `acc` designated a closure whose lambda is not a
    /// lambda cell holding procedure code, or a bare lambda that is entry code (`CalleeOk` of
    /// lean/Marwood/Lemmas/ConcreteLawsOps.lean must hold at every one of them)
    callee_sites: u64,
    callee_bad: u64,
}

/// observe the state before one instruction
fn observe(vm: &Vm, entry_sp: usize, obs: &mut Obs) {
    let (_acc, _ep, ip, bp) = vm.verif_regs();
    let cells = vm.verif_heap().verif_cells();
    let lam = match cells.get(ip.0) {
        Some(VCell::Lambda(l)) => l.clone(),
        _ => {
            obs.undecodable += 1;
            return;
        }
    };
    let op = match lam.bc.get(ip.1) {
        Some(VCell::OpCode(op)) => op.clone(),
        _ => {
            obs.undecodable += 1;
            return;
        }
    };
    if matches!(op, OpCode::CallAcc | OpCode::TCallAcc | OpCode::Enter) {
        obs.callee_sites += 1;
        let acc = _acc.clone();
        let target = match &acc {
            VCell::Ptr(p) => cells.get(*p).cloned(),
            other => Some(other.clone()),
        };
        let proc_at = |l: usize| matches!(cells.get(l), Some(VCell::Lambda(lm)) if !is_entry_code(&lm.bc));
        let ok = match target {
            Some(VCell::Closure(l, _)) => proc_at(l),
            Some(VCell::Lambda(_)) => match &acc {
                VCell::Ptr(p) => proc_at(*p),
                _ => false,
            },
            _ => true,
        };
        if !ok {
            obs.callee_bad += 1;
        }
    }
    let st = vm.verif_stack();
    let sp = st.get_sp();
    let key = code_string(&lam.bc);
    let h: String = if matches!(op, OpCode::Enter | OpCode::VarArg) {
        "pre".into()
    } else {
        let base = if is_entry_code(&lam.bc) { entry_sp as i64 } else { bp as i64 + 4 };
        let mut h = sp as i64 - base;
        if matches!(op, OpCode::CallAcc | OpCode::TCallAcc) {
            match st.verif_slots().get(sp) {
                Some(VCell::ArgumentCount(m)) => h -= *m as i64 + 1,
                _ => h = -1000, // top of stack is not an argument count: can never match the verifier
            }
        }
        if h >= 0 {
            let e = obs.max.entry(key.clone()).or_insert(0);
            *e = (*e).max(h as usize);
        }
        h.to_string()
    };
    obs.at.entry(key).or_default().entry(ip.1).or_default().insert(h);
    obs.steps += 1;
}

/// run one form by single-stepping; a failed form is followed by a failing `eval` through the real
/// `run_count`, whose error epilogue resets the registers exactly as after a real failure
fn step_form(vm: &mut Vm, text: &str, budget: usize, obs: &mut Obs) {
    let cell = match marwood::parse::parse_text(text) {
        Ok((c, _)) => c,
        Err(_) => return,
    };
    if vm.prepare_eval(&cell).is_err() {
        return;
    }
    let entry_sp = vm.verif_stack().get_sp();
    let mut n = 0;
    loop {
        n += 1;
        if n > budget {
            let _ = eval_form(vm, "(car 1)");
            return;
        }
        observe(vm, entry_sp, obs);
        match vm.verif_step() {
            Ok(true) => return,
            Ok(false) => {}
            Err(_) => {
                let _ = eval_form(vm, "(car 1)");
                return;
            }
        }
    }
}

/// hand-written sessions: every derived form, variadics, eval, call/cc, apply, quasiquote, macros
fn fixed_sessions() -> Vec<Vec<&'static str>> {
    vec![
        vec![
            "(define (v . r) r)", "(v)", "(v 1)", "(v 1 2 3)", "(define (w a b . r) (list a b r))",
            "(w 1 2)", "(w 1 2 3)", "(w 1 2 3 4 5)", "(w 1)", "((lambda x x) 1 2)", "((lambda x x))",
            "(apply v (list 1 2 3))", "(apply w 1 2 (list 3 4))", "(apply v 1 2 3 4 5 6 (list 7 8 9 10 11 12))",
            "(define (lp n . acc) (if (= n 0) acc (apply lp (- n 1) n acc)))", "(lp 6)",
        ],
        vec![
            "(eval '(+ 1 2))", "(eval '(let loop ((i 0)) (if (< i 3) (loop (+ i 1)) i)))",
            "(eval (list 'eval ''(* 2 3)))", "(define (ev x) (eval x))", "(ev '((lambda (a . b) (cons a b)) 1 2 3))",
            "(+ 1 (eval '(if #t (car (list 5)) 0)))", "(eval '(define evd 7))", "evd",
            "(eval '`(1 ,(+ 1 1) #(3 ,evd)))", "(apply eval (list ''x))", "(eval 5)",
        ],
        vec![
            "(define kk #f)", "(+ 1 (call/cc (lambda (k) (set! kk k) 1)))", "(kk 5)", "(kk 6)",
            "(call/cc (lambda (k) (k 1 2 3)))", "(call-with-current-continuation (lambda (k) 7))",
            "(define (f k) (k 9))", "(* 2 (call/cc f))", "(list 1 (call/cc (lambda (k) (list (k 2) 3))) 4)",
            "(apply call/cc (list (lambda (k) (+ 100 (k 3)))))", "(call/cc (lambda (k) (apply k (list 4))))",
            "(define (gen) (call/cc (lambda (ret) (for-each (lambda (x) (call/cc (lambda (next) (set! kk next) (ret x)))) (list 1 2 3)) 'done)))",
            "(gen)", "(call/cc call/cc)", "(call/cc (lambda (k) (map (lambda (x) (if (= x 2) (k x) x)) (list 1 2 3))))",
        ],
        vec![
            "(define (f a) (+ a 1))", "(define (g a b) (* a b))", "(define (h . xs) (length xs))",
            "(f (g (h 1 (f 2 ) (g 3 (f 4))) ((lambda () (f (f (f 5)))))))",
            "((if (f 0) f g) (f (f 1)))", "(((lambda (x) (lambda (y) (+ x y))) 1) 2)", "((f 1) 2)",
            "(g (g (g (g 1 2) (g 3 4)) (g (g 5 6) (g 7 8))) (g (g (g 1 2) (g 3 4)) (g (g 5 6) (g 7 8))))",
            "(list (list (list (list 1))) (vector 1 (list 2 (vector 3))))", "(car (cdr (car (cdr (list 1 (list 2 3))))))",
        ],
        vec![
            "(let ((a 1) (b 2)) (+ a b))", "(let* ((a 1) (b (+ a 1))) (* a b))", "(letrec ((ev? (lambda (n) (if (= n 0) #t (od? (- n 1))))) (od? (lambda (n) (if (= n 0) #f (ev? (- n 1)))))) (ev? 10))",
            "(letrec* ((a 1) (b (+ a 1))) b)", "(let loop ((i 0) (acc '())) (if (< i 5) (loop (+ i 1) (cons i acc)) acc))",
            "(cond ((= 1 2) 'a) ((= 1 1) 'b) (else 'c))", "(cond ((assv 2 '((1 . a) (2 . b))) => cdr) (else 'no))", "(cond (#f 1))",
            "(case (+ 1 1) ((1) 'one) ((2 3) 'two) (else 'many))", "(case 9 ((1) 'one) (else 'many))",
            "(and 1 2 (or #f 3))", "(and)", "(or)", "(or #f #f)", "(when (= 1 1) 'a 'b)", "(unless (= 1 2) 'a 'b)", "(when #f 1)",
            "(begin 1 2 3)", "(define p (delay (+ 1 2)))", "(force p)", "(force p)", "(force (delay-force (delay 4)))",
            "(define (tl n) (cond ((= n 0) 'done) (else (and #t (or #f (when #t (unless #f (let () (let* () (letrec () (begin (tl (- n 1)))))))))))))", "(tl 20)",
        ],
        vec![
            "(define x 5)", "`(1 ,x ,(+ x 1))", "`#(1 ,x #(2 ,x))", "`(a (b ,(car (list x))) . c)", "`(1 `(2 ,(3 ,x)))", "`,x", "`()", "`(,(if x `(,x) 0) . ,x)",
            "(define (q a) `(,a ,@'() ))", "`(1 ,(call/cc (lambda (k) (k 2))) 3)", "(list `(,x) `#(,x ,x ,x))", "`((,x . ,x) #(,(list x `(,x))))",
        ],
        vec![
            "(define-syntax swap! (syntax-rules () ((_ a b) (let ((tmp a)) (set! a b) (set! b tmp)))))",
            "(define s1 1)", "(define s2 2)", "(swap! s1 s2)", "(list s1 s2)",
            "(define-syntax my-or (syntax-rules () ((_) #f) ((_ e) e) ((_ e r ...) (let ((t e)) (if t t (my-or r ...))))))", "(my-or #f #f 3)",
            "(define-syntax while (syntax-rules () ((_ c body ...) (let lp () (when c body ... (lp))))))", "(define i 0)", "(while (< i 5) (set! i (+ i 1)))", "i",
        ],
        vec![
            "(map (lambda (x) (* x x)) (list 1 2 3))", "(map + (list 1 2) (list 10 20))", "(for-each (lambda (x y) (display (+ x y))) (list 1 2) (list 3 4))",
            "(length (list 1 2 3))", "(memq 'c '(a b c d))", "(member (list 1) '((0) (1) (2)))", "(assq 'b '((a 1) (b 2)))", "(assoc 2.0 '((1 a) (2 b)))",
            "(any? odd? (list 2 4 5))", "(caar '((1) 2))", "(cddr '(1 2 3))", "(substring \"hello\" 1 3)", "(add1 (sub1 5))", "(atom? 1)",
            "(define (count-to n) (let loop ((i 0)) (if (< i n) (loop (+ i 1)) i)))", "(count-to 100)",
            "(define (fib n) (if (< n 2) n (+ (fib (- n 1)) (fib (- n 2)))))", "(fib 10)",
            "(define (inner-defs a) (define b (+ a 1)) (define (c) (* b 2)) (c))", "(inner-defs 3)",
            "(define (mk) (let ((n 0)) (lambda () (set! n (+ n 1)) n)))", "(define c1 (mk))", "(c1)", "(c1)",
        ],
        vec![
            // failures at depth, then more work in the same VM
            "(define (deep n) (if (= n 0) (car 1) (+ 1 (deep (- n 1)))))", "(deep 5)", "(deep 0)", "(+ 1 2)", "(undefined-var)", "((lambda (a) a))", "(1 2)",
            "(error \"boom\" 1 2)", "(vector-ref (vector 1) 5)", "(apply + 1)", "(call/cc 5)", "(eval '(car))", "(let ((a (car '()))) a)", "(+ 1 2)",
        ],
    ]
}

fn main() {
    silence_panics();
    let args: Vec<String> = std::env::args().collect();
    let cmd = args.get(1).map(|s| s.as_str()).unwrap_or("");
    let out = std::io::stdout();
    let mut out = std::io::BufWriter::new(out.lock());
    match cmd {
        "lambdas" => {
            let n: usize = args[2].parse().unwrap();
            let mut g = Gen::new(seed() ^ 0xbc0de);
            let mut obs = Obs::default();
            // every distinct code object found in any heap: code string -> (top_level, argc, vararg)
            let mut found: BTreeMap<String, (bool, usize, bool, bool)> = BTreeMap::new();
            let mut sessions: Vec<Vec<String>> = fixed_sessions()
                .into_iter()
                .map(|s| s.into_iter().map(|f| f.to_string()).collect())
                .collect();
            for case in 0..n {
                let mut forms: Vec<String> =
                    g.session(2 + (case % 6), 1 + case % 4).iter().map(|f| f.render()).collect();
                if case % 4 == 3 {
                    let sc = Scope::default();
                    let (e, _) = g.failing_expr(&sc);
                    forms.push(e.render());
                    forms.push("(+ 1 2)".into());
                }
                sessions.push(forms);
            }
            let mut heaps = 0usize;
            for forms in &sessions {
                let (mut vm, _log) = new_vm();
                for f in forms {
                    step_form(&mut vm, f, 30000, &mut obs);
                }
                heaps += 1;
                for c in vm.verif_heap().verif_cells() {
                    if let VCell::Lambda(l) = c {
                        let iof = l.envmap.get_map().iter().any(|(_, src)| matches!(src, BindingSource::IofArgument(_)));
                        let e = found.entry(code_string(&l.bc)).or_insert((l.top_level, l.args.len(), l.is_vararg, iof));
                        e.3 = e.3 || iof;
                    }
                }
            }
            let mut maxh = 0usize;
            for (code, (top, argc, va, iof)) in &found {
                let bc_first_entry = !(code.starts_with("openter") || code.starts_with("opvarArg"));
                let kind = if bc_first_entry { "entry" } else { "proc" };
                // static shape facts of the real object: a variadic lambda starts with VARARG, and only then
                let starts_vararg = code.starts_with("opvarArg");
                let shape_ok = starts_vararg == *va;
                let seen = obs.max.get(code).map(|m| m.to_string()).unwrap_or_else(|| "-".into());
                if let Some(m) = obs.max.get(code) {
                    maxh = maxh.max(*m);
                }
                writeln!(out, "vbc {}\tok {} {} top={} argc={} va={} shape={} iof={}", code, kind, seen, *top as u8, argc, *va as u8, shape_ok as u8, *iof as u8).unwrap();
            }
            let mut nat = 0usize;
            for (code, offs) in &obs.at {
                for (o, hs) in offs {
                    for h in hs {
                        writeln!(out, "vat {} {}\tok {}", code, o, h).unwrap();
                        nat += 1;
                    }
                }
            }
            // implementation-side oracle: at every executed CALL / TCALL / ENTER the callee was `CalleeOk`
            writeln!(out, "#oracle callee-ok-at-{}-call-sites\t{}\t0", obs.callee_sites, obs.callee_bad).unwrap();
            eprintln!(
                "sessions: {} heaps: {} distinct code objects: {} observed (code,offset,height) triples: {} steps: {} undecodable: {} max observed temporaries: {}",
                sessions.len(), heaps, found.len(), nat, obs.steps, obs.undecodable, maxh
            );
        }
        _ => {
            eprintln!("usage: verifybc lambdas N");
            std::process::exit(2);
        }
    }
}
