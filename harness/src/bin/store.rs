//! Correspondence generators for C14 (lists, vectors, identity) and C15 (strings, characters).
//!
//! `store c14 <n>` / `store c15 <n>` print `n` random operation sequences, one per line:
//! `request \t impl-response \t spec-request`. A sequence is generated *while* it is executed in a
//! real `Vm` (so that argument choice can look at the current objects: lengths for index ranges,
//! reachability to avoid building circular structure, which is outside both properties).
//! Operation `k` is the Scheme form `(define p<k> (proc arg ...))`, evaluated with `eval_text`;
//! after every operation all pool variables are read back from the global environment and the heap
//! and rendered as one graph with sharing labels (identity of a pair = its heap index, of a
//! vector/string = its `Rc`), exactly as `lean/Driver/Store.lean` renders the model store.
//! `store replay <c14|c15> <op>...` re-executes a given sequence.
use marwood::number::Number;
use marwood::vm::vcell::VCell;
use marwood::vm::Vm;
use mwv::rng::Rng;
use mwv::wire::*;
use std::collections::HashMap;
use std::io::Write;
use std::panic::AssertUnwindSafe;
use std::rc::Rc;

// ---------------------------------------------------------------------------------- ops

#[derive(Clone, Debug, PartialEq)]
enum Arg {
    Pool(usize),
    Int(String),
    Sym(String),
    True,
    False,
    Nil,
    Char(u32),
    Builtin(String),
}

impl Arg {
    fn token(&self) -> String {
        match self {
            Arg::Pool(k) => format!("p{}", k),
            Arg::Int(s) => format!("i{}", s),
            Arg::Sym(s) => format!("y{}", enc_text(s)),
            Arg::True => "t".into(),
            Arg::False => "f".into(),
            Arg::Nil => "n".into(),
            Arg::Char(c) => format!("c{}", c),
            Arg::Builtin(n) => format!("b{}", n),
        }
    }
    fn scheme(&self) -> String {
        match self {
            Arg::Pool(k) => format!("p{}", k),
            Arg::Int(s) => s.clone(),
            Arg::Sym(s) => format!("'{}", s),
            Arg::True => "#t".into(),
            Arg::False => "#f".into(),
            Arg::Nil => "'()".into(),
            Arg::Char(c) => format!("#\\x{:x}", c),
            Arg::Builtin(n) => n.clone(),
        }
    }
    fn parse(w: &str) -> Option<Arg> {
        let rest = &w[1.min(w.len())..];
        Some(match w.chars().next()? {
            'p' => Arg::Pool(rest.parse().ok()?),
            'i' => Arg::Int(rest.to_string()),
            'y' => Arg::Sym(dec_text(rest)?),
            't' => Arg::True,
            'f' => Arg::False,
            'n' => Arg::Nil,
            'c' => Arg::Char(rest.parse().ok()?),
            'b' => Arg::Builtin(rest.to_string()),
            _ => return None,
        })
    }
}

#[derive(Clone, Debug)]
struct Op {
    name: String,
    args: Vec<Arg>,
}

impl Op {
    fn token(&self) -> String {
        let mut s = self.name.clone();
        for a in &self.args {
            s.push(',');
            s.push_str(&a.token());
        }
        s
    }
    fn scheme(&self, k: usize) -> String {
        let mut s = format!("(define p{} ({}", k, self.name);
        for a in &self.args {
            s.push(' ');
            s.push_str(&a.scheme());
        }
        s.push_str("))");
        s
    }
    fn parse(w: &str) -> Option<Op> {
        let mut it = w.split(',');
        let name = it.next()?.to_string();
        let args = it.map(Arg::parse).collect::<Option<Vec<_>>>()?;
        Some(Op { name, args })
    }
}

// ---------------------------------------------------------------------------------- session

struct Sess {
    vm: Vm,
    /// defined[k] = operation k bound p<k>
    defined: Vec<bool>,
    /// global-environment slot of p<k> (stable once the variable exists)
    slots: std::cell::RefCell<HashMap<usize, usize>>,
}

fn global_slot(vm: &Vm, name: &str) -> Option<usize> {
    let sym = *vm.verif_heap().verif_symbol_table().get(name)?;
    Some(
        vm.verif_globenv()
            .verif_bindings()
            .into_iter()
            .find(|(s, _)| *s == sym)?
            .1,
    )
}

#[derive(Clone, Copy, PartialEq, Eq, Hash, Debug)]
enum Key {
    Pair(usize),
    Vec(usize),
    Str(usize),
}

struct Render {
    seen: HashMap<Key, usize>,
    next: usize,
    out: String,
}

fn deref<'a>(vm: &'a Vm, v: &'a VCell) -> &'a VCell {
    match v {
        VCell::Ptr(p) => &vm.verif_heap().verif_cells()[*p],
        v => v,
    }
}

impl Render {
    fn label(&mut self, key: Option<Key>) -> (usize, bool) {
        if let Some(k) = key {
            if let Some(l) = self.seen.get(&k) {
                return (*l, false);
            }
            self.seen.insert(k, self.next);
        }
        self.next += 1;
        (self.next - 1, true)
    }

    fn value(&mut self, vm: &Vm, v: &VCell) {
        let key = match v {
            VCell::Ptr(p) => Some(*p),
            _ => None,
        };
        let cell = deref(vm, v).clone();
        match &cell {
            VCell::Bool(true) => self.out.push('t'),
            VCell::Bool(false) => self.out.push('f'),
            VCell::Char(c) => self.out.push_str(&format!("c{}", *c as u32)),
            VCell::Nil => self.out.push('n'),
            VCell::Number(Number::Fixnum(n)) => self.out.push_str(&format!("i{}", n)),
            VCell::Number(Number::BigInt(n)) => self.out.push_str(&format!("i{}", n)),
            VCell::Number(n) => self.out.push_str(&format!("x{}", enc_num(n))),
            VCell::Symbol(s) => self.out.push_str(&format!("y{}", enc_text(s))),
            VCell::Void => self.out.push('v'),
            VCell::Undefined => self.out.push('u'),
            VCell::BuiltInProc(p) => self.out.push_str(&format!("b{}", p.desc())),
            VCell::Pair(a, d) => {
                // a pair reached through a pointer is identified by its cell; a pair *value*
                // stored somewhere without a cell has no identity
                let (l, fresh) = self.label(key.map(Key::Pair));
                if fresh {
                    self.out.push_str(&format!("(#{} ", l));
                    self.value(vm, &VCell::Ptr(*a));
                    self.out.push(' ');
                    self.value(vm, &VCell::Ptr(*d));
                    self.out.push(')');
                } else {
                    self.out.push_str(&format!("#{}", l));
                }
            }
            VCell::Vector(rc) => {
                let (l, fresh) = self.label(Some(Key::Vec(Rc::as_ptr(rc) as usize)));
                if fresh {
                    self.out.push_str(&format!("[#{}", l));
                    for i in 0..rc.len() {
                        self.out.push(' ');
                        let x = rc.get(i).unwrap();
                        self.value(vm, &x);
                    }
                    self.out.push(']');
                } else {
                    self.out.push_str(&format!("#{}", l));
                }
            }
            VCell::String(rc) => {
                let (l, fresh) = self.label(Some(Key::Str(Rc::as_ptr(rc) as usize)));
                if fresh {
                    self.out
                        .push_str(&format!("{{#{} {}}}", l, enc_text(&rc.borrow())));
                } else {
                    self.out.push_str(&format!("#{}", l));
                }
            }
            other => self.out.push_str(&format!("?{}", other.type_text())),
        }
    }
}

impl Sess {
    fn new() -> Sess {
        Sess {
            vm: Vm::new(),
            defined: vec![],
            slots: Default::default(),
        }
    }

    /// start a new sequence in the same VM (pool variables are simply redefined)
    fn reset(&mut self) {
        self.defined.clear();
    }

    fn slot(&self, k: usize) -> Option<VCell> {
        if *self.defined.get(k)? {
            let cached = self.slots.borrow().get(&k).copied();
            let slot = match cached {
                Some(s) => s,
                None => {
                    let s = global_slot(&self.vm, &format!("p{}", k))?;
                    self.slots.borrow_mut().insert(k, s);
                    s
                }
            };
            Some(self.vm.verif_globenv().get_slot(slot))
        } else {
            None
        }
    }

    fn render(&self) -> String {
        let mut r = Render {
            seen: HashMap::new(),
            next: 0,
            out: String::new(),
        };
        for k in 0..self.defined.len() {
            if k > 0 {
                r.out.push(' ');
            }
            match self.slot(k) {
                Some(v) => r.value(&self.vm, &v),
                None => r.out.push('!'),
            }
        }
        r.out
    }

    /// execute operation number `defined.len()`; returns (step text, continue?)
    fn step(&mut self, op: &Op) -> (String, bool) {
        let k = self.defined.len();
        let text = op.scheme(k);
        let vm = &mut self.vm;
        let r = catch(AssertUnwindSafe(|| vm.eval_text(&text).map(|_| ())));
        match r {
            Err(_) => {
                self.defined.push(false);
                ("panic".into(), false)
            }
            Ok(Err(_)) => {
                self.defined.push(false);
                if op.name == "map" || op.name == "for-each" {
                    ("err".into(), false)
                } else {
                    // rendering walks the heap: a broken heap is an observation, not a crash
                    let me = AssertUnwindSafe(&*self);
                    match catch(move || me.render()) {
                        Ok(g) => (format!("err {}", g), true),
                        Err(_) => ("panic-render".into(), false),
                    }
                }
            }
            Ok(Ok(())) => {
                self.defined.push(true);
                let me = AssertUnwindSafe(&*self);
                match catch(move || me.render()) {
                    Ok(g) => (format!("ok {}", g), true),
                    Err(_) => ("panic-render".into(), false),
                }
            }
        }
    }

    // ---- what the generator may look at

    fn kind(&self, k: usize) -> Kind {
        let v = match self.slot(k) {
            Some(v) => v,
            None => return Kind::Undefined,
        };
        match deref(&self.vm, &v) {
            VCell::Pair(_, _) => {
                let mut len = 0;
                let mut cur = deref(&self.vm, &v).clone();
                let mut all_chars = true;
                while let VCell::Pair(a, d) = cur {
                    len += 1;
                    if !matches!(self.vm.verif_heap().verif_cells()[a], VCell::Char(_)) {
                        all_chars = false;
                    }
                    cur = self.vm.verif_heap().verif_cells()[d].clone();
                    if len > 10_000 {
                        break;
                    }
                }
                Kind::Pair {
                    len,
                    proper: matches!(cur, VCell::Nil),
                    all_chars,
                }
            }
            VCell::Nil => Kind::Nil,
            VCell::Vector(rc) => Kind::Vec { len: rc.len() },
            VCell::String(rc) => Kind::Str {
                len: rc.borrow().chars().count(),
            },
            VCell::Char(_) => Kind::CharV,
            VCell::Void | VCell::Undefined => Kind::Unspecified,
            _ => Kind::Scalar,
        }
    }

    /// identities of every aggregate reachable from pool variable `k` (itself included)
    fn reach(&self, k: usize) -> Vec<Key> {
        let mut seen = vec![];
        if let Some(v) = self.slot(k) {
            self.reach_from(&v, &mut seen);
        }
        seen
    }

    fn reach_from(&self, v: &VCell, seen: &mut Vec<Key>) {
        let key = match v {
            VCell::Ptr(p) => Some(*p),
            _ => None,
        };
        match deref(&self.vm, v).clone() {
            VCell::Pair(a, d) => {
                if let Some(p) = key {
                    if seen.contains(&Key::Pair(p)) {
                        return;
                    }
                    seen.push(Key::Pair(p));
                }
                self.reach_from(&VCell::Ptr(a), seen);
                self.reach_from(&VCell::Ptr(d), seen);
            }
            VCell::Vector(rc) => {
                let k = Key::Vec(Rc::as_ptr(&rc) as usize);
                if seen.contains(&k) {
                    return;
                }
                seen.push(k);
                for i in 0..rc.len() {
                    self.reach_from(&rc.get(i).unwrap(), seen);
                }
            }
            VCell::String(rc) => {
                let k = Key::Str(Rc::as_ptr(&rc) as usize);
                if !seen.contains(&k) {
                    seen.push(k);
                }
            }
            _ => {}
        }
    }

    /// may the value of `val` be stored into (an object reachable from) `target` without closing
    /// a cycle?  Conservative: the two reachable sets must be disjoint, except that sharing of
    /// strings is harmless.
    fn storable(&self, val: &Arg, target: usize) -> bool {
        match val {
            Arg::Pool(j) => {
                let rv = self.reach(*j);
                let rt = self.reach(target);
                !rv.iter()
                    .any(|k| !matches!(k, Key::Str(_)) && rt.contains(k))
            }
            _ => true,
        }
    }
}

#[derive(Clone, Copy, Debug, PartialEq)]
enum Kind {
    Undefined,
    Pair {
        len: usize,
        proper: bool,
        all_chars: bool,
    },
    Nil,
    Vec {
        len: usize,
    },
    Str {
        len: usize,
    },
    CharV,
    /// the unspecified value returned by mutators: not a datum, never used as an argument
    Unspecified,
    Scalar,
}

// ---------------------------------------------------------------------------------- generators

struct Gen<'a> {
    rng: &'a mut Rng,
    sess: Sess,
    ops: Vec<Op>,
    steps: Vec<String>,
    alive: bool,
}

const VM_BATCH: usize = 25;
const SYMS: [&str; 4] = ["a", "b", "c", "d"];

impl<'a> Gen<'a> {
    fn new(rng: &'a mut Rng, sess: Sess) -> Gen<'a> {
        Gen {
            rng,
            sess,
            ops: vec![],
            steps: vec![],
            alive: true,
        }
    }

    fn n(&self) -> usize {
        self.sess.defined.len()
    }

    fn push(&mut self, name: &str, args: Vec<Arg>) {
        if !self.alive {
            return;
        }
        let op = Op {
            name: name.into(),
            args,
        };
        let (text, cont) = self.sess.step(&op);
        self.ops.push(op);
        self.steps.push(text);
        self.alive = cont;
    }

    fn slots_where(&self, f: impl Fn(Kind) -> bool) -> Vec<usize> {
        (0..self.n()).filter(|k| f(self.sess.kind(*k))).collect()
    }

    /// a scalar on which eq?/eqv? are fully specified
    fn key(&mut self) -> Arg {
        match self.rng.below(6) {
            0 => Arg::Sym(self.rng.pick(&SYMS).to_string()),
            1 => {
                if self.rng.chance(1, 2) {
                    Arg::True
                } else {
                    Arg::False
                }
            }
            2 => Arg::Nil,
            3 => Arg::Char(*self.rng.pick(&[97u32, 98, 0x3bb, 0x20ac, 0x1f436])),
            _ => Arg::Int(self.rng.range(0, 3).to_string()),
        }
    }

    fn any(&mut self) -> Arg {
        let n = self.n();
        if n > 0 && self.rng.chance(3, 5) {
            let live = self.slots_where(|k| k != Kind::Undefined && k != Kind::Unspecified);
            if !live.is_empty() {
                return Arg::Pool(*self.rng.pick(&live));
            }
        }
        self.key()
    }

    /// a list-like argument: mostly a pool list (proper or not), sometimes '() or anything
    fn listish(&mut self) -> Arg {
        let ls = self.slots_where(|k| matches!(k, Kind::Pair { .. } | Kind::Nil));
        match self.rng.below(20) {
            0 => self.any(),
            1 => Arg::Nil,
            _ if !ls.is_empty() => Arg::Pool(*self.rng.pick(&ls)),
            _ => Arg::Nil,
        }
    }

    fn vecish(&mut self) -> Arg {
        let vs = self.slots_where(|k| matches!(k, Kind::Vec { .. }));
        if vs.is_empty() || self.rng.chance(1, 20) {
            self.any()
        } else {
            Arg::Pool(*self.rng.pick(&vs))
        }
    }

    fn len_of(&self, a: &Arg) -> usize {
        match a {
            Arg::Pool(k) => match self.sess.kind(*k) {
                Kind::Pair { len, .. } => len,
                Kind::Vec { len } => len,
                Kind::Str { len } => len,
                _ => 0,
            },
            _ => 0,
        }
    }

    /// an index for a container of length `len`: -1 ..= len+1 mostly, sometimes far beyond
    fn index(&mut self, len: usize) -> Arg {
        match self.rng.below(40) {
            0 => Arg::Int((len + 5).to_string()),
            1 => Arg::Int("9223372036854775807".into()),
            2 => Arg::Int("9223372036854775808".into()),
            3 => Arg::Int("18446744073709551615".into()),
            4 => Arg::Int("18446744073709551616".into()),
            5 => Arg::Int("-9223372036854775808".into()),
            6 => self.key(),
            _ => Arg::Int(self.rng.range(-1, len as i64 + 1).to_string()),
        }
    }

    // ---- C14

    fn c14_setup(&mut self) {
        let k = self.rng.range(3, 7);
        for _ in 0..k {
            match self.rng.below(10) {
                0 | 1 | 2 => {
                    let m = self.rng.below(5);
                    let args = (0..m).map(|_| self.any()).collect();
                    self.push("list", args)
                }
                3 | 4 => {
                    // share a tail / make an improper list / an alist entry
                    let a = self.any();
                    let d = if self.rng.chance(2, 3) {
                        self.listish()
                    } else {
                        self.key()
                    };
                    self.push("cons", vec![a, d])
                }
                5 | 6 => {
                    let m = self.rng.below(4);
                    let args = (0..m).map(|_| self.any()).collect();
                    self.push("vector", args)
                }
                7 => {
                    let n = self.rng.range(0, 3);
                    let mut args = vec![Arg::Int(n.to_string())];
                    if self.rng.chance(2, 3) {
                        args.push(self.any());
                    }
                    self.push("make-vector", args)
                }
                8 => {
                    // an association list
                    let m = self.rng.range(1, 3);
                    let mut entries = vec![];
                    for _ in 0..m {
                        let a = self.key();
                        let d = self.any();
                        self.push("cons", vec![a, d]);
                        entries.push(Arg::Pool(self.n() - 1));
                    }
                    if self.rng.chance(1, 4) {
                        entries.push(self.key());
                    }
                    self.push("list", entries)
                }
                _ => {
                    let a = self.listish();
                    let b = self.listish();
                    self.push("append", vec![a, b])
                }
            }
        }
    }

    fn c14_op(&mut self) {
        const OPS: [&str; 32] = [
            "cons", "car", "cdr", "set-car!", "set-cdr!", "list", "length", "append", "reverse",
            "list-tail", "list-ref", "memq", "memv", "member", "assq", "assv", "assoc", "map",
            "for-each", "list?", "vector", "make-vector", "vector-length", "vector-ref",
            "vector-set!", "vector-fill!", "vector->list", "list->vector", "vector-copy",
            "vector-copy!", "equal?", "set-cdr!",
        ];
        let name = *self.rng.pick(&OPS);
        match name {
            "cons" => {
                let a = self.any();
                let d = if self.rng.chance(1, 2) {
                    self.listish()
                } else {
                    self.any()
                };
                self.push(name, vec![a, d])
            }
            "car" | "cdr" | "length" | "reverse" | "list->vector" => {
                let l = self.listish();
                self.push(name, vec![l])
            }
            "list?" => {
                let l = if self.rng.chance(1, 2) {
                    self.listish()
                } else {
                    self.any()
                };
                self.push(name, vec![l])
            }
            "set-car!" | "set-cdr!" => {
                let ps = self.slots_where(|k| matches!(k, Kind::Pair { .. }));
                let p = if ps.is_empty() || self.rng.chance(1, 20) {
                    self.any()
                } else {
                    Arg::Pool(*self.rng.pick(&ps))
                };
                let mut v = self.any();
                if let Arg::Pool(t) = p {
                    if !self.sess.storable(&v, t) {
                        v = self.key();
                    }
                }
                self.push(name, vec![p, v])
            }
            "list" | "vector" => {
                let m = self.rng.below(4);
                let args = (0..m).map(|_| self.any()).collect();
                self.push(name, args)
            }
            "append" => {
                let m = self.rng.below(4);
                let mut args: Vec<Arg> = (0..m).map(|_| self.listish()).collect();
                if m > 0 && self.rng.chance(1, 3) {
                    args[m as usize - 1] = self.any();
                }
                self.push(name, args)
            }
            "list-tail" | "list-ref" => {
                let l = self.listish();
                let i = self.index(self.len_of(&l));
                self.push(name, vec![l, i])
            }
            "memq" | "memv" | "assq" | "assv" => {
                let k = self.key();
                let l = self.listish();
                self.push(name, vec![k, l])
            }
            "member" | "assoc" => {
                let k = self.any();
                let l = self.listish();
                self.push(name, vec![k, l])
            }
            "equal?" => {
                // half of the time compare an object with a structurally equal copy built through a DIFFERENT
                // route (scalars unboxed in a vector literal vs boxed when they come out of a list, fresh pairs
                // vs shared ones): equal? must not depend on how its arguments were produced
                let vs = self.slots_where(|k| matches!(k, Kind::Vec { .. }));
                let ps = self.slots_where(|k| matches!(k, Kind::Pair { proper: true, .. }));
                if !ps.is_empty() && self.rng.chance(1, 4) {
                    // one argument holds the SAME list object twice, the other a fresh copy followed by a near
                    // twin that agrees with it on a prefix only (longer by one element, or shorter): a comparison
                    // that remembers visited tails of one side only would answer #t (seed C14d-1)
                    let t = *self.rng.pick(&ps);
                    self.push("cons", vec![Arg::Pool(t), Arg::Pool(t)]);
                    let shared = self.n() - 1;
                    self.push("append", vec![Arg::Pool(t), Arg::Nil]);
                    let copy = self.n() - 1;
                    let twin = match self.rng.below(3) {
                        0 => {
                            let k = self.key();
                            self.push("list", vec![k]);
                            let tail = self.n() - 1;
                            self.push("append", vec![Arg::Pool(t), Arg::Pool(tail)]);
                            self.n() - 1
                        }
                        1 => {
                            self.push("reverse", vec![Arg::Pool(t)]);
                            let r = self.n() - 1;
                            self.push("cdr", vec![Arg::Pool(r)]);
                            let r2 = self.n() - 1;
                            self.push("reverse", vec![Arg::Pool(r2)]);
                            self.n() - 1
                        }
                        _ => {
                            self.push("append", vec![Arg::Pool(t), Arg::Nil]);
                            self.n() - 1
                        }
                    };
                    self.push("cons", vec![Arg::Pool(copy), Arg::Pool(twin)]);
                    let unshared = self.n() - 1;
                    if self.rng.chance(1, 2) {
                        self.push(name, vec![Arg::Pool(unshared), Arg::Pool(shared)])
                    } else {
                        self.push(name, vec![Arg::Pool(shared), Arg::Pool(unshared)])
                    }
                } else if !vs.is_empty() && self.rng.chance(1, 3) {
                    let v = *self.rng.pick(&vs);
                    self.push("vector->list", vec![Arg::Pool(v)]);
                    let l = self.n() - 1;
                    self.push("list->vector", vec![Arg::Pool(l)]);
                    let w = self.n() - 1;
                    if self.rng.chance(1, 2) {
                        self.push(name, vec![Arg::Pool(v), Arg::Pool(w)])
                    } else {
                        self.push(name, vec![Arg::Pool(w), Arg::Pool(v)])
                    }
                } else if !ps.is_empty() && self.rng.chance(1, 3) {
                    let l = *self.rng.pick(&ps);
                    self.push("list->vector", vec![Arg::Pool(l)]);
                    let v = self.n() - 1;
                    self.push("vector->list", vec![Arg::Pool(v)]);
                    let l2 = self.n() - 1;
                    self.push(name, vec![Arg::Pool(l), Arg::Pool(l2)])
                } else {
                    let a = self.any();
                    let b = self.any();
                    self.push(name, vec![a, b])
                }
            }
            "map" => {
                let (f, arity): (&str, usize) = *self.rng.pick(&[
                    ("car", 1),
                    ("cdr", 1),
                    ("cons", 2),
                    ("list", 1),
                    ("list", 2),
                    ("vector", 2),
                    ("vector-length", 1),
                    ("length", 1),
                    ("reverse", 1),
                    ("equal?", 2),
                    ("list", 3),
                ]);
                let mut args = vec![Arg::Builtin(f.into())];
                for _ in 0..arity {
                    args.push(self.listish());
                }
                self.push(name, args)
            }
            "for-each" => {
                let (f, arity): (&str, usize) = *self.rng.pick(&[
                    ("set-car!", 2),
                    ("set-cdr!", 2),
                    ("vector-fill!", 2),
                    ("car", 1),
                    ("cons", 2),
                    ("vector-set!", 3),
                ]);
                let mut args = vec![Arg::Builtin(f.into())];
                for _ in 0..arity {
                    args.push(self.listish());
                }
                // the callee mutates elements of the first list with elements of the last:
                // keep the two (and an index list in between) apart
                let ok = match (&args[1], args.last().unwrap()) {
                    (Arg::Pool(t), v @ Arg::Pool(_)) if arity >= 2 => self.sess.storable(v, *t),
                    _ => true,
                };
                if !ok {
                    let l = args.len() - 1;
                    args[l] = Arg::Nil;
                }
                self.push(name, args)
            }
            "make-vector" => {
                let n = match self.rng.below(12) {
                    0 => Arg::Int("-1".into()),
                    1 => self.key(),
                    _ => Arg::Int(self.rng.range(0, 4).to_string()),
                };
                let mut args = vec![n];
                if self.rng.chance(2, 3) {
                    args.push(self.any());
                }
                self.push(name, args)
            }
            "vector-length" | "vector->list" => {
                let v = self.vecish();
                self.push(name, vec![v])
            }
            "vector-ref" => {
                let v = self.vecish();
                let i = self.index(self.len_of(&v));
                self.push(name, vec![v, i])
            }
            "vector-set!" => {
                let v = self.vecish();
                let i = self.index(self.len_of(&v));
                let mut x = self.any();
                if let Arg::Pool(t) = v {
                    if !self.sess.storable(&x, t) {
                        x = self.key();
                    }
                }
                self.push(name, vec![v, i, x])
            }
            "vector-fill!" => {
                let v = self.vecish();
                let mut x = self.any();
                if let Arg::Pool(t) = v {
                    if !self.sess.storable(&x, t) {
                        x = self.key();
                    }
                }
                self.push(name, vec![v, x])
            }
            "vector-copy" => {
                let v = self.vecish();
                let mut args = vec![v.clone()];
                if self.rng.chance(3, 4) {
                    args.push(self.index(self.len_of(&v)));
                }
                self.push(name, args)
            }
            "vector-copy!" => {
                let to = self.vecish();
                let mut from = self.vecish();
                // the same vector is fine (overlap); a *different* source whose elements reach
                // the target would close a cycle
                if let (Arg::Pool(t), Arg::Pool(f)) = (&to, &from) {
                    let same = self.sess.reach(*t).first() == self.sess.reach(*f).first();
                    if !same && !self.sess.storable(&from, *t) {
                        from = to.clone();
                    }
                }
                let at = self.index(self.len_of(&to));
                let mut args = vec![to, at, from.clone()];
                let k = self.rng.below(4);
                if k >= 1 {
                    args.push(self.index(self.len_of(&from)));
                }
                if k >= 3 {
                    args.push(self.index(self.len_of(&from)));
                }
                self.push(name, args)
            }
            _ => unreachable!(),
        }
    }

    fn c14_case(&mut self) {
        self.c14_setup();
        let m = self.rng.range(1, 12);
        for _ in 0..m {
            if !self.alive {
                break;
            }
            self.c14_op();
        }
    }


    // ---- C15

    fn alpha_char(&mut self) -> u32 {
        // 1-, 2-, 3- and 4-byte characters; case pairs, multi-character case images (ß, ŉ, İ, ﬁ),
        // title case (ǅ), digits and white space outside ASCII, NUL; the three sigmas and the
        // characters that decide what "the end of a word" is for str::to_lowercase (see sigma_char).
        const A: [u32; 38] = [
            0x61, 0x5a, 0x30, 0x20, 0x6d, 0x7a, 0x41, 0x0, 0x7f, // 1 byte
            0xe9, 0xc9, 0x3bb, 0x39b, 0xdf, 0x1c5, 0x130, 0x149, 0x663, 0xa0, 0xb5, // 2 bytes
            0x20ac, 0xff21, 0xff41, 0xfb01, 0x2028, 0x1e9e, 0x3042, 0xd7ff, 0xe000, 0xfffd, // 3 bytes
            0x1f436, 0x10400, 0x10428, 0x1d7d8, // 4 bytes
            // case pairs whose two members have DIFFERENT UTF-8 widths (Ⱥ/ⱥ, Kelvin/k, Ohm/ω; ẞ/ß and İ are above)
            0x23a, 0x2c65, 0x212a, 0x2126,
        ];
        if self.rng.chance(1, 6) {
            self.sigma_char()
        } else {
            *self.rng.pick(&A)
        }
    }

    /// The alphabet around Final_Sigma (`str::to_lowercase`: Σ becomes ς iff preceded, skipping
    /// Case_Ignorable characters, by a Cased character and not followed, skipping Case_Ignorable
    /// characters, by a Cased one): Σ σ ς (weighted up), cased letters (Α α a Z), Case_Ignorable
    /// characters (. : ' soft hyphen, combining acute, middle dot, and ʰ U+02B0 which is Cased AND
    /// Case_Ignorable), uncased ones (digit, space, €).
    fn sigma_char(&mut self) -> u32 {
        const S: [u32; 22] = [
            0x3a3, 0x3a3, 0x3a3, 0x3a3, 0x3c3, 0x3c3, 0x3c2, 0x3c2, // Σ σ ς
            0x391, 0x3b1, 0x61, 0x5a, // Α α a Z
            0x2e, 0x3a, 0x27, 0xad, 0x301, 0xb7, 0x2b0, // . : ' SHY ◌́ · ʰ
            0x31, 0x20, 0x20ac, // 1 space €
        ];
        *self.rng.pick(&S)
    }

    /// 1-5 characters of the sigma alphabet: Σ word-final, -initial, -medial, alone, doubled, next to
    /// Case_Ignorable and uncased characters all occur
    fn sigma_word(&mut self) -> Vec<u32> {
        let n = self.rng.range(1, 5) as usize;
        (0..n).map(|_| self.sigma_char()).collect()
    }

    /// a string argument for the case operations: a fresh word over the sigma alphabet (1 in 3) or
    /// any pool string
    fn case_strish(&mut self) -> Arg {
        if self.rng.chance(1, 3) {
            let w = self.sigma_word();
            self.push("string", w.iter().map(|c| Arg::Char(*c)).collect());
            Arg::Pool(self.n() - 1)
        } else {
            self.strish()
        }
    }

    fn charish(&mut self) -> Arg {
        let cs = self.slots_where(|k| k == Kind::CharV);
        match self.rng.below(20) {
            0 => self.any(),
            1 | 2 | 3 if !cs.is_empty() => Arg::Pool(*self.rng.pick(&cs)),
            _ => Arg::Char(self.alpha_char()),
        }
    }

    fn strish(&mut self) -> Arg {
        let ss = self.slots_where(|k| matches!(k, Kind::Str { .. }));
        if ss.is_empty() || self.rng.chance(1, 25) {
            self.any()
        } else {
            Arg::Pool(*self.rng.pick(&ss))
        }
    }

    fn c15_setup(&mut self) {
        let k = self.rng.range(2, 4);
        for _ in 0..k {
            match self.rng.below(8) {
                0 => {
                    let n = self.rng.range(0, 3);
                    let c = Arg::Char(self.alpha_char());
                    self.push("make-string", vec![Arg::Int(n.to_string()), c])
                }
                1 => {
                    // a list / vector of characters for list->string, vector->string
                    let m = self.rng.below(4);
                    let args = (0..m).map(|_| Arg::Char(self.alpha_char())).collect();
                    let name = if self.rng.chance(1, 2) { "list" } else { "vector" };
                    self.push(name, args)
                }
                2 => {
                    // a container aliasing an existing string (mutation must show through it)
                    let a = self.strish();
                    let b = self.strish();
                    self.push("vector", vec![a, b])
                }
                3 => {
                    let w = self.sigma_word();
                    self.push("string", w.iter().map(|c| Arg::Char(*c)).collect())
                }
                _ => {
                    let m = self.rng.below(6);
                    let args = (0..m).map(|_| Arg::Char(self.alpha_char())).collect();
                    self.push("string", args)
                }
            }
        }
    }

    fn range_args(&mut self, len: usize, max: u64) -> Vec<Arg> {
        let k = self.rng.below(max + 1);
        (0..k).map(|_| self.index(len)).collect()
    }

    fn c15_op(&mut self) {
        const OPS: [&str; 36] = [
            "string-length", "string-ref", "string-set!", "substring", "string-copy", "string-fill!",
            "string->list", "string->vector", "vector->string", "list->string", "string",
            "make-string", "string-append", "string-cmp", "string-ci-cmp", "string-upcase",
            "string-downcase", "string-foldcase", "char->integer", "integer->char", "char-class",
            "char-upcase", "char-downcase", "char-foldcase", "char-cmp", "char-ci-cmp",
            "string-set!", "string-fill!", "string-ref", "string-copy", "string-set!", "string->list",
            "cons", "string-cmp", "string-fill!", "substring",
        ];
        const CMP: [&str; 5] = ["=?", "<?", ">?", "<=?", ">=?"];
        let name = *self.rng.pick(&OPS);
        match name {
            "string-length" | "string->vector" => {
                let s = self.strish();
                self.push(name, vec![s])
            }
            "string-upcase" | "string-downcase" | "string-foldcase" => {
                let s = self.case_strish();
                self.push(name, vec![s])
            }
            "string-ref" => {
                let s = self.strish();
                let i = self.index(self.len_of(&s));
                self.push(name, vec![s, i])
            }
            "string-set!" => {
                let s = self.strish();
                let i = self.index(self.len_of(&s));
                let c = self.charish();
                self.push(name, vec![s, i, c])
            }
            "substring" => {
                let s = self.strish();
                let len = self.len_of(&s);
                let a = self.index(len);
                let b = self.index(len);
                self.push(name, vec![s, a, b])
            }
            "string-copy" | "string->list" => {
                let s = self.strish();
                let mut args = vec![s.clone()];
                args.extend(self.range_args(self.len_of(&s), 2));
                self.push(name, args)
            }
            "string-fill!" => {
                let s = self.strish();
                let c = self.charish();
                let mut args = vec![s.clone(), c];
                args.extend(self.range_args(self.len_of(&s), 2));
                self.push(name, args)
            }
            "vector->string" => {
                let vs = self.slots_where(|k| matches!(k, Kind::Vec { .. }));
                let v = if vs.is_empty() || self.rng.chance(1, 15) {
                    self.any()
                } else {
                    Arg::Pool(*self.rng.pick(&vs))
                };
                self.push(name, vec![v])
            }
            "list->string" => {
                let ls = self.slots_where(|k| matches!(k, Kind::Pair { .. } | Kind::Nil));
                let l = if ls.is_empty() || self.rng.chance(1, 15) {
                    self.any()
                } else {
                    Arg::Pool(*self.rng.pick(&ls))
                };
                self.push(name, vec![l])
            }
            "string" => {
                let m = self.rng.below(5);
                let args = (0..m).map(|_| self.charish()).collect();
                self.push(name, args)
            }
            "make-string" => {
                let n = match self.rng.below(12) {
                    0 => Arg::Int("-1".into()),
                    1 => self.key(),
                    _ => Arg::Int(self.rng.range(0, 4).to_string()),
                };
                let mut args = vec![n];
                if self.rng.chance(3, 4) {
                    args.push(self.charish());
                }
                self.push(name, args)
            }
            "string-append" => {
                let m = self.rng.below(4);
                let args = (0..m).map(|_| self.strish()).collect();
                self.push(name, args)
            }
            "string-cmp" | "string-ci-cmp" => {
                let pre = if name == "string-cmp" { "string" } else { "string-ci" };
                let m = self.rng.range(1, 3);
                let mut args: Vec<Arg> = (0..m).map(|_| self.strish()).collect();
                if self.rng.chance(1, 3) {
                    // two strings that differ only in case (so the -ci predicates must call them equal), built
                    // character by character; the case counterparts may have another UTF-8 width. Half of them are
                    // words around Final_Sigma, where the counterpart of a sigma may also be the other small sigma
                    // (char::to_lowercase keeps σ and ς apart, so those pairs are unequal: both answers occur)
                    let n = self.rng.range(1, 4) as usize;
                    let cs: Vec<u32> = if self.rng.chance(1, 2) {
                        self.sigma_word()
                    } else {
                        (0..n).map(|_| self.alpha_char()).collect()
                    };
                    let mut other: Vec<u32> = cs
                        .iter()
                        .map(|c| {
                            let ch = char::from_u32(*c).unwrap();
                            let up: Vec<char> = ch.to_uppercase().collect();
                            let lo: Vec<char> = ch.to_lowercase().collect();
                            if up.len() == 1 && up[0] != ch {
                                up[0] as u32
                            } else if lo.len() == 1 && lo[0] != ch {
                                lo[0] as u32
                            } else {
                                *c
                            }
                        })
                        .collect();
                    // the counterpart of a sigma is any of the three ("ΑΣ" against "ασ" and against "ας")
                    for c in other.iter_mut() {
                        if matches!(*c, 0x3a3 | 0x3c3 | 0x3c2) && self.rng.chance(1, 2) {
                            *c = *self.rng.pick(&[0x3a3, 0x3c3, 0x3c2]);
                        }
                    }
                    self.push("string", cs.iter().map(|c| Arg::Char(*c)).collect());
                    let a = self.n() - 1;
                    self.push("string", other.iter().map(|c| Arg::Char(*c)).collect());
                    let b = self.n() - 1;
                    args = vec![Arg::Pool(a), Arg::Pool(b)];
                }
                let op = format!("{}{}", pre, self.rng.pick(&CMP));
                self.push(&op, args)
            }
            "char-cmp" | "char-ci-cmp" => {
                let pre = if name == "char-cmp" { "char" } else { "char-ci" };
                let m = self.rng.range(1, 3);
                let args = (0..m).map(|_| self.charish()).collect();
                let op = format!("{}{}", pre, self.rng.pick(&CMP));
                self.push(&op, args)
            }
            "char->integer" | "char-upcase" | "char-downcase" | "char-foldcase" => {
                let c = self.charish();
                self.push(name, vec![c])
            }
            "char-class" => {
                let c = self.charish();
                let op = *self.rng.pick(&[
                    "char-alphabetic?",
                    "char-numeric?",
                    "char-whitespace?",
                    "char-upper-case?",
                    "char-lower-case?",
                ]);
                self.push(op, vec![c])
            }
            "integer->char" => {
                const NS: [i64; 16] = [
                    0, 65, 0xd7ff, 0xd800, 0xdbff, 0xdc00, 0xdfff, 0xe000, 0xfffd, 0x10ffff,
                    0x110000, 0xffffffff, 0x100000000, -1, 0x7fffffff, 0x3bb,
                ];
                let n = match self.rng.below(4) {
                    0 => self.rng.range(0xd700, 0xe100),
                    1 => self.rng.range(0, 0x110100),
                    _ => *self.rng.pick(&NS),
                };
                let a = if self.rng.chance(1, 20) {
                    self.any()
                } else {
                    Arg::Int(n.to_string())
                };
                self.push(name, vec![a])
            }
            "cons" => {
                // grow a character list (possibly improper) for list->string
                let c = self.charish();
                let l = if self.rng.chance(1, 6) { self.charish() } else { self.listish() };
                self.push(name, vec![c, l])
            }
            _ => unreachable!(),
        }
    }

    fn c15_case(&mut self) {
        self.c15_setup();
        let m = self.rng.range(1, 10);
        for _ in 0..m {
            if !self.alive {
                break;
            }
            self.c15_op();
        }
    }

    fn case_table(&self) -> String {
        case_table_of(&self.ops, &self.steps)
    }

    fn line15(&self) -> String {
        let toks: Vec<String> = self.ops.iter().map(|o| o.token()).collect();
        let req = format!("{} {}", self.case_table(), toks.join(" "));
        format!("c15 {}\tok {}\tc15s {}", req, self.steps.join("|"), req)
    }

    fn line(&self, cmd: &str) -> String {
        let toks: Vec<String> = self.ops.iter().map(|o| o.token()).collect();
        let req = toks.join(" ");
        format!(
            "{} {}\tok {}\t{}s {}",
            cmd,
            req,
            self.steps.join("|"),
            cmd,
            req
        )
    }
}

/// what `str::to_lowercase` sees of `char::is_cased` / `char::is_case_ignorable` (neither is public),
/// observed through its public behaviour only. It gives Σ the final form ς iff
/// `case_ignorable_then_cased(before.rev()) && !case_ignorable_then_cased(after)`, where that function
/// skips Case_Ignorable characters and then tests `is_cased` (library/alloc/src/str.rs). Hence
/// `c Σ` ends in ς iff c is Cased and not Case_Ignorable, and `Α c Σ` ends in ς iff c is Case_Ignorable
/// or (Cased and not Case_Ignorable). A character that is both (ʰ U+02B0) is skipped by std before
/// `is_cased` is asked, so it counts as ignorable and its `cased` bit is never consulted.
fn context_bits(c: char) -> (bool, bool) {
    let cased = format!("{}\u{3a3}", c).to_lowercase().ends_with('\u{3c2}');
    let ignorable = !cased && format!("\u{391}{}\u{3a3}", c).to_lowercase().ends_with('\u{3c2}');
    (cased, ignorable)
}

/// the case-mapping oracle for every character that occurs in the arguments or in any
/// observed state, closed under to_lowercase / to_uppercase
fn case_table_of(ops: &[Op], steps: &[String]) -> String {
    let mut cps: Vec<u32> = vec![0];
    for op in ops {
        for a in &op.args {
            match a {
                Arg::Char(c) => cps.push(*c),
                Arg::Int(n) => {
                    if let Ok(v) = n.parse::<u32>() {
                        cps.push(v)
                    }
                }
                _ => {}
            }
        }
    }
    for st in steps {
        // c<cp> atoms and the code points of rendered strings
        for tok in st.split(|c: char| !(c.is_ascii_digit() || c == 'c')) {
            let t = tok.trim_start_matches('c');
            if let Ok(v) = t.parse::<u32>() {
                cps.push(v)
            }
        }
    }
    let mut chars: Vec<char> = cps.into_iter().filter_map(char::from_u32).collect();
    for _ in 0..2 {
        let mut more = vec![];
        for c in &chars {
            more.extend(c.to_lowercase());
            more.extend(c.to_uppercase());
        }
        chars.extend(more);
    }
    chars.sort();
    chars.dedup();
    let enc = |it: &mut dyn Iterator<Item = char>| {
        it.map(|c| (c as u32).to_string()).collect::<Vec<_>>().join(".")
    };
    let entries: Vec<String> = chars
        .iter()
        .map(|c| {
            let (cased, ignorable) = context_bits(*c);
            let flags = (c.is_alphabetic() as u32)
                | (c.is_numeric() as u32) << 1
                | (c.is_whitespace() as u32) << 2
                | (c.is_lowercase() as u32) << 3
                | (c.is_uppercase() as u32) << 4
                | (cased as u32) << 5
                | (ignorable as u32) << 6
                | 1 << 7; // this entry carries the two context bits
            format!(
                "{}:{}:{}:{}",
                *c as u32,
                enc(&mut c.to_lowercase()),
                enc(&mut c.to_uppercase()),
                flags
            )
        })
        .collect();
    format!("T{}", entries.join(";"))
}

/// the answer and, when every token parsed, the operations and their observed steps
fn replay_steps(ops: &[String]) -> (String, Option<(Vec<Op>, Vec<String>)>) {
    let mut sess = Sess::new();
    let mut steps = vec![];
    let mut parsed = vec![];
    for w in ops {
        let op = match Op::parse(w) {
            Some(op) => op,
            None => return ("bad-op".into(), None),
        };
        let (text, cont) = sess.step(&op);
        parsed.push(op);
        steps.push(text);
        if !cont {
            break;
        }
    }
    (format!("ok {}", steps.join("|")), Some((parsed, steps)))
}

fn main() {
    silence_panics();
    let args: Vec<String> = std::env::args().collect();
    let seed: u64 = std::env::var("VERIF_SEED")
        .ok()
        .and_then(|s| s.parse().ok())
        .unwrap_or(1);
    let out = std::io::stdout();
    let mut out = std::io::BufWriter::new(out.lock());
    match args.get(1).map(|s| s.as_str()) {
        Some("c14") => {
            let n: usize = args[2].parse().unwrap();
            let mut rng = Rng::new(seed ^ 0x14);
            let mut sess = Sess::new();
            for i in 0..n {
                // a VM serves a batch of sequences (its heap fills up and is collected along
                // the way); after a panic it is discarded
                if i % VM_BATCH == 0 {
                    sess = Sess::new();
                }
                sess.reset();
                let mut g = Gen::new(&mut rng, sess);
                g.c14_case();
                writeln!(out, "{}", g.line("c14")).unwrap();
                sess = if g.alive || !g.steps.last().map(|s| s.starts_with("panic")).unwrap_or(false) {
                    g.sess
                } else {
                    Sess::new()
                };
            }
        }
        Some("c15") => {
            let n: usize = args[2].parse().unwrap();
            let mut rng = Rng::new(seed ^ 0x15);
            let mut sess = Sess::new();
            for i in 0..n {
                if i % VM_BATCH == 0 {
                    sess = Sess::new();
                }
                sess.reset();
                let mut g = Gen::new(&mut rng, sess);
                g.c15_case();
                writeln!(out, "{}", g.line15()).unwrap();
                sess = if g.alive || !g.steps.last().map(|s| s.starts_with("panic")).unwrap_or(false) {
                    g.sess
                } else {
                    Sess::new()
                };
            }
        }
        Some("replay") => {
            // store replay c14 op op ...   (prints the same line shape as the generators)
            let cmd = &args[2];
            let all: Vec<String> = args[3..].to_vec();
            // a c15 request carries its case table as first token; the table is the harness's oracle, so it is
            // recomputed here from the operations and the observed states (a corpus line may just say `T`)
            let skip = if all.first().map(|w| w.starts_with('T')).unwrap_or(false) { 1 } else { 0 };
            let (answer, seen) = replay_steps(&all[skip..]);
            let mut req = all.clone();
            if skip == 1 {
                if let Some((ops, steps)) = &seen {
                    req[0] = case_table_of(ops, steps);
                }
            }
            writeln!(out, "{} {}\t{}\t{}s {}", cmd, req.join(" "), answer, cmd, req.join(" ")).unwrap();
        }
        Some("scheme") => {
            // print the Scheme text of a sequence (for humans reading a replay file)
            for (k, w) in args[2..].iter().enumerate() {
                if let Some(op) = Op::parse(w) {
                    writeln!(out, "{}", op.scheme(k)).unwrap();
                }
            }
        }
        _ => {
            eprintln!("usage: store c14 <n> | store c15 <n> | store replay <cmd> <op>... | store scheme <op>...");
            std::process::exit(2);
        }
    }
}
