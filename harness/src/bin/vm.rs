//! Correspondence / oracle generators for the machine-level properties (C13, C07, C04, C05, …).
//! Output lines: `request \t impl-response [\t spec-request]`, or
//! `#oracle <label> \t observed \t expected` for implementation-vs-implementation oracles.
use marwood::vm::Vm;
use mwv::progs::*;
use mwv::rng::Rng;
use mwv::session::*;
use mwv::wire::*;
use std::io::Write;

fn seed() -> u64 {
    std::env::var("VERIF_SEED").ok().and_then(|s| s.parse().ok()).unwrap_or(1)
}

/// run one form uninterrupted; returns (rendered outcome, instructions executed)
fn run_uninterrupted(vm: &mut Vm, text: &str) -> (String, u64) {
    let before = vm.verif_state().instructions;
    let r = eval_form(vm, text);
    let n = vm.verif_state().instructions - before;
    (render(&r), n)
}

/// run one form in slices; returns (rendered outcome, per-slice (kind, instructions))
fn run_sliced(vm: &mut Vm, text: &str, budgets: &mut dyn FnMut() -> usize, max_slices: usize)
    -> (String, Vec<(char, u64)>) {
    let mut slices = vec![];
    let cell = match marwood::parse::parse_text(text) {
        Ok((c, _)) => c,
        Err(e) => return (format!("err {}", error_class(&e.into())), slices),
    };
    if let Err(e) = vm.prepare_eval(&cell) {
        return (format!("err {}", error_class(&e)), slices);
    }
    for _ in 0..max_slices {
        let b = budgets();
        let before = vm.verif_state().instructions;
        let r = vm.run_count(b);
        let n = vm.verif_state().instructions - before;
        match r {
            Ok(None) => slices.push(('p', n)),
            Ok(Some(c)) => {
                slices.push(('d', n));
                return (format!("ok {:#}", c), slices);
            }
            Err(e) => {
                slices.push(('e', n));
                return (format!("err {}", error_class(&e)), slices);
            }
        }
    }
    ("no-completion".into(), slices)
}

fn globals_digest(vm: &mut Vm, names: &[String]) -> String {
    // value of every global the session defined, read through the evaluator
    let mut out = vec![];
    for n in names {
        let r = eval_form(vm, n);
        out.push(format!("{}={}", n, render(&r)));
    }
    out.join(";")
}

fn defined_names(forms: &[Sx]) -> Vec<String> {
    let mut v = vec![];
    for f in forms {
        if let Sx::L(items) = f {
            if items.len() >= 2 {
                if let Sx::A(h) = &items[0] {
                    if h == "define" {
                        match &items[1] {
                            Sx::A(n) => {
                                let n = n.trim_start_matches('(').split(' ').next().unwrap().to_string();
                                if !v.contains(&n) {
                                    v.push(n)
                                }
                            }
                            Sx::L(h) => {
                                if let Some(Sx::A(n)) = h.first() {
                                    if !v.contains(n) {
                                        v.push(n.clone())
                                    }
                                }
                            }
                        }
                    }
                }
            }
        }
    }
    v
}

fn main() {
    silence_panics();
    let args: Vec<String> = std::env::args().collect();
    let cmd = args.get(1).map(|s| s.as_str()).unwrap_or("");
    let out = std::io::stdout();
    let mut out = std::io::BufWriter::new(out.lock());
    match cmd {
        // C13: sliced vs uninterrupted. For each session: VM A runs every form uninterrupted, VM B
        // runs it in slices under a budget schedule.
        //  * correspondence of the loop: `slices <k> <h|f> <b1,b2,…>` — the model predicts the
        //    sequence of (pause/done/error, instructions) for a run of k instructions
        //  * oracle: outcome, output log and globals equal
        "sliced" => {
            let n: usize = args[2].parse().unwrap();
            let mut g = Gen::new(seed());
            let mut sched = Rng::new(seed() ^ 0x13);
            for case in 0..n {
                let forms = g.session(2 + (case % 6), 1 + case % 3);
                let names = defined_names(&forms);
                // schedule kind: constant 1..64, or random in 1..10^4
                let constant = if case % 3 != 2 { Some(1 + sched.below(64) as usize) } else { None };
                let (mut va, la) = new_vm();
                let (mut vb, lb) = new_vm();
                for f in &forms {
                    let text = f.render();
                    let (ra, k) = run_uninterrupted(&mut va, &text);
                    let mut used = vec![];
                    let mut next = || {
                        let b = match constant {
                            Some(c) => c,
                            None => 1 + sched.below(10_000) as usize,
                        };
                        used.push(b);
                        b
                    };
                    let (rb, slices) = run_sliced(&mut vb, &text, &mut next, 200_000);
                    writeln!(out, "#oracle sliced-outcome {}\t{}\t{}", oneline(&text), oneline(&rb), oneline(&ra)).unwrap();
                    if !slices.is_empty() {
                        let kind = if ra.starts_with("ok") { "h" } else { "f" };
                        let bs: Vec<String> = used.iter().map(|b| b.to_string()).collect();
                        let obs: Vec<String> = slices.iter().map(|(c, n)| format!("{}{}", c, n)).collect();
                        writeln!(out, "slices {} {} {}\tok {}", k, kind, bs.join(","), obs.join(" ")).unwrap();
                    }
                }
                let oa = la.borrow().join("|");
                let ob = lb.borrow().join("|");
                writeln!(out, "#oracle sliced-output case{}\t{}\t{}", case, oneline(&ob), oneline(&oa)).unwrap();
                let ga = globals_digest(&mut va, &names);
                let gb = globals_digest(&mut vb, &names);
                writeln!(out, "#oracle sliced-globals case{}\t{}\t{}", case, oneline(&gb), oneline(&ga)).unwrap();
            }
            eprintln!("features: {:?}", g.features);
        }
        _ => {
            eprintln!("usage: vm sliced N");
            std::process::exit(2);
        }
    }
}
