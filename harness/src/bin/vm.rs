//! Correspondence / oracle generators for the machine-level properties (C13, C07, C04, C05, …).
//! Output lines: `request \t impl-response [\t spec-request]`, or
//! `#oracle <label> \t observed \t expected` for implementation-vs-implementation oracles.
use marwood::vm::Vm;
use mwv::progs::*;
use mwv::rng::Rng;
use mwv::session::*;
use mwv::wire::*;
use std::io::Write;

fn seed() -> u64 {
    std::env::var("VERIF_SEED").ok().and_then(|s| s.parse().ok()).unwrap_or(1)
}

/// evaluate one form; a Rust panic inside the VM is an observation ("panic"), not a harness crash
fn eval_obs(vm: &mut Vm, text: &str) -> String {
    let r = mwv::wire::catch(std::panic::AssertUnwindSafe(|| eval_form(vm, text)));
    match r {
        Ok(r) => render(&r),
        Err(_) => "panic".to_string(),
    }
}

/// run one form uninterrupted; returns (rendered outcome, instructions executed)
fn run_uninterrupted(vm: &mut Vm, text: &str) -> (String, u64) {
    let before = vm.verif_state().instructions;
    let r = eval_form(vm, text);
    let n = vm.verif_state().instructions - before;
    (render(&r), n)
}

/// sliced stream: force a full collection at every slice boundary (placement of collections is free)
static FORCE_GC_AT_SLICE: std::sync::atomic::AtomicBool = std::sync::atomic::AtomicBool::new(false);
/// sliced stream: at every third slice boundary a form the COMPILER REJECTS is submitted (`prepare_eval` returns an
/// error): it installs nothing and must leave the suspended evaluation resumable (seed C07e-1)
static REJECTED_FORM_AT_SLICE: std::sync::atomic::AtomicBool = std::sync::atomic::AtomicBool::new(false);

/// run one form in slices; returns (rendered outcome, per-slice (kind, instructions))
fn run_sliced(vm: &mut Vm, text: &str, budgets: &mut dyn FnMut() -> usize, max_slices: usize)
    -> (String, Vec<(char, u64)>) {
    let mut slices = vec![];
    let cell = match marwood::parse::parse_text(text) {
        Ok((c, _)) => c,
        Err(e) => return (format!("err {}", error_class(&e.into())), slices),
    };
    if let Err(e) = vm.prepare_eval(&cell) {
        return (format!("err {}", error_class(&e)), slices);
    }
    for _ in 0..max_slices {
        let b = budgets();
        let before = vm.verif_state().instructions;
        let r = vm.run_count(b);
        let n = vm.verif_state().instructions - before;
        match r {
            Ok(None) => {
                slices.push(('p', n));
                if FORCE_GC_AT_SLICE.load(std::sync::atomic::Ordering::Relaxed) {
                    vm.verif_force_gc();
                }
                if REJECTED_FORM_AT_SLICE.load(std::sync::atomic::Ordering::Relaxed) && slices.len() % 3 == 1 {
                    let bad = ["(if)", "()", "(lambda)", "(set! 1 2)", "(quote)"][slices.len() % 5];
                    if let Ok((c, _)) = marwood::parse::parse_text(bad) {
                        if vm.prepare_eval(&c).is_ok() {
                            return ("rejected-form-accepted".into(), slices);
                        }
                    }
                }
            }
            Ok(Some(c)) => {
                slices.push(('d', n));
                return (format!("ok {:#}", c), slices);
            }
            Err(e) => {
                slices.push(('e', n));
                return (format!("err {}", error_class(&e)), slices);
            }
        }
    }
    ("no-completion".into(), slices)
}

fn globals_digest(vm: &mut Vm, names: &[String]) -> String {
    // value of every global the session defined, read through the evaluator
    let mut out = vec![];
    for n in names {
        let r = eval_form(vm, n);
        out.push(format!("{}={}", n, render(&r)));
    }
    out.join(";")
}

fn defined_names(forms: &[Sx]) -> Vec<String> {
    let mut v = vec![];
    for f in forms {
        if let Sx::L(items) = f {
            if items.len() >= 2 {
                if let Sx::A(h) = &items[0] {
                    if h == "define" {
                        match &items[1] {
                            Sx::A(n) => {
                                let n = n.trim_start_matches('(').split(' ').next().unwrap().to_string();
                                if !v.contains(&n) {
                                    v.push(n)
                                }
                            }
                            Sx::L(h) => {
                                if let Some(Sx::A(n)) = h.first() {
                                    if !v.contains(n) {
                                        v.push(n.clone())
                                    }
                                }
                            }
                        }
                    }
                }
            }
        }
    }
    v
}

/// C05 scenarios with closed-form expectations: (form, expected outcome)
/// lock-step replay ships every instruction across; there the deep scenarios use small depths
static SHALLOW: std::sync::atomic::AtomicBool = std::sync::atomic::AtomicBool::new(false);

fn cont_scenario(case: usize, rng: &mut Rng) -> Vec<(String, String)> {
    let shallow = SHALLOW.load(std::sync::atomic::Ordering::Relaxed);
    let v = rng.range(-50, 50);
    let w = rng.range(-50, 50);
    let c = rng.range(0, 9);
    let d = rng.below(6) as i64; // nesting depth of the escape
    let mut forms: Vec<(String, String)> = vec![];
    let void = || "ok #<void>".to_string();
    forms.push(("(define (deepcall n thunk) (if (= n 0) (thunk) (+ 0 (deepcall (- n 1) thunk))))".into(), void()));
    forms.push(("(define kk #f)".into(), void()));
    forms.push(("(define g 0)".into(), void()));
    forms.push(("(define kv (vector #f #f))".into(), void()));
    forms.push(("(define kp (cons #f #f))".into(), void()));
    match case % 13 {
        0 => {
            // escape from depth d, value delivered to a pending (+ c _)
            forms.push((format!("(+ {} (call/cc (lambda (k) (* 2 (deepcall {} (lambda () (k {})))))))", c, d, v), format!("ok {}", c + v)));
        }
        1 => {
            // receiver returns normally: behaves like an ordinary call
            forms.push((format!("(+ {} (call/cc (lambda (k) (deepcall {} (lambda () {})))))", c, d, v), format!("ok {}", c + v)));
        }
        2 => {
            // re-entry from later top-level forms, several times
            forms.push((format!("(define r (+ {} (call/cc (lambda (k) (set! kk k) {}))))", c, v), void()));
            forms.push(("r".into(), format!("ok {}", c + v)));
            for j in 0..(1 + case % 3) {
                let x = w + j as i64;
                // invoking kk finishes the *define* form again: its value is #<void>
                forms.push((format!("(begin (set! g (+ g 1)) (kk {}) 'never)", x), void()));
                forms.push(("r".into(), format!("ok {}", c + x)));
                forms.push(("g".into(), format!("ok {}", j + 1))); // mutations since capture stay
            }
        }
        3 => {
            // operands evaluated before capture keep their values; later operands are evaluated
            // again and see mutations
            forms.push(("(define cnt 0)".into(), void()));
            forms.push((format!("(define lst (list (begin (set! cnt (+ cnt 1)) cnt) (call/cc (lambda (k) (set! kk k) {})) (begin (set! cnt (+ cnt 10)) cnt)))", v), void()));
            forms.push(("lst".into(), format!("ok (1 {} 11)", v)));
            forms.push((format!("(kk {})", w), void()));
            forms.push(("lst".into(), format!("ok (1 {} 21)", w)));
            forms.push((format!("(kk {})", v), void()));
            forms.push(("lst".into(), format!("ok (1 {} 31)", v)));
        }
        4 => {
            // continuation stored in a vector / pair, invoked from map / for-each callbacks
            forms.push((format!("(+ {} (call/cc (lambda (k) (vector-set! kv 1 k) (set-car! kp k) (apply + (map (lambda (x) (if (= x 2) ((vector-ref kv 1) {}) x)) (list 1 2 3))))))", c, v), format!("ok {}", c + v)));
            forms.push((format!("(+ {} (call/cc (lambda (k) (set-cdr! kp k) (for-each (lambda (x) (if (= x 3) ((cdr kp) {}) x)) (list 1 2 3)) 0)))", c, w), format!("ok {}", c + w)));
        }
        5 => {
            // call/cc in tail position of a loop; k invoked inside another continuation's extent
            forms.push((format!("(define (lp n acc) (if (= n 0) acc (call/cc (lambda (k) (lp (- n 1) (+ acc (call/cc (lambda (j) (if (= n 2) (k {}) (j 1))))))))))", v), void()));
            forms.push(("(lp 3 0)".into(), format!("ok {}", v)));
            forms.push(("(lp 1 5)".into(), "ok 6".into()));
        }
        6 => {
            // zero arguments is an error; several arguments deliver the last one
            forms.push(("(call/cc (lambda (k) (k)))".into(), "err syntax".into()));
            forms.push((format!("(+ {} (call/cc (lambda (k) (k 1 2 {}))))", c, v), format!("ok {}", c + v)));
            forms.push(("(call/cc 5)".into(), "err syntax".into()));
            forms.push(("(procedure? (call/cc (lambda (k) k)))".into(), "ok #t".into()));
        }
        7 => {
            // generator: re-enter a loop's continuation from later forms
            forms.push((format!("(define total (let loop ((i 0) (acc 0)) (if (= i 3) acc (loop (+ i 1) (+ acc (call/cc (lambda (k) (if (= i 1) (set! kk k)) {})))))))", v), void()));
            forms.push(("total".into(), format!("ok {}", 3 * v)));
            forms.push((format!("(kk {})", w), void()));
            forms.push(("total".into(), format!("ok {}", 2 * v + w)));
            forms.push((format!("(kk {})", c), void()));
            forms.push(("total".into(), format!("ok {}", 2 * v + c)));
        }
        9 => {
            // a continuation captured DEEP (the stack has grown beyond its initial capacity), stored, the
            // capturing evaluation finishes, re-entry from later top-level forms
            let dd = if shallow { [4i64, 9, 15][(case / 12) % 3] } else { [40i64, 120, 400][(case / 12) % 3] };
            forms.push((format!("(define r (+ {} (deepcall {} (lambda () (call/cc (lambda (k) (set! kk k) {}))))))", c, dd, v), void()));
            forms.push(("r".into(), format!("ok {}", c + v)));
            forms.push(("(deepcall 3 (lambda () 1))".into(), "ok 1".into()));
            forms.push((format!("(begin (set! g (+ g 1)) (kk {}) 'never)", w), void()));
            forms.push(("r".into(), format!("ok {}", c + w)));
            forms.push((format!("(begin (kk {}) 'never)", v), void()));
            forms.push(("r".into(), format!("ok {}", c + v)));
            forms.push(("g".into(), "ok 1".into()));
        }
        10 => {
            // deep capture, then FAILING evaluations (shallow and deep), then re-entry: a failed evaluation
            // must not disturb a stored continuation
            let dd = if shallow { [4i64, 9, 15][(case / 12) % 3] } else { [60i64, 150, 300][(case / 12) % 3] };
            forms.push((format!("(define r (+ {} (deepcall {} (lambda () (call/cc (lambda (k) (set! kk k) {}))))))", c, dd, v), void()));
            forms.push(("(car 5)".into(), "err type".into()));
            forms.push(("(undefined-variable-zz 1)".into(), "err unbound".into()));
            forms.push((format!("(deepcall {} (lambda () (car '())))", dd / 2), "err type".into()));
            forms.push(("(error \"boom\" 1)".into(), "err user".into()));
            forms.push((format!("(begin (kk {}) 'never)", w), void()));
            forms.push(("r".into(), format!("ok {}", c + w)));
            forms.push(("(car 5)".into(), "err type".into()));
            forms.push((format!("(begin (kk {}) 'never)", v), void()));
            forms.push(("r".into(), format!("ok {}", c + v)));
        }
        11 => {
            // deep capture re-entered from a SHALLOW point of the same evaluation and of later ones
            let dd = if shallow { [4i64, 9, 15][(case / 12) % 3] } else { [50i64, 130, 260][(case / 12) % 3] };
            forms.push(("(define n 0)".into(), void()));
            forms.push((format!("(define r (let ((x (+ {} (deepcall {} (lambda () (call/cc (lambda (k) (set! kk k) 0))))))) (if (< n 3) (begin (set! n (+ n 1)) (kk n)) x)))", c, dd), void()));
            forms.push(("r".into(), format!("ok {}", c + 3)));
            forms.push(("n".into(), "ok 3".into()));
            forms.push(("(begin (kk 7) 'never)".into(), void()));
            forms.push(("r".into(), format!("ok {}", c + 7)));
        }
        12 => {
            // R7RS 6.10: a continuation captured in a `map` callback, re-entered after map has returned, must not
            // disturb the list the first return handed out (map may not build its result by mutation in place)
            forms.push((format!("(define r (map (lambda (x) (call/cc (lambda (k) (if (= x 2) (set! kk k)) (+ x {})))) '(1 2 3)))", c), void()));
            forms.push(("(define first r)".into(), void()));
            forms.push(("r".into(), format!("ok ({} {} {})", 1 + c, 2 + c, 3 + c)));
            forms.push((format!("(if (< g 2) (begin (set! g (+ g 1)) (kk {})) 'done)", v), void()));
            forms.push(("r".into(), format!("ok ({} {} {})", 1 + c, v, 3 + c)));
            forms.push(("first".into(), format!("ok ({} {} {})", 1 + c, 2 + c, 3 + c)));
            forms.push((format!("(if (< g 2) (begin (set! g (+ g 1)) (kk {})) 'done)", w), void()));
            forms.push(("r".into(), format!("ok ({} {} {})", 1 + c, w, 3 + c)));
            forms.push(("first".into(), format!("ok ({} {} {})", 1 + c, 2 + c, 3 + c)));
            forms.push(("(for-each (lambda (x) x) first)".into(), void()));
        }
        _ => {
            // continuation applied through apply; call/cc itself applied through apply
            forms.push((format!("(+ {} (call/cc (lambda (k) (apply k (list {})))))", c, v), format!("ok {}", c + v)));
            forms.push((format!("(+ {} (apply call/cc (list (lambda (k) (+ 100 (k {}))))))", c, v), format!("ok {}", c + v)));
            forms.push((format!("(+ {} (call/cc (lambda (k) (apply k 1 2 (list 3 {})))))", c, w), format!("ok {}", c + w)));
        }
    }
    forms
}

fn name_tok(s: &str) -> String {
    s.chars().map(|c| (c as u32).to_string()).collect::<Vec<_>>().join(".")
}

/// canonical rendering of a compiled lambda (slot operands and environment maps by symbol name)
fn render_lambda(vm: &Vm, lam: &marwood::vm::lambda::Lambda, depth: usize) -> String {
    use marwood::vm::environment::BindingSource;
    use marwood::vm::opcode::OpCode;
    use marwood::vm::vcell::VCell;
    let heap = vm.verif_heap();
    let cells = heap.verif_cells();
    let sym_name = |v: &VCell| -> String {
        match v {
            VCell::Ptr(p) => match cells.get(*p) {
                Some(VCell::Symbol(s)) => name_tok(s),
                _ => "?".into(),
            },
            _ => "?".into(),
        }
    };
    let args: Vec<String> = lam.args.iter().map(|a| sym_name(a)).collect();
    let mut env: Vec<String> = lam
        .envmap
        .get_map()
        .iter()
        .map(|(s, src)| {
            let src = match src {
                BindingSource::Global => "g".to_string(),
                BindingSource::Argument(n) => format!("a{}", n),
                BindingSource::IofArgument(n) => format!("f{}", n),
                BindingSource::IofEnvironment(_) => "e".to_string(),
                BindingSource::InternalDefinition => "i".to_string(),
            };
            format!("{}:{}", sym_name(s), src)
        })
        .collect();
    env.sort();
    let mut bc = vec![];
    let mut prev_jump = false;
    for c in &lam.bc {
        let tok = match c {
            VCell::OpCode(op) => mwv::trace::op_name(op).to_string(),
            VCell::Acc => "acc".into(),
            VCell::GlobalEnvSlot(n) => match vm.verif_globenv().get_symbol(*n) {
                Some(p) => format!("G:{}", sym_name(&VCell::Ptr(p))),
                None => "G:?".into(),
            },
            VCell::LexicalEnvSlot(n) => match lam.envmap.get_map().get(*n) {
                Some((s, _)) => format!("S:{}", sym_name(s)),
                None => "S:?".into(),
            },
            VCell::BasePointerOffset(i) => format!("R{}", i),
            VCell::ArgumentCount(n) => format!("A{}", n),
            VCell::Void => "void".into(),
            VCell::Ptr(p) if prev_jump => format!("T{}", p),
            VCell::Ptr(p) => match cells.get(*p) {
                Some(VCell::Lambda(l)) if depth < 64 => render_lambda(vm, l, depth + 1),
                Some(VCell::Macro(_)) => "M".into(),
                Some(other) => format!("D{}", enc_datum(&heap.get_as_cell(other)).replace(' ', "~")),
                None => "P?".into(),
            },
            other => format!("D{}", enc_datum(&heap.get_as_cell(other)).replace(' ', "~")),
        };
        prev_jump = matches!(c, VCell::OpCode(OpCode::Jmp) | VCell::OpCode(OpCode::Jnt));
        bc.push(tok);
    }
    format!(
        "L[args={};va={};top={};env={};bc={}]",
        args.join(","),
        lam.is_vararg as u8,
        lam.top_level as u8,
        env.join("|"),
        bc.join(",")
    )
}

fn compile_err_class(e: &marwood::error::Error) -> &'static str {
    use marwood::error::Error;
    match e {
        Error::UnquotedNil => "unquotedNil",
        Error::InvalidSyntax(_) => "invalidSyntax",
        Error::InvalidUsePrimitive(_) => "invalidUsePrimitive",
        Error::InvalidNumArgs(_) => "invalidNumArgs",
        Error::InvalidArgs(_, _, _) => "invalidArgs",
        Error::ExpectedPairButFound(_) => "expectedPair",
        Error::LambdaMissingExpression => "lambdaMissingExpression",
        _ => "other",
    }
}

fn main() {
    silence_panics();
    let args: Vec<String> = std::env::args().collect();
    let cmd = args.get(1).map(|s| s.as_str()).unwrap_or("");
    let out = std::io::stdout();
    let mut out = std::io::BufWriter::new(out.lock());
    match cmd {
        // C13: sliced vs uninterrupted. For each session: VM A runs every form uninterrupted, VM B
        // runs it in slices under a budget schedule.
        //  * correspondence of the loop: `slices <k> <h|f> <b1,b2,…>` — the model predicts the
        //    sequence of (pause/done/error, instructions) for a run of k instructions
        //  * oracle: outcome, output log and globals equal
        "sliced" => {
            let n: usize = args[2].parse().unwrap();
            let mut g = Gen::new(seed());
            let mut sched = Rng::new(seed() ^ 0x13);
            let mut crng = Rng::new(seed() ^ 0x5c05);
            for case in 0..n {
                // every fifth session is a continuation scenario (deep captures, re-entry across forms, failures
                // in between); every seventh has failing forms injected at depth, so that a failure can fall
                // into any slice; the others are generated sessions of the C01/C05 grammar
                let (texts, names): (Vec<String>, Vec<String>) = if case % 5 == 4 {
                    let t: Vec<String> = cont_scenario(case / 5, &mut crng).into_iter().map(|(f, _)| f).collect();
                    (t, vec!["g".to_string()])
                } else {
                    let forms = g.session(2 + (case % 6), 1 + case % 3);
                    let names = defined_names(&forms);
                    let mut t: Vec<String> = forms.iter().map(|f| f.render()).collect();
                    if case % 7 == 3 {
                        let sc = Scope::default();
                        let (fail, _class) = g.failing_expr(&sc);
                        let d = 1 + sched.below(40);
                        t.insert(0, "(define (deepf n x) (if (= n 0) (x) (+ 0 (deepf (- n 1) x))))".to_string());
                        let pos = 1 + sched.below(t.len() as u64) as usize;
                        t.insert(pos.min(t.len()), format!("(deepf {} (lambda () {}))", d, fail.render()));
                        t.push("(deepf 3 (lambda () (car 0)))".to_string());
                    }
                    (t, names)
                };
                // schedule kind: constant 1..64, or random in 1..10^4
                let constant = if case % 3 != 2 { Some(1 + sched.below(64) as usize) } else { None };
                let (mut va, la) = new_vm();
                let (mut vb, lb) = new_vm();
                FORCE_GC_AT_SLICE.store(case % 4 == 1, std::sync::atomic::Ordering::Relaxed);
                REJECTED_FORM_AT_SLICE.store(case % 5 == 2, std::sync::atomic::Ordering::Relaxed);
                let mut dead = false;
                for text in &texts {
                    if std::env::var("VERIF_DEBUG_CASE").is_ok() {
                        eprintln!("case {} form {}", case, text);
                    }
                    let before = va.verif_state().instructions;
                    let ra = eval_obs(&mut va, text);
                    let k = va.verif_state().instructions - before;
                    let mut used = vec![];
                    let mut next = || {
                        let b = match constant {
                            Some(c) => c,
                            None => 1 + sched.below(10_000) as usize,
                        };
                        used.push(b);
                        b
                    };
                    let sl = mwv::wire::catch(std::panic::AssertUnwindSafe(|| run_sliced(&mut vb, text, &mut next, 400_000)));
                    let (rb, slices) = match sl {
                        Ok(x) => x,
                        Err(_) => ("panic".to_string(), vec![]),
                    };
                    writeln!(out, "#oracle sliced-outcome {}\t{}\t{}", oneline(text), oneline(&rb), oneline(&ra)).unwrap();
                    if ra == "panic" || rb == "panic" {
                        dead = true;
                        break;
                    }
                    // registers, stack capacity and the trace of the last failure are part of the state a later
                    // evaluation starts from: equal in both VMs after every form
                    let st = |vm: &Vm| {
                        let (_acc, ep, _ip, bp) = vm.verif_regs();
                        format!("sp={} bp={} ep={} cap={} trace={}", vm.verif_stack().get_sp(), bp,
                            if ep == usize::MAX { "max".to_string() } else { "set".to_string() },
                            vm.verif_stack().verif_slots().len(),
                            vm.last_stacktrace().map(|t| t.frames.len()).unwrap_or(0))
                    };
                    writeln!(out, "#oracle sliced-state {}\t{}\t{}", oneline(text), st(&vb), st(&va)).unwrap();
                    if !slices.is_empty() {
                        let kind = if ra.starts_with("ok") { "h" } else { "f" };
                        let bs: Vec<String> = used.iter().map(|b| b.to_string()).collect();
                        let obs: Vec<String> = slices.iter().map(|(c, n)| format!("{}{}", c, n)).collect();
                        writeln!(out, "slices {} {} {}\tok {}", k, kind, bs.join(","), obs.join(" ")).unwrap();
                    }
                }
                if dead {
                    continue;
                }
                let oa = la.borrow().join("|");
                let ob = lb.borrow().join("|");
                writeln!(out, "#oracle sliced-output case{}\t{}\t{}", case, oneline(&ob), oneline(&oa)).unwrap();
                let ga = globals_digest(&mut va, &names);
                let gb = globals_digest(&mut vb, &names);
                writeln!(out, "#oracle sliced-globals case{}\t{}\t{}", case, oneline(&gb), oneline(&ga)).unwrap();
            }
            eprintln!("features: {:?}", g.features);
        }
        // lock-step: every instruction of generated sessions as one transition check
        "trace" => {
            let n: usize = args[2].parse().unwrap();
            let inject = args.get(3).map(|s| s == "fail").unwrap_or(false);
            let mut g = Gen::new(seed() ^ 0x7ace);
            let mut total = 0usize;
            for case in 0..n {
                if inject && case % 2 == 1 {
                    let sc = Scope::default();
                    let (e, _) = g.failing_expr(&sc);
                    g.inject = Some((g.int_calls + 1 + (case % 7), e));
                }
                let forms: Vec<String> = if args.get(3).map(|s| s == "conts").unwrap_or(false) {
                    SHALLOW.store(true, std::sync::atomic::Ordering::Relaxed);
                    cont_scenario(case, &mut g.rng).into_iter().map(|(f, _)| f).collect()
                } else {
                    g.session(2 + (case % 5), 1 + case % 3).iter().map(|f| f.render()).collect()
                };
                g.inject = None;
                let (mut vm, _log) = new_vm();
                for f in &forms {
                    let text = f.clone();
                    let cell = match marwood::parse::parse_text(&text) {
                        Ok((c, _)) => c,
                        Err(_) => continue,
                    };
                    if vm.prepare_eval(&cell).is_err() {
                        continue;
                    }
                    let mut steps = 0;
                    loop {
                        steps += 1;
                        if steps > 20000 {
                            break;
                        }
                        let pre = mwv::trace::state(&vm);
                        let fx = mwv::trace::facts(&vm);
                        let accpre = vm.verif_regs().0.clone();
                        let r = vm.verif_step();
                        let post = mwv::trace::post(&vm, &r);
                        if let Some((facts, op)) = fx {
                            use marwood::vm::opcode::OpCode;
                            let mut extra = String::new();
                            let is_call = matches!(op, OpCode::CallAcc | OpCode::TCallAcc);
                            let callee_is_builtin = facts.contains("callee=X/");
                            let generic_or_eval = facts.contains("/generic") || facts.contains("/eval");
                            if (is_call && callee_is_builtin && generic_or_eval) || matches!(op, OpCode::ClosureAcc) {
                                match &r {
                                    Ok(_) => {
                                        if is_call {
                                            extra = format!(" bres=ok:{}", mwv::trace::cell(vm.verif_regs().0));
                                        }
                                    }
                                    Err(e) => extra = format!(" bres=err:{}", mwv::trace::err_name(e)),
                                }
                            }
                            let _ = accpre;
                            writeln!(out, "step {} {}{}\t{}", pre, facts, extra, post).unwrap();
                            total += 1;
                        }
                        match r {
                            Ok(true) | Err(_) => break,
                            Ok(false) => {}
                        }
                    }
                }
            }
            eprintln!("steps: {} features: {:?}", total, g.features);
        }
        // C07: a failed evaluation leaves no trace beyond its completed effects.
        // VM A runs forms whose hole is a failing expression, VM B the same forms with a benign
        // hole (all side effects of a form happen before the hole is evaluated, the context
        // around the hole is pure), then both run the same probe suite.
        "errtrace" => {
            let n: usize = args[2].parse().unwrap();
            let mut g = Gen::new(seed() ^ 0xe07);
            for case in 0..n {
                let (mut va, la) = new_vm();
                let (mut vb, lb) = new_vm();
                let mut sc = Scope::default();
                let mut names: Vec<String> = vec![];
                // shared prologue: definitions
                let mut prologue = vec![];
                for _ in 0..(2 + case % 4) {
                    prologue.push(g.definition(&mut sc, 1 + case % 2));
                }
                prologue.push(l(vec![a("define"), a("eff"), int(0)]));
                prologue.push(a("(define (idf x) x)"));
                prologue.push(a("(define (deep n x) (if (= n 0) x (+ 0 (deep (- n 1) x))))"));
                // a continuation captured deep before the failures, re-entered by the probes after them
                prologue.push(a("(define kk0 #f)"));
                prologue.push(a("(define (deepk n) (if (= n 0) (call/cc (lambda (k) (set! kk0 k) 1)) (+ 0 (deepk (- n 1)))))"));
                prologue.push(a(&format!("(define r0 (deepk {}))", [5, 70, 140][case % 3])));
                // a forward reference to a global that is defined only AFTER the failures (compiled code refers to
                // the binding created at compile time), and a procedure whose name a `define-syntax` placed after
                // the failure point of the failing form would take over if it took effect before being evaluated
                prologue.push(a("(define (fwd n) (* n fwdvar))"));
                prologue.push(a("(define (mm x) (+ x 1))"));
                names.extend(defined_names(&prologue));
                for f in &prologue {
                    let t = f.render();
                    let _ = eval_form(&mut va, &t);
                    let _ = eval_form(&mut vb, &t);
                }
                // failing forms: k repetitions of (begin effects (ctx[HOLE]))
                let k = match case % 5 { 0 => 1, 1 => 2, 2 => 10, 3 => 3, _ => if case % 25 == 4 { 1000 } else { 5 } };
                let (fail, class) = g.failing_expr(&sc);
                let depth = g.rng.below(6) as usize;
                let ctx = |hole: Sx, g: &mut Gen| -> Sx {
                    let mut e = hole;
                    for d in 0..depth {
                        e = match (d + case) % 6 {
                            0 => l(vec![a("+"), int(1), e]),
                            1 => l(vec![a("idf"), e]),
                            2 => l(vec![a("let"), l(vec![l(vec![a("hx"), e])]), a("hx")]),
                            3 => l(vec![a("car"), l(vec![a("list"), e])]),
                            4 => { let dn = if g.rng.chance(1, 4) { g.rng.range(60, 160) } else { g.rng.range(1, 12) }; l(vec![a("deep"), int(dn), e]) }
                            _ => l(vec![a("call/cc"), l(vec![a("lambda"), l(vec![a("hk")]), l(vec![a("+"), int(0), e])])]),
                        };
                    }
                    e
                };
                let mut g2 = Gen::new(seed() ^ (case as u64) ^ 0x55);
                let fa = ctx(fail.clone(), &mut g2);
                let mut g3 = Gen::new(seed() ^ (case as u64) ^ 0x55);
                let fb = ctx(int(0), &mut g3);
                let eff = l(vec![a("set!"), a("eff"), l(vec![a("+"), a("eff"), int(1)])]);
                let mut form_a = if case % 3 == 0 {
                    // definitions the failing form never reaches
                    l(vec![a("begin"), eff.clone(), fa,
                           a("(define-syntax mm (syntax-rules () ((_ x) (- x 1))))"),
                           a("(define-syntax mm2 (syntax-rules () ((_ x) (- x 2))))"),
                           a("(define fwdvar 1000)")]).render()
                } else {
                    l(vec![a("begin"), eff.clone(), fa]).render()
                };
                let mut form_b = l(vec![a("begin"), eff, fb]).render();
                let mut class = class;
                if case % 3 == 0 {
                    // marwood accepts define-syntax at top level only: the whole form is rejected by the compiler
                    class = "syntax";
                }
                if class == "syntax" {
                    // compile-time failure: no instruction of the form runs, nothing is completed
                    form_b = "0".to_string();
                }
                if case % 11 == 10 {
                    // read error: nothing of the form is evaluated, so nothing is completed
                    form_a = "(begin (set! eff (+ eff 1)) (car 1".to_string();
                    form_b = "0".to_string();
                    class = "parse-incomplete";
                }
                let mut first = String::new();
                for i in 0..k {
                    // a quarter of the sessions run the failing form through the sliced entry point
                    // (prepare_eval + run_count with a small budget), so that the failure falls into a later slice
                    let ra = if case % 4 == 1 {
                        let b = 3 + (case % 17);
                        run_sliced(&mut va, &form_a, &mut || b, 2_000_000).0
                    } else {
                        render(&eval_form(&mut va, &form_a))
                    };
                    let _ = eval_form(&mut vb, &form_b);
                    if i == 0 {
                        first = ra.clone();
                    }
                    // registers right after the failure vs the model of the error epilogue
                    if (i == 0 || i == k - 1) && class != "syntax" && class != "parse-incomplete" {
                        let cap = va.verif_stack().verif_slots().len();
                        let alld = va.verif_stack().verif_slots().iter().all(|c| matches!(c, marwood::vm::vcell::VCell::Undefined));
                        let (acc, ep, _ip, bp) = va.verif_regs();
                        writeln!(out, "errstate {}\tok sp={} bp={} ep={} acc={} allundef={} cap={}", cap,
                            va.verif_stack().get_sp(), bp, if ep == usize::MAX { "max".to_string() } else { ep.to_string() },
                            mwv::trace::cell(acc), alld as u8, cap).unwrap();
                    }
                }
                writeln!(out, "#oracle fails-as-intended {} {}\t{}\terr {}", class, oneline(&form_a), first, class).unwrap();
                // failing DEFINITIONS of names that are currently macros (run-time failure of the value expression, a
                // rejected procedure definition): nothing was defined, so the macros must still be there (seed C07f-1)
                if case % 3 == 1 {
                    for bad in ["(define when (car 5))", "(define (unless q) (if))", "(define cond (vector-ref (vector) 1))"] {
                        if eval_form(&mut va, bad).is_ok() {
                            writeln!(out, "#oracle failing-definition-fails {}\tok\terr", bad).unwrap();
                        }
                    }
                }
                // probe suite
                let mut probes: Vec<String> = names.iter().cloned().collect();
                probes.push("eff".into());
                probes.push(g.int_expr(&sc, 2).render());
                probes.push(g.list_expr(&sc, 2).render());
                // re-entry of the continuation stored before the failures — BEFORE the failing probe, so that the
                // twin VM has seen no failure at all when it re-enters
                probes.push("(begin (kk0 41) 'never)".into());
                probes.push("r0".into());
                probes.push("(mm 5)".into());
                probes.push("(when (< 1 2) 7)".into());
                probes.push("(unless (< 2 1) 8)".into());
                probes.push("(cond ((< 2 1) 1) (else 9))".into());
                probes.push("(procedure? mm)".into());
                probes.push("(define fwdvar 3)".into());
                probes.push("(fwd 4)".into());
                probes.push("(deep 3 (quote x))".into()); // a failing probe: compares stack traces
                probes.push("(deep 5 7)".into());
                let mut oa = vec![];
                let mut ob = vec![];
                for p in &probes {
                    let ra = eval_obs(&mut va, p);
                    let rb = eval_obs(&mut vb, p);
                    let ta = va.last_stacktrace().map(|t| t.frames.len()).unwrap_or(0);
                    let tb = vb.last_stacktrace().map(|t| t.frames.len()).unwrap_or(0);
                    oa.push(format!("{}#{}", ra, ta));
                    ob.push(format!("{}#{}", rb, tb));
                    if ra == "panic" || rb == "panic" {
                        break;
                    }
                }
                // (the stack capacity is deliberately not compared: the twin evaluates the whole context, the
                // failing VM stops at the failing sub-expression, so their high-water marks legitimately differ)
                oa.push(format!("sp={}", va.verif_stack().get_sp()));
                ob.push(format!("sp={}", vb.verif_stack().get_sp()));
                oa.push(la.borrow().join("|"));
                ob.push(lb.borrow().join("|"));
                writeln!(out, "#oracle after-failures k={} class={} {}\t{}\t{}", k, class, oneline(&form_a), oneline(&oa.join(" ; ")), oneline(&ob.join(" ; "))).unwrap();
            }
        }
        // compiler model vs real compiler on macro-expanded forms
        "compile" => {
            let n: usize = args[2].parse().unwrap();
            let mut g = Gen::new(seed() ^ 0xc0de);
            let (mut vm, _l) = new_vm();
            let malformed = [
                "(if)", "(if 1)", "(if 1 2 3 4)", "(if . 1)", "(lambda)", "(lambda (x))", "(lambda (1) 2)",
                "(lambda (x . 2) x)", "(define)", "(define x)", "(define x 1 2)", "(define 1 2)", "(set! 1 2)",
                "(set! x)", "(set! x 1 2)", "()", "(quote)", "(quasiquote)", "(define (if) 1)", "(lambda (quote) 1)",
                "(set! if 1)", "if", "(define (f . lambda) 1)", "(lambda x x)", "(lambda (a . r) (cons a r))",
                "(quasiquote (1 (unquote (+ 1 2)) (quasiquote (a (unquote (unquote x))))))",
                "(quasiquote #(1 (unquote x) #(2)))", "(quasiquote (a . (unquote b)))", "(quasiquote (unquote))",
                "((lambda (a b) (define c (+ a b)) (define (d) c) (lambda () (set! a (d)) (+ a b))) 1 2)",
                "(lambda (x) (lambda (y) (lambda (z) (+ x y z))))",
                "(lambda (x) (define x 1) x)", "(lambda (x) x (define y 2) y)", "(λ (x) (λ (y) (+ x y)))",
                "(f 1 . 2)", "(1 2 3)", "\"str\"", "#\\a", "#(1 2)", "1.5", "#t",
            ];
            let mut texts: Vec<String> = malformed.iter().map(|s| s.to_string()).collect();
            for case in 0..n {
                for f in g.session(1 + case % 4, 1 + case % 4) {
                    texts.push(f.render());
                }
            }
            for text in texts {
                let cell = match marwood::parse::parse_text(&text) {
                    Ok((c, _)) => c,
                    Err(_) => continue,
                };
                let expanded = match vm.transform(&cell) {
                    Ok(c) => c,
                    Err(_) => continue,
                };
                let req = format!("compile {}", enc_datum(&expanded));
                let resp = match vm.prepare_eval(&expanded) {
                    Err(e) => format!("err {}", compile_err_class(&e)),
                    Ok(()) => {
                        use marwood::vm::vcell::VCell;
                        let ip = vm.verif_regs().2;
                        let cells = vm.verif_heap().verif_cells();
                        let entry = match &cells[ip.0] { VCell::Lambda(l) => l.clone(), _ => continue };
                        // entry: PUSH-IMM argc0; MOV-IMM <lambda> acc; CALL; HALT
                        let inner = match entry.bc.get(3) {
                            Some(VCell::Ptr(p)) => match &cells[*p] { VCell::Lambda(l) => l.clone(), _ => continue },
                            _ => continue,
                        };
                        format!("ok {}", render_lambda(&vm, &inner, 0))
                    }
                };
                writeln!(out, "{}\t{}", req, resp).unwrap();
            }
        }
        // C04: loops of tail calls through composed tail contexts, arities, variadics, mutual
        // recursion: stack high-water mark must not depend on the iteration count.
        "tailloops" => {
            let n: usize = args[2].parse().unwrap();
            let big: usize = args.get(3).map(|s| s.parse().unwrap()).unwrap_or(20000);
            let mut rng = Rng::new(seed() ^ 0x7a11);
            let ctxs: Vec<(&str, &str)> = vec![
                ("", ""),
                ("(if #t ", " 0)"),
                ("(if #f 0 ", ")"),
                ("(cond (#f 0) (else ", "))"),
                ("(cond ((= 1 1) ", "))"),
                ("(cond ((= 1 2) 0) ((= 1 1) ", ") (else 1))"),
                ("(case 1 ((1) ", ") (else 0))"),
                ("(case 2 ((1) 0) (else ", "))"),
                ("(and #t ", ")"),
                ("(or #f ", ")"),
                ("(when #t 1 ", ")"),
                ("(unless #f 1 ", ")"),
                ("(let ((z 1)) ", ")"),
                ("(let* ((z 1) (w z)) ", ")"),
                ("(letrec ((z 1)) ", ")"),
                ("(begin 1 ", ")"),
                ("((lambda () ", "))"),
                ("(let lp ((q 0)) (if (< q 1) (lp (+ q 1)) ", "))"),
            ];
            for case in 0..n {
                let m = 1 + rng.below(3) as usize; // number of procedures in the cycle
                let mut defs = vec![];
                let mut arity = vec![];
                let mut variadic = vec![];
                for _ in 0..m {
                    arity.push(rng.below(5) as usize);
                    variadic.push(rng.chance(1, 3));
                }
                for i in 0..m {
                    let next = (i + 1) % m;
                    // call form to the next procedure: direct, apply, call/cc or eval
                    let nargs = arity[next] + if variadic[next] { rng.below(3) as usize } else { 0 };
                    let argv: Vec<String> = (0..nargs).map(|k| format!("{}", k)).collect();
                    let call = match rng.below(8) {
                        0 => format!("(apply L{} (list {}))", next, argv.join(" ")),
                        1 if nargs >= 1 => format!("(apply L{} {} (list {}))", next, argv[0], argv[1..].join(" ")),
                        2 => format!("(call/cc (lambda (kq) (L{} {})))", next, argv.join(" ")),
                        3 => format!("(eval (list 'L{} {}))", next, argv.join(" ")),
                        _ => format!("(L{} {})", next, argv.join(" ")),
                    };
                    let mut body = call;
                    let depth = rng.below(4);
                    for _ in 0..depth {
                        let (pre, post) = ctxs[rng.below(ctxs.len() as u64) as usize];
                        body = format!("{}{}{}", pre, body, post);
                    }
                    let params: Vec<String> = (0..arity[i]).map(|k| format!("a{}", k)).collect();
                    let head = if variadic[i] {
                        format!("(L{} {} . rest)", i, params.join(" "))
                    } else {
                        format!("(L{} {})", i, params.join(" "))
                    };
                    defs.push(format!(
                        "(define {} (if (= cnt 0) iters (begin (set! cnt (- cnt 1)) (set! iters (+ iters 1)) {})))",
                        head, body
                    ));
                }
                let (mut vm, _l) = new_vm();
                let _ = eval_form(&mut vm, "(define cnt 0)");
                let _ = eval_form(&mut vm, "(define iters 0)");
                for d in &defs {
                    let _ = eval_form(&mut vm, d);
                }
                let start_args: Vec<String> = (0..arity[0] + if variadic[0] { 1 } else { 0 }).map(|k| k.to_string()).collect();
                let mut obs = vec![];
                let uses_eval = defs.iter().any(|d| d.contains("(eval "));
                let sizes = [10usize, 1000, if uses_eval { big.min(5000) } else { big }];
                for &k in &sizes {
                    let _ = eval_form(&mut vm, &format!("(set! cnt {})", k));
                    let _ = eval_form(&mut vm, "(set! iters 0)");
                    // warm the entry so the measurement covers the loop only
                    let cell = marwood::parse::parse_text(&format!("(L0 {})", start_args.join(" "))).unwrap().0;
                    vm.prepare_eval(&cell).unwrap();
                    let r = vm.run();
                    // max_sp is tracked by the Stack; reset happens through a fresh measurement below
                    let hw = vm.verif_stack().verif_max_sp();
                    obs.push((k, render(&r), hw));
                    // the stack already grew between n = 10 and n = 10^3: that is the violation; the big run
                    // would only repeat it (with call/cc in the loop it copies an ever larger stack per
                    // iteration and takes gigabytes), so it is skipped
                    if obs.len() == 2 && obs[1].2 > obs[0].2 {
                        obs.push((sizes[2], "skipped-after-growth".to_string(), hw));
                        break;
                    }
                }
                // max_sp is monotone over the VM's life: equal values for n = 10, 10^3, big mean the
                // larger runs did not exceed the smallest one's high-water mark
                let expected = format!("ok {} hw={} | ok {} hw={} | ok {} hw={}", sizes[0], obs[0].2, sizes[1], obs[0].2, sizes[2], obs[0].2);
                let observed = format!("{} hw={} | {} hw={} | {} hw={}", obs[0].1, obs[0].2, obs[1].1, obs[1].2, obs[2].1, obs[2].2);
                writeln!(out, "#oracle tail-hwm {}\t{}\t{}", oneline(&defs.join(" ")), observed, expected).unwrap();
            }
        }
        // C05: continuation scenarios against their closed-form expectations
        "conts" => {
            let n: usize = args[2].parse().unwrap();
            let mut rng = Rng::new(seed() ^ 0xc05);
            for case in 0..n {
                let (mut vm, _log) = new_vm();
                for (f, exp) in cont_scenario(case, &mut rng) {
                    let r = eval_obs(&mut vm, &f);
                    writeln!(out, "#oracle callcc case{} {}\t{}\t{}", case % 13, oneline(&f), oneline(&r), oneline(&exp)).unwrap();
                    if r == "panic" {
                        break; // the VM is not usable after a panic
                    }
                }
            }
        }
        _ => {
            eprintln!("usage: vm sliced N | trace N [fail|conts] | errtrace N | compile N | tailloops N [BIG] | conts N");
            std::process::exit(2);
        }
    }
}
