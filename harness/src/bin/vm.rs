//! Correspondence / oracle generators for the machine-level properties (C13, C07, C04, C05, …).
//! Output lines: `request \t impl-response [\t spec-request]`, or
//! `#oracle <label> \t observed \t expected` for implementation-vs-implementation oracles.
use marwood::vm::Vm;
use mwv::progs::*;
use mwv::rng::Rng;
use mwv::session::*;
use mwv::wire::*;
use std::io::Write;

fn seed() -> u64 {
    std::env::var("VERIF_SEED").ok().and_then(|s| s.parse().ok()).unwrap_or(1)
}

/// run one form uninterrupted; returns (rendered outcome, instructions executed)
fn run_uninterrupted(vm: &mut Vm, text: &str) -> (String, u64) {
    let before = vm.verif_state().instructions;
    let r = eval_form(vm, text);
    let n = vm.verif_state().instructions - before;
    (render(&r), n)
}

/// run one form in slices; returns (rendered outcome, per-slice (kind, instructions))
fn run_sliced(vm: &mut Vm, text: &str, budgets: &mut dyn FnMut() -> usize, max_slices: usize)
    -> (String, Vec<(char, u64)>) {
    let mut slices = vec![];
    let cell = match marwood::parse::parse_text(text) {
        Ok((c, _)) => c,
        Err(e) => return (format!("err {}", error_class(&e.into())), slices),
    };
    if let Err(e) = vm.prepare_eval(&cell) {
        return (format!("err {}", error_class(&e)), slices);
    }
    for _ in 0..max_slices {
        let b = budgets();
        let before = vm.verif_state().instructions;
        let r = vm.run_count(b);
        let n = vm.verif_state().instructions - before;
        match r {
            Ok(None) => slices.push(('p', n)),
            Ok(Some(c)) => {
                slices.push(('d', n));
                return (format!("ok {:#}", c), slices);
            }
            Err(e) => {
                slices.push(('e', n));
                return (format!("err {}", error_class(&e)), slices);
            }
        }
    }
    ("no-completion".into(), slices)
}

fn globals_digest(vm: &mut Vm, names: &[String]) -> String {
    // value of every global the session defined, read through the evaluator
    let mut out = vec![];
    for n in names {
        let r = eval_form(vm, n);
        out.push(format!("{}={}", n, render(&r)));
    }
    out.join(";")
}

fn defined_names(forms: &[Sx]) -> Vec<String> {
    let mut v = vec![];
    for f in forms {
        if let Sx::L(items) = f {
            if items.len() >= 2 {
                if let Sx::A(h) = &items[0] {
                    if h == "define" {
                        match &items[1] {
                            Sx::A(n) => {
                                let n = n.trim_start_matches('(').split(' ').next().unwrap().to_string();
                                if !v.contains(&n) {
                                    v.push(n)
                                }
                            }
                            Sx::L(h) => {
                                if let Some(Sx::A(n)) = h.first() {
                                    if !v.contains(n) {
                                        v.push(n.clone())
                                    }
                                }
                            }
                        }
                    }
                }
            }
        }
    }
    v
}

fn main() {
    silence_panics();
    let args: Vec<String> = std::env::args().collect();
    let cmd = args.get(1).map(|s| s.as_str()).unwrap_or("");
    let out = std::io::stdout();
    let mut out = std::io::BufWriter::new(out.lock());
    match cmd {
        // C13: sliced vs uninterrupted. For each session: VM A runs every form uninterrupted, VM B
        // runs it in slices under a budget schedule.
        //  * correspondence of the loop: `slices <k> <h|f> <b1,b2,…>` — the model predicts the
        //    sequence of (pause/done/error, instructions) for a run of k instructions
        //  * oracle: outcome, output log and globals equal
        "sliced" => {
            let n: usize = args[2].parse().unwrap();
            let mut g = Gen::new(seed());
            let mut sched = Rng::new(seed() ^ 0x13);
            for case in 0..n {
                let forms = g.session(2 + (case % 6), 1 + case % 3);
                let names = defined_names(&forms);
                // schedule kind: constant 1..64, or random in 1..10^4
                let constant = if case % 3 != 2 { Some(1 + sched.below(64) as usize) } else { None };
                let (mut va, la) = new_vm();
                let (mut vb, lb) = new_vm();
                for f in &forms {
                    let text = f.render();
                    let (ra, k) = run_uninterrupted(&mut va, &text);
                    let mut used = vec![];
                    let mut next = || {
                        let b = match constant {
                            Some(c) => c,
                            None => 1 + sched.below(10_000) as usize,
                        };
                        used.push(b);
                        b
                    };
                    let (rb, slices) = run_sliced(&mut vb, &text, &mut next, 200_000);
                    writeln!(out, "#oracle sliced-outcome {}\t{}\t{}", oneline(&text), oneline(&rb), oneline(&ra)).unwrap();
                    if !slices.is_empty() {
                        let kind = if ra.starts_with("ok") { "h" } else { "f" };
                        let bs: Vec<String> = used.iter().map(|b| b.to_string()).collect();
                        let obs: Vec<String> = slices.iter().map(|(c, n)| format!("{}{}", c, n)).collect();
                        writeln!(out, "slices {} {} {}\tok {}", k, kind, bs.join(","), obs.join(" ")).unwrap();
                    }
                }
                let oa = la.borrow().join("|");
                let ob = lb.borrow().join("|");
                writeln!(out, "#oracle sliced-output case{}\t{}\t{}", case, oneline(&ob), oneline(&oa)).unwrap();
                let ga = globals_digest(&mut va, &names);
                let gb = globals_digest(&mut vb, &names);
                writeln!(out, "#oracle sliced-globals case{}\t{}\t{}", case, oneline(&gb), oneline(&ga)).unwrap();
            }
            eprintln!("features: {:?}", g.features);
        }
        // lock-step: every instruction of generated sessions as one transition check
        "trace" => {
            let n: usize = args[2].parse().unwrap();
            let inject = args.get(3).map(|s| s == "fail").unwrap_or(false);
            let mut g = Gen::new(seed() ^ 0x7ace);
            let mut total = 0usize;
            for case in 0..n {
                if inject && case % 2 == 1 {
                    let sc = Scope::default();
                    let (e, _) = g.failing_expr(&sc);
                    g.inject = Some((g.int_calls + 1 + (case % 7), e));
                }
                let forms = g.session(2 + (case % 5), 1 + case % 3);
                g.inject = None;
                let (mut vm, _log) = new_vm();
                for f in &forms {
                    let text = f.render();
                    let cell = match marwood::parse::parse_text(&text) {
                        Ok((c, _)) => c,
                        Err(_) => continue,
                    };
                    if vm.prepare_eval(&cell).is_err() {
                        continue;
                    }
                    let mut steps = 0;
                    loop {
                        steps += 1;
                        if steps > 20000 {
                            break;
                        }
                        let pre = mwv::trace::state(&vm);
                        let fx = mwv::trace::facts(&vm);
                        let accpre = vm.verif_regs().0.clone();
                        let r = vm.verif_step();
                        let post = mwv::trace::post(&vm, &r);
                        if let Some((facts, op)) = fx {
                            use marwood::vm::opcode::OpCode;
                            let mut extra = String::new();
                            let is_call = matches!(op, OpCode::CallAcc | OpCode::TCallAcc);
                            let callee_is_builtin = facts.contains("callee=X/");
                            let generic_or_eval = facts.contains("/generic") || facts.contains("/eval");
                            if (is_call && callee_is_builtin && generic_or_eval) || matches!(op, OpCode::ClosureAcc) {
                                match &r {
                                    Ok(_) => {
                                        if is_call {
                                            extra = format!(" bres=ok:{}", mwv::trace::cell(vm.verif_regs().0));
                                        }
                                    }
                                    Err(e) => extra = format!(" bres=err:{}", mwv::trace::err_name(e)),
                                }
                            }
                            let _ = accpre;
                            writeln!(out, "step {} {}{}\t{}", pre, facts, extra, post).unwrap();
                            total += 1;
                        }
                        match r {
                            Ok(true) | Err(_) => break,
                            Ok(false) => {}
                        }
                    }
                }
            }
            eprintln!("steps: {} features: {:?}", total, g.features);
        }
        // C07: a failed evaluation leaves no trace beyond its completed effects.
        // VM A runs forms whose hole is a failing expression, VM B the same forms with a benign
        // hole (all side effects of a form happen before the hole is evaluated, the context
        // around the hole is pure), then both run the same probe suite.
        "errtrace" => {
            let n: usize = args[2].parse().unwrap();
            let mut g = Gen::new(seed() ^ 0xe07);
            for case in 0..n {
                let (mut va, la) = new_vm();
                let (mut vb, lb) = new_vm();
                let mut sc = Scope::default();
                let mut names: Vec<String> = vec![];
                // shared prologue: definitions
                let mut prologue = vec![];
                for _ in 0..(2 + case % 4) {
                    prologue.push(g.definition(&mut sc, 1 + case % 2));
                }
                prologue.push(l(vec![a("define"), a("eff"), int(0)]));
                prologue.push(a("(define (idf x) x)"));
                prologue.push(a("(define (deep n x) (if (= n 0) x (+ 0 (deep (- n 1) x))))"));
                names.extend(defined_names(&prologue));
                for f in &prologue {
                    let t = f.render();
                    let _ = eval_form(&mut va, &t);
                    let _ = eval_form(&mut vb, &t);
                }
                // failing forms: k repetitions of (begin effects (ctx[HOLE]))
                let k = match case % 5 { 0 => 1, 1 => 2, 2 => 10, 3 => 3, _ => if case % 25 == 4 { 1000 } else { 5 } };
                let (fail, class) = g.failing_expr(&sc);
                let depth = g.rng.below(6) as usize;
                let ctx = |hole: Sx, g: &mut Gen| -> Sx {
                    let mut e = hole;
                    for d in 0..depth {
                        e = match (d + case) % 6 {
                            0 => l(vec![a("+"), int(1), e]),
                            1 => l(vec![a("idf"), e]),
                            2 => l(vec![a("let"), l(vec![l(vec![a("hx"), e])]), a("hx")]),
                            3 => l(vec![a("car"), l(vec![a("list"), e])]),
                            4 => l(vec![a("deep"), int(g.rng.range(1, 12)), e]),
                            _ => l(vec![a("call/cc"), l(vec![a("lambda"), l(vec![a("hk")]), l(vec![a("+"), int(0), e])])]),
                        };
                    }
                    e
                };
                let mut g2 = Gen::new(seed() ^ (case as u64) ^ 0x55);
                let fa = ctx(fail.clone(), &mut g2);
                let mut g3 = Gen::new(seed() ^ (case as u64) ^ 0x55);
                let fb = ctx(int(0), &mut g3);
                let eff = l(vec![a("set!"), a("eff"), l(vec![a("+"), a("eff"), int(1)])]);
                let mut form_a = l(vec![a("begin"), eff.clone(), fa]).render();
                let mut form_b = l(vec![a("begin"), eff, fb]).render();
                let mut class = class;
                if class == "syntax" {
                    // compile-time failure: no instruction of the form runs, nothing is completed
                    form_b = "0".to_string();
                }
                if case % 11 == 10 {
                    // read error: nothing of the form is evaluated, so nothing is completed
                    form_a = "(begin (set! eff (+ eff 1)) (car 1".to_string();
                    form_b = "0".to_string();
                    class = "parse-incomplete";
                }
                let mut first = String::new();
                for i in 0..k {
                    let ra = eval_form(&mut va, &form_a);
                    let _ = eval_form(&mut vb, &form_b);
                    if i == 0 {
                        first = render(&ra);
                    }
                    // registers right after the failure vs the model of the error epilogue
                    if (i == 0 || i == k - 1) && class != "syntax" && class != "parse-incomplete" {
                        let cap = va.verif_stack().verif_slots().len();
                        let alld = va.verif_stack().verif_slots().iter().all(|c| matches!(c, marwood::vm::vcell::VCell::Undefined));
                        let (acc, ep, _ip, bp) = va.verif_regs();
                        writeln!(out, "errstate {}\tok sp={} bp={} ep={} acc={} allundef={} cap={}", cap,
                            va.verif_stack().get_sp(), bp, if ep == usize::MAX { "max".to_string() } else { ep.to_string() },
                            mwv::trace::cell(acc), alld as u8, cap).unwrap();
                    }
                }
                writeln!(out, "#oracle fails-as-intended {} {}\t{}\terr {}", class, oneline(&form_a), first, class).unwrap();
                // probe suite
                let mut probes: Vec<String> = names.iter().cloned().collect();
                probes.push("eff".into());
                probes.push(g.int_expr(&sc, 2).render());
                probes.push(g.list_expr(&sc, 2).render());
                probes.push("(deep 3 (quote x))".into()); // a failing probe: compares stack traces
                probes.push("(deep 5 7)".into());
                let mut oa = vec![];
                let mut ob = vec![];
                for p in &probes {
                    let ra = eval_form(&mut va, p);
                    let rb = eval_form(&mut vb, p);
                    let ta = va.last_stacktrace().map(|t| t.frames.len()).unwrap_or(0);
                    let tb = vb.last_stacktrace().map(|t| t.frames.len()).unwrap_or(0);
                    oa.push(format!("{}#{}", render(&ra), ta));
                    ob.push(format!("{}#{}", render(&rb), tb));
                }
                oa.push(format!("sp={} cap={}", va.verif_stack().get_sp(), va.verif_stack().verif_slots().len()));
                ob.push(format!("sp={} cap={}", vb.verif_stack().get_sp(), vb.verif_stack().verif_slots().len()));
                oa.push(la.borrow().join("|"));
                ob.push(lb.borrow().join("|"));
                writeln!(out, "#oracle after-failures k={} class={} {}\t{}\t{}", k, class, oneline(&form_a), oneline(&oa.join(" ; ")), oneline(&ob.join(" ; "))).unwrap();
            }
        }
        _ => {
            eprintln!("usage: vm sliced N | trace N [fail] | errtrace N");
            std::process::exit(2);
        }
    }
}
