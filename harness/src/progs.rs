//! Typed generator of Scheme sessions (lists of top-level forms) over the grammar of C01:
//! core forms, the prelude's derived forms, fixed/variadic procedures, apply, eval, higher-order
//! use, redefinition of globals, closures with state, quasiquote, delay/force, call/cc.
//! Programs are well-scoped, terminating by construction (bounded loops) and mostly error-free;
//! a separate switch injects failures (C07).
use crate::rng::Rng;

#[derive(Clone, Debug)]
pub enum Sx {
    A(String),
    L(Vec<Sx>),
}

pub fn a(s: &str) -> Sx {
    Sx::A(s.to_string())
}
pub fn l(v: Vec<Sx>) -> Sx {
    Sx::L(v)
}
pub fn int(n: i64) -> Sx {
    Sx::A(n.to_string())
}

impl Sx {
    pub fn render(&self) -> String {
        let mut s = String::new();
        self.render_into(&mut s);
        s
    }
    fn render_into(&self, out: &mut String) {
        match self {
            Sx::A(x) => out.push_str(x),
            Sx::L(v) => {
                out.push('(');
                for (i, x) in v.iter().enumerate() {
                    if i > 0 {
                        out.push(' ');
                    }
                    x.render_into(out);
                }
                out.push(')');
            }
        }
    }
    /// number of sub-expression positions (pre-order), used for failure injection
    pub fn size(&self) -> usize {
        match self {
            Sx::A(_) => 1,
            Sx::L(v) => 1 + v.iter().map(|x| x.size()).sum::<usize>(),
        }
    }
}

#[derive(Clone, Copy, Debug, PartialEq)]
pub enum Ty {
    Int,
    Bool,
    IntList,
}

#[derive(Clone, Debug)]
pub struct ProcSig {
    pub name: String,
    pub fixed: usize,   // number of fixed int parameters
    pub variadic: bool, // plus a rest parameter (list of ints)
}

#[derive(Clone, Default)]
pub struct Scope {
    pub ints: Vec<String>,
    pub bools: Vec<String>,
    pub lists: Vec<String>,
    pub procs: Vec<ProcSig>, // int^k (+ rest) -> int
    pub conts: Vec<String>,  // global variables holding a continuation expecting an int (or #f)
}

pub struct Gen {
    pub rng: Rng,
    fresh: usize,
    pub features: std::collections::BTreeSet<&'static str>,
    /// failure injection: replace the n-th generated integer expression by this expression
    pub inject: Option<(usize, Sx)>,
    pub int_calls: usize,
}

impl Gen {
    pub fn new(seed: u64) -> Gen {
        Gen { rng: Rng::new(seed), fresh: 0, features: Default::default(), inject: None, int_calls: 0 }
    }

    fn fresh(&mut self, base: &str) -> String {
        self.fresh += 1;
        format!("{}{}", base, self.fresh)
    }

    fn feat(&mut self, f: &'static str) {
        self.features.insert(f);
    }

    pub fn small_int(&mut self) -> Sx {
        int(self.rng.range(-9, 20))
    }

    pub fn expr(&mut self, ty: Ty, sc: &Scope, depth: usize) -> Sx {
        match ty {
            Ty::Int => self.int_expr(sc, depth),
            Ty::Bool => self.bool_expr(sc, depth),
            Ty::IntList => self.list_expr(sc, depth),
        }
    }

    fn pick_s(&mut self, v: &[String]) -> Option<String> {
        if v.is_empty() {
            None
        } else {
            Some(v[self.rng.below(v.len() as u64) as usize].clone())
        }
    }

    pub fn int_expr(&mut self, sc: &Scope, depth: usize) -> Sx {
        self.int_calls += 1;
        if let Some((at, e)) = &self.inject {
            if *at == self.int_calls {
                return e.clone();
            }
        }
        if depth == 0 {
            if self.rng.chance(1, 2) {
                if let Some(v) = self.pick_s(&sc.ints) {
                    return a(&v);
                }
            }
            return self.small_int();
        }
        let d = depth - 1;
        match self.rng.below(24) {
            0 | 1 => {
                let op = *self.rng.pick(&["+", "-", "*"]);
                l(vec![a(op), self.int_expr(sc, d), self.int_expr(sc, d)])
            }
            2 => {
                self.feat("if");
                l(vec![a("if"), self.bool_expr(sc, d), self.int_expr(sc, d), self.int_expr(sc, d)])
            }
            3 => {
                self.feat("let");
                let x = self.fresh("x");
                let mut sc2 = sc.clone();
                sc2.ints.push(x.clone());
                l(vec![a("let"), l(vec![l(vec![a(&x), self.int_expr(sc, d)])]), self.int_expr(&sc2, d)])
            }
            4 => {
                self.feat("let*");
                let x = self.fresh("x");
                let y = self.fresh("y");
                let mut sc1 = sc.clone();
                sc1.ints.push(x.clone());
                let mut sc2 = sc1.clone();
                sc2.ints.push(y.clone());
                l(vec![
                    a("let*"),
                    l(vec![l(vec![a(&x), self.int_expr(sc, d)]), l(vec![a(&y), self.int_expr(&sc1, d)])]),
                    self.int_expr(&sc2, d),
                ])
            }
            5 => {
                // call a known procedure
                if sc.procs.is_empty() {
                    return self.int_expr(sc, d);
                }
                self.feat("call");
                let p = sc.procs[self.rng.below(sc.procs.len() as u64) as usize].clone();
                let extra = if p.variadic { self.rng.below(3) as usize } else { 0 };
                let mut v = vec![a(&p.name)];
                for _ in 0..(p.fixed + extra) {
                    v.push(self.int_expr(sc, d.min(1)));
                }
                l(v)
            }
            6 => {
                // apply
                if sc.procs.is_empty() {
                    return self.int_expr(sc, d);
                }
                self.feat("apply");
                let p = sc.procs[self.rng.below(sc.procs.len() as u64) as usize].clone();
                let extra = if p.variadic { self.rng.below(3) as usize } else { 0 };
                let n = p.fixed + extra;
                let direct = if n > 0 { self.rng.below(n as u64 + 1) as usize } else { 0 };
                let mut v = vec![a("apply"), a(&p.name)];
                for _ in 0..direct {
                    v.push(self.int_expr(sc, 0));
                }
                let mut lst = vec![a("list")];
                for _ in direct..n {
                    lst.push(self.int_expr(sc, 0));
                }
                v.push(l(lst));
                l(v)
            }
            7 => {
                self.feat("lambda-app");
                let x = self.fresh("x");
                let mut sc2 = sc.clone();
                sc2.ints.push(x.clone());
                l(vec![l(vec![a("lambda"), l(vec![a(&x)]), self.int_expr(&sc2, d)]), self.int_expr(sc, d)])
            }
            8 => {
                self.feat("cond");
                let mut v = vec![a("cond")];
                for _ in 0..(1 + self.rng.below(2)) {
                    v.push(l(vec![self.bool_expr(sc, d), self.int_expr(sc, d)]));
                }
                v.push(l(vec![a("else"), self.int_expr(sc, d)]));
                l(v)
            }
            9 => {
                self.feat("case");
                let mut v = vec![a("case"), self.int_expr(sc, d)];
                v.push(l(vec![l(vec![int(0), int(1), int(2)]), self.int_expr(sc, d)]));
                v.push(l(vec![l(vec![int(3), int(-1)]), self.int_expr(sc, d)]));
                v.push(l(vec![a("else"), self.int_expr(sc, d)]));
                l(v)
            }
            10 => {
                self.feat("begin");
                l(vec![a("begin"), self.int_expr(sc, d), self.int_expr(sc, d)])
            }
            11 => {
                self.feat("named-let");
                // bounded loop: sum i from n down to 0 of f(i)
                let lp = self.fresh("loop");
                let i = self.fresh("i");
                let acc = self.fresh("acc");
                let mut sc2 = sc.clone();
                sc2.ints.push(i.clone());
                sc2.ints.push(acc.clone());
                l(vec![
                    a("let"),
                    a(&lp),
                    l(vec![l(vec![a(&i), int(self.rng.range(0, 6))]), l(vec![a(&acc), int(0)])]),
                    l(vec![
                        a("if"),
                        l(vec![a("<"), a(&i), int(1)]),
                        a(&acc),
                        l(vec![a(&lp), l(vec![a("-"), a(&i), int(1)]), l(vec![a("+"), a(&acc), self.int_expr(&sc2, d.min(1))])]),
                    ]),
                ])
            }
            12 => {
                self.feat("car/cdr");
                l(vec![a("car"), l(vec![a("cons"), self.int_expr(sc, d), self.list_expr(sc, d)])])
            }
            13 => {
                self.feat("length");
                l(vec![a("length"), self.list_expr(sc, d)])
            }
            14 => {
                self.feat("call/cc-escape");
                let k = self.fresh("k");
                l(vec![
                    a("call/cc"),
                    l(vec![
                        a("lambda"),
                        l(vec![a(&k)]),
                        l(vec![a("+"), self.int_expr(sc, d), l(vec![a(&k), self.int_expr(sc, d)])]),
                    ]),
                ])
            }
            15 => {
                self.feat("call/cc-normal");
                let k = self.fresh("k");
                l(vec![a("call/cc"), l(vec![a("lambda"), l(vec![a(&k)]), self.int_expr(sc, d)])])
            }
            16 => {
                self.feat("vector");
                let n = 1 + self.rng.below(3) as usize;
                let mut v = vec![a("vector")];
                for _ in 0..n {
                    v.push(self.int_expr(sc, d.min(1)));
                }
                l(vec![a("vector-ref"), l(v), int(self.rng.below(n as u64) as i64)])
            }
            17 => {
                self.feat("eval");
                // eval of a constructed form over literals
                l(vec![
                    a("eval"),
                    l(vec![a("list"), a("'+"), self.int_expr(sc, d.min(1)), self.int_expr(sc, d.min(1))]),
                ])
            }
            18 => {
                self.feat("delay/force");
                l(vec![a("force"), l(vec![a("delay"), self.int_expr(sc, d)])])
            }
            19 => {
                self.feat("and/or-int");
                l(vec![a("or"), l(vec![a("and"), self.bool_expr(sc, d), self.int_expr(sc, d)]), self.int_expr(sc, d)])
            }
            20 => {
                self.feat("letrec");
                let f = self.fresh("f");
                let n = self.fresh("n");
                l(vec![
                    a("letrec"),
                    l(vec![l(vec![
                        a(&f),
                        l(vec![
                            a("lambda"),
                            l(vec![a(&n)]),
                            l(vec![
                                a("if"),
                                l(vec![a("<"), a(&n), int(1)]),
                                self.int_expr(sc, d.min(1)),
                                l(vec![a("+"), int(1), l(vec![a(&f), l(vec![a("-"), a(&n), int(1)])])]),
                            ]),
                        ]),
                    ])]),
                    l(vec![a(&f), int(self.rng.range(0, 5))]),
                ])
            }
            21 => {
                self.feat("map/apply");
                let x = self.fresh("x");
                let mut sc2 = sc.clone();
                sc2.ints.push(x.clone());
                l(vec![
                    a("apply"),
                    a("+"),
                    l(vec![a("map"), l(vec![a("lambda"), l(vec![a(&x)]), self.int_expr(&sc2, d.min(1))]), self.list_expr(sc, d)]),
                ])
            }
            22 => {
                self.feat("when/unless");
                let w = if self.rng.chance(1, 2) { "when" } else { "unless" };
                l(vec![a("begin"), l(vec![a(w), self.bool_expr(sc, d), self.int_expr(sc, d)]), self.int_expr(sc, d)])
            }
            _ => {
                self.feat("internal-define");
                let x = self.fresh("x");
                let y = self.fresh("d");
                let mut sc2 = sc.clone();
                sc2.ints.push(x.clone());
                let e1 = self.int_expr(&sc2, d.min(1));
                sc2.ints.push(y.clone());
                l(vec![
                    l(vec![a("lambda"), l(vec![a(&x)]), l(vec![a("define"), a(&y), e1]), self.int_expr(&sc2, d)]),
                    self.int_expr(sc, d),
                ])
            }
        }
    }

    pub fn bool_expr(&mut self, sc: &Scope, depth: usize) -> Sx {
        if depth == 0 {
            if self.rng.chance(1, 3) {
                if let Some(v) = self.pick_s(&sc.bools) {
                    return a(&v);
                }
            }
            return a(if self.rng.chance(1, 2) { "#t" } else { "#f" });
        }
        let d = depth - 1;
        match self.rng.below(8) {
            0 | 1 => {
                let op = *self.rng.pick(&["<", "=", ">", "<=", ">="]);
                l(vec![a(op), self.int_expr(sc, d), self.int_expr(sc, d)])
            }
            2 => l(vec![a("not"), self.bool_expr(sc, d)]),
            3 => {
                self.feat("and");
                l(vec![a("and"), self.bool_expr(sc, d), self.bool_expr(sc, d)])
            }
            4 => {
                self.feat("or");
                l(vec![a("or"), self.bool_expr(sc, d), self.bool_expr(sc, d)])
            }
            5 => l(vec![a("null?"), self.list_expr(sc, d)]),
            6 => l(vec![a("eq?"), a("'a"), if self.rng.chance(1, 2) { a("'a") } else { a("'b") }]),
            _ => l(vec![a("if"), self.bool_expr(sc, d), self.bool_expr(sc, d), self.bool_expr(sc, d)]),
        }
    }

    pub fn list_expr(&mut self, sc: &Scope, depth: usize) -> Sx {
        if depth == 0 {
            if self.rng.chance(1, 2) {
                if let Some(v) = self.pick_s(&sc.lists) {
                    return a(&v);
                }
            }
            let n = self.rng.below(4);
            let mut v = vec![];
            for _ in 0..n {
                v.push(self.small_int());
            }
            return l(vec![a("quote"), l(v)]);
        }
        let d = depth - 1;
        match self.rng.below(8) {
            0 => l(vec![a("cons"), self.int_expr(sc, d), self.list_expr(sc, d)]),
            1 => {
                let mut v = vec![a("list")];
                for _ in 0..self.rng.below(4) {
                    v.push(self.int_expr(sc, d));
                }
                l(v)
            }
            2 => l(vec![a("append"), self.list_expr(sc, d), self.list_expr(sc, d)]),
            3 => l(vec![a("reverse"), self.list_expr(sc, d)]),
            4 => {
                self.feat("quasiquote");
                let mut v = vec![];
                for _ in 0..(1 + self.rng.below(3)) {
                    if self.rng.chance(1, 2) {
                        v.push(l(vec![a("unquote"), self.int_expr(sc, d)]));
                    } else {
                        v.push(self.small_int());
                    }
                }
                l(vec![a("quasiquote"), l(v)])
            }
            5 => {
                self.feat("map");
                let x = self.fresh("x");
                let mut sc2 = sc.clone();
                sc2.ints.push(x.clone());
                l(vec![a("map"), l(vec![a("lambda"), l(vec![a(&x)]), self.int_expr(&sc2, d.min(1))]), self.list_expr(sc, d)])
            }
            6 => {
                self.feat("vector->list");
                let mut v = vec![a("vector")];
                for _ in 0..self.rng.below(3) {
                    v.push(self.int_expr(sc, d.min(1)));
                }
                l(vec![a("vector->list"), l(v)])
            }
            _ => l(vec![a("cdr"), l(vec![a("cons"), self.int_expr(sc, d), self.list_expr(sc, d)])]),
        }
    }

    /// a top-level definition; extends the scope
    pub fn definition(&mut self, sc: &mut Scope, depth: usize) -> Sx {
        match self.rng.below(10) {
            0 | 1 => {
                let x = self.fresh("g");
                let e = self.int_expr(sc, depth);
                sc.ints.push(x.clone());
                l(vec![a("define"), a(&x), e])
            }
            2 => {
                let x = self.fresh("gl");
                let e = self.list_expr(sc, depth);
                sc.lists.push(x.clone());
                l(vec![a("define"), a(&x), e])
            }
            3 | 4 => {
                self.feat("define-proc");
                let f = self.fresh("f");
                let n = self.rng.below(4) as usize;
                let mut sc2 = sc.clone();
                let mut params = vec![a(&f)];
                for _ in 0..n {
                    let p = self.fresh("p");
                    sc2.ints.push(p.clone());
                    params.push(a(&p));
                }
                let body = self.int_expr(&sc2, depth);
                sc.procs.push(ProcSig { name: f.clone(), fixed: n, variadic: false });
                l(vec![a("define"), l(params), body])
            }
            5 => {
                self.feat("define-variadic");
                let f = self.fresh("v");
                let n = self.rng.below(3) as usize;
                let mut sc2 = sc.clone();
                let mut params = vec![];
                for _ in 0..n {
                    let p = self.fresh("p");
                    sc2.ints.push(p.clone());
                    params.push(p);
                }
                let r = self.fresh("r");
                sc2.lists.push(r.clone());
                let body = l(vec![a("+"), self.int_expr(&sc2, depth), l(vec![a("length"), a(&r)])]);
                sc.procs.push(ProcSig { name: f.clone(), fixed: n, variadic: true });
                // (define (f p1 … . r) body) rendered with a dotted tail
                let mut head = format!("({}", f);
                for p in &params {
                    head.push(' ');
                    head.push_str(p);
                }
                head.push_str(&format!(" . {})", r));
                l(vec![a("define"), a(&head), body])
            }
            6 => {
                self.feat("closure-counter");
                // (define c (let ((n e)) (lambda (d) (set! n (+ n d)) n)))
                let c = self.fresh("c");
                let n = self.fresh("n");
                let d = self.fresh("d");
                let init = self.int_expr(sc, depth.min(1));
                sc.procs.push(ProcSig { name: c.clone(), fixed: 1, variadic: false });
                l(vec![
                    a("define"),
                    a(&c),
                    l(vec![
                        a("let"),
                        l(vec![l(vec![a(&n), init])]),
                        l(vec![
                            a("lambda"),
                            l(vec![a(&d)]),
                            l(vec![a("set!"), a(&n), l(vec![a("+"), a(&n), a(&d)])]),
                            a(&n),
                        ]),
                    ]),
                ])
            }
            7 => {
                // redefinition / assignment of an existing global
                if let Some(x) = self.pick_s(&sc.ints.clone()) {
                    self.feat("set!-global");
                    l(vec![a("set!"), a(&x), self.int_expr(sc, depth)])
                } else {
                    let x = self.fresh("g");
                    let e = self.int_expr(sc, depth);
                    sc.ints.push(x.clone());
                    l(vec![a("define"), a(&x), e])
                }
            }
            8 => {
                // redefine an existing procedure with the same signature (late binding of globals)
                if sc.procs.is_empty() {
                    return self.definition(sc, depth);
                }
                self.feat("redefine-proc");
                let p = sc.procs[self.rng.below(sc.procs.len() as u64) as usize].clone();
                if p.variadic {
                    return self.definition(sc, depth);
                }
                let mut sc2 = sc.clone();
                // the new body must not call the name being redefined: after the define it would refer to
                // itself (unbounded non-tail recursion), not to the previous procedure
                sc2.procs.retain(|q| q.name != p.name);
                let mut params = vec![a(&p.name)];
                for _ in 0..p.fixed {
                    let q = self.fresh("q");
                    sc2.ints.push(q.clone());
                    params.push(a(&q));
                }
                l(vec![a("define"), l(params), self.int_expr(&sc2, depth)])
            }
            _ => {
                self.feat("store-continuation");
                // (define kN #f) then later forms may (set! kN k) … handled by `cont_forms`
                let k = self.fresh("kk");
                sc.conts.push(k.clone());
                l(vec![a("define"), a(&k), a("#f")])
            }
        }
    }

    /// forms exercising a stored continuation: capture into the global, and re-entry from a later
    /// top-level form (bounded by a counter so that it terminates)
    pub fn cont_forms(&mut self, sc: &mut Scope) -> Vec<Sx> {
        let k = match self.pick_s(&sc.conts.clone()) {
            Some(k) => k,
            None => return vec![],
        };
        self.feat("continuation-reentry");
        let n = self.fresh("cn");
        let r = self.fresh("cr");
        sc.ints.push(n.clone());
        let kk = self.fresh("k");
        vec![
            l(vec![a("define"), a(&n), int(0)]),
            // (define r (+ 1 (call/cc (lambda (k) (set! kN k) 1))))
            l(vec![
                a("define"),
                a(&r),
                l(vec![
                    a("+"),
                    int(self.rng.range(0, 5)),
                    l(vec![a("call/cc"), l(vec![a("lambda"), l(vec![a(&kk)]), l(vec![a("set!"), a(&k), a(&kk)]), int(1)])]),
                ]),
            ]),
            // re-enter twice from a later form
            l(vec![
                a("if"),
                l(vec![a("<"), a(&n), int(2)]),
                l(vec![a("begin"), l(vec![a("set!"), a(&n), l(vec![a("+"), a(&n), int(1)])]), l(vec![a(&k), l(vec![a("*"), a(&n), int(10)])])]),
                a(&r),
            ]),
            a(&r),
        ]
    }

    /// a session of `n` top-level forms
    pub fn session(&mut self, n: usize, depth: usize) -> Vec<Sx> {
        let mut sc = Scope::default();
        let mut forms = vec![];
        while forms.len() < n {
            match self.rng.below(10) {
                0..=3 => forms.push(self.definition(&mut sc, depth)),
                4 => {
                    let mut f = self.cont_forms(&mut sc);
                    forms.append(&mut f);
                }
                5 => forms.push(self.list_expr(&sc, depth)),
                6 => forms.push(self.bool_expr(&sc, depth)),
                _ => forms.push(self.int_expr(&sc, depth)),
            }
        }
        forms
    }

    /// an expression that fails at run time / compile time, by class
    pub fn failing_expr(&mut self, sc: &Scope) -> (Sx, &'static str) {
        match self.rng.below(6) {
            0 => (a("unbound-variable-zz"), "unbound"),
            1 => (l(vec![a("car"), self.small_int()]), "type"),
            2 => (l(vec![l(vec![a("lambda"), l(vec![a("x")]), a("x")])]), "arity"),
            3 => (l(vec![a("error"), a("\"boom\""), self.int_expr(sc, 0)]), "user"),
            4 => (l(vec![a("if")]), "syntax"),
            _ => (l(vec![self.small_int(), self.small_int()]), "not-procedure"),
        }
    }
}

/// replace the `idx`-th sub-expression (pre-order) of `e` by `with`
pub fn replace_at(e: &Sx, idx: usize, with: &Sx) -> Sx {
    fn go(e: &Sx, idx: &mut usize, with: &Sx) -> Sx {
        if *idx == 0 {
            *idx = usize::MAX;
            return with.clone();
        }
        if *idx != usize::MAX {
            *idx -= 1;
        }
        match e {
            Sx::A(_) => e.clone(),
            Sx::L(v) => Sx::L(v.iter().map(|x| go(x, idx, with)).collect()),
        }
    }
    let mut i = idx;
    go(e, &mut i, with)
}
