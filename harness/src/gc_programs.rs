//! Allocation-heavy program templates for the C03 exploration and the snapshot streams.
//! Every program is a session: a sequence of top-level forms evaluated in one VM.
use mwv::rng::Rng;

/// a procedure whose bytecode has several hundred cells, so that JMP/JNT operands (bytecode offsets)
/// exceed the permanently live prefix of the heap
fn big_cond(name: &str, clauses: usize) -> String {
    let mut s = format!("(define ({} n) (cond", name);
    for i in 0..clauses {
        s.push_str(&format!(" ((= n {}) {})", i, i));
    }
    s.push_str(&format!(" (else (list n ({} (- n 1))))))", name));
    s
}

fn churn(n: usize) -> String {
    format!(
        "(define (churn n) (if (= n 0) 'ok (begin (list n n n) (churn (- n 1))))) (churn {})",
        n
    )
}

pub const TEMPLATE_COUNT: usize = 22;

pub fn template(rng: &mut Rng, which: usize) -> String {
    let n = 5 + rng.below(60) as usize;
    let m = 2 + rng.below(9) as usize;
    match which % TEMPLATE_COUNT {
        // lists
        0 => format!(
            "(define (iota n acc) (if (= n 0) acc (iota (- n 1) (cons n acc))))
             (define l (iota {n} '()))
             (define (sum l acc) (if (null? l) acc (sum (cdr l) (+ acc (car l)))))
             (sum l 0) (length l) (reverse l) (map (lambda (x) (* x x)) l) (append l l)
             (list-tail l {m}) (sum (map (lambda (x) (+ x {m})) (reverse l)) 0)"
        ),
        // vectors
        1 => format!(
            "(define v (make-vector {n} 0))
             (define (fill i) (if (< i {n}) (begin (vector-set! v i (list i (* i i))) (fill (+ i 1))) 'done))
             (fill 0) (vector-ref v {k}) (vector->list v) (vector-length (list->vector (vector->list v)))
             (define w (vector-copy v)) (vector-fill! v 'gone) (vector-ref w {k}) (vector 1 \"two\" #\\3 'four w)",
            k = m % n
        ),
        // strings
        2 => format!(
            "(define (rep s n) (if (= n 0) s (rep (string-append s \"ab\") (- n 1))))
             (define s (rep \"\" {n})) (string-length s) (string->list (rep \"x\" {m}))
             (string-upcase s) (list->string (reverse (string->list s))) (string-copy s 1 {m})
             (string=? s (string-copy s)) (define t (make-string {m} #\\z)) (string-set! t 0 #\\a) t"
        ),
        // closures and environments
        3 => format!(
            "(define (make-counter) (let ((n 0)) (lambda () (set! n (+ n 1)) n)))
             (define c1 (make-counter)) (define c2 (make-counter))
             (define (adders k) (if (= k 0) '() (cons (lambda (x) (+ x k)) (adders (- k 1)))))
             (define as (adders {n})) (c1) (c1) (c2) (map (lambda (f) (f 10)) as)
             (define (compose f g) (lambda (x) (f (g x)))) ((compose (car as) (cadr as)) {m}) (c1)"
        ),
        // continuations
        4 => format!(
            "(define k #f) (define count 0)
             (define (gen n) (if (= n 0) '() (cons (call/cc (lambda (c) (if (= n {m}) (set! k c)) n)) (gen (- n 1)))))
             (define r (gen {n})) (length r)
             (define (find-first p l) (call/cc (lambda (ret) (for-each (lambda (x) (if (p x) (ret x))) l) #f)))
             (find-first even? r) (find-first (lambda (x) (> x 1000)) r)
             (if (< count 3) (begin (set! count (+ count 1)) (if k (k (* 100 count)) 'nok)) 'done) count"
        ),
        // eval
        5 => format!(
            "(define (build n) (if (= n 0) 1 (list '+ n (build (- n 1)))))
             (eval (build {n})) (eval (list 'quote (build {m})))
             (define f (eval '(lambda (x) (cons x (list x x))))) (f 1) (f '(a b))
             (eval (list 'define 'evald {n})) evald (eval '(let loop ((i 0) (acc '())) (if (< i {m}) (loop (+ i 1) (cons i acc)) acc)))"
        ),
        // string->symbol
        6 => format!(
            "(define (syms n) (if (= n 0) '() (cons (string->symbol (string-append \"s\" (number->string n))) (syms (- n 1)))))
             (define a (syms {n})) (define b (syms {n}))
             (define (all-eq a b) (if (null? a) #t (if (eq? (car a) (car b)) (all-eq (cdr a) (cdr b)) #f)))
             (all-eq a b) (eq? (car a) 's{n}) (map symbol->string (list-tail a {k})) (eq? (string->symbol \"hello world\") (string->symbol \"hello world\"))
             (symbol->string (string->symbol \"hello world\"))",
            k = n.saturating_sub(3)
        ),
        // large code objects + redefinition (jump offsets beyond the live prefix)
        7 => format!(
            "{} {} (big {}) (define (big n) n) {} (define (iota n acc) (if (= n 0) acc (iota (- n 1) (cons n acc))))
             (define l1 (iota {} '())) (define l2 (iota {} '())) (length l1) (length l2) (big 3)",
            big_cond("big", 40 + n),
            churn(20 + n),
            43 + n,
            "(churn 30)",
            50 + n * 3,
            50 + n * 2
        ),
        // association lists / assoc / member
        8 => format!(
            "(define (mk n) (if (= n 0) '() (cons (cons n (number->string n)) (mk (- n 1)))))
             (define al (mk {n})) (assv {m} al) (assoc {m} al) (assq 'x al) (member \"3\" (map cdr al)) (length al)"
        ),
        // promises, named let, do-like loops
        9 => format!(
            "(define p (delay (begin (display \"once\") (list 1 2 3)))) (force p) (force p)
             (define (loop i acc) (if (= i {n}) acc (loop (+ i 1) (cons (delay i) acc))))
             (define ps (loop 0 '())) (map force ps)
             (let lp ((i 0) (acc '())) (if (< i {m}) (lp (+ i 1) (cons (vector i) acc)) acc))"
        ),
        // bignums and rationals
        10 => format!(
            "(define (fact n) (if (= n 0) 1 (* n (fact (- n 1))))) (fact {k}) (fact 25)
             (define (harm n) (if (= n 0) 0 (+ (/ 1 n) (harm (- n 1))))) (harm {m})
             (number->string (fact 22)) (quotient (fact 24) (fact 22))",
            k = 15 + n % 15
        ),
        // output
        11 => format!(
            "(define (show l) (for-each (lambda (x) (display x) (write x)) l)) (show (list 1 \"s\" #\\c 'sym (list 1 2) (vector 1 2)))
             (define (rep n) (if (= n 0) 'done (begin (write (list n (number->string n))) (rep (- n 1))))) (rep {m})"
        ),
        // macros producing symbols and structures
        12 => format!(
            "(define-syntax swap! (syntax-rules () ((_ a b) (let ((tmp a)) (set! a b) (set! b tmp)))))
             (define x (list 1 2)) (define y (vector 3 4)) (swap! x y) x y
             (define-syntax my-list (syntax-rules () ((_ e ...) (list 'tag e ...)))) (my-list 1 2 {n})
             (define-syntax q (syntax-rules () ((_ a) '(a a)))) (q foo) (eq? (car (q foo)) 'foo)"
        ),
        // errors in the middle of allocation
        13 => format!(
            "(define (boom n) (if (= n 0) (car '()) (cons n (boom (- n 1))))) (boom {m}) (define l (list 1 2 3)) (vector-ref (vector 1) 5)
             (undefined-proc 1) (length l) (error \"custom\" l) (cons 1 l)"
        ),
        // apply / varargs
        14 => format!(
            "(define (va . xs) (apply + xs)) (va 1 2 3 {n}) (apply va (list 1 2 3))
             (define (f a b . rest) (list a b rest)) (f 1 2) (f 1 2 3 4 {m}) (apply f 1 2 '(3 4))
             (apply map (list (lambda (x y) (cons x y)) '(1 2 3) '(a b c)))"
        ),
        // sole owners: objects reachable ONLY through one kind of edge of a saved continuation.
        // code object reachable only through the continuation's saved instruction pointer: capture inside f,
        // let f return, rebind f, allocate, re-enter from a later form
        16 => format!(
            "(define k1 #f) (define (f1 x) (+ {m} (call/cc (lambda (c) (set! k1 c) x)))) (f1 1) (define (f1 x) x)
             {} (define n1 0) (if (< n1 2) (begin (set! n1 (+ n1 1)) (k1 (* 10 n1))) 'done) n1 (f1 7)",
            churn(10 + n)
        ),
        // environment reachable only through the continuation's saved environment pointer
        17 => format!(
            "(define k2 #f) (define (mk y) (lambda () (+ y (call/cc (lambda (c) (set! k2 c) 1))))) ((mk {n}))
             {} (define n2 0) (if (< n2 2) (begin (set! n2 (+ n2 1)) (k2 (* 100 n2))) 'done) n2",
            churn(10 + m)
        ),
        // operands already evaluated, reachable only through the continuation's saved stack
        18 => format!(
            "(define k3 #f) (list (list 1 {n} (vector {m})) (string-append \"a\" \"b\") (call/cc (lambda (c) (set! k3 c) 0)) 'end)
             {} (define n3 0) (if (< n3 2) (begin (set! n3 (+ n3 1)) (k3 (list n3))) 'done) n3",
            churn(10 + n)
        ),
        // a continuation captured deep in a non-tail recursion whose frames hold the only references to
        // closures and their environments
        19 => format!(
            "(define k4 #f)
             (define (deep n acc) (if (= n 0) (call/cc (lambda (c) (set! k4 c) acc))
                                      ((lambda (g) (+ (g) (deep (- n 1) (+ acc n)))) (lambda () n))))
             (deep {m} 0) (define (deep n acc) 'gone) {} (define n4 0)
             (if (< n4 1) (begin (set! n4 (+ n4 1)) (k4 1000)) 'done) n4",
            churn(10 + n)
        ),
        // constants reachable ONLY through the bytecode of a long-lived procedure, in every operand position the
        // compiler uses for a heap constant: quoted data (MOV-immediate), and the constant tail of a DOTTED
        // quasiquote template (PUSH-immediate): strings, symbols, vectors, lists
        20 => format!(
            "(define (tag x) (quasiquote ((unquote x) . \"unit\")))
             (define (tag2 x) (quasiquote ((unquote x) quantity . millifurlong)))
             (define (tag3 x) (quasiquote ((unquote x) . #(\"a\" \"b\"))))
             (define (tag4 x) (list x (quote (k {n} \"s\")) (quote #(1 2)) \"lit\"))
             (tag 1) (tag2 1) (tag3 1) (tag4 1) {}
             (tag 2) (tag2 2) (eq? (cdr (cdr (tag2 3))) 'millifurlong) (tag3 2) (tag4 2) {} (tag {m}) (tag3 {m}) (tag4 {m})",
            churn(20 + n), churn(10 + m)
        ),
        // the VALUE of a quasiquoted vector whose unquoted elements are freshly allocated (lists, strings, closures,
        // vectors, nested quasiquoted vectors) kept in a global, in a closure variable (set!), in a pair, and returned
        // from a procedure; garbage is churned, then the elements are read back. VPUSH builds these vectors; the
        // vector left in %acc must be a reference the collector can follow (fix 43d0413: it was the dereferenced
        // vector, and a global slot holding one is not marked)
        21 => format!(
            "(define (qmk x) `#(1 ,x))
             (define qv `#(,(list 1 {n}) ,(string-append \"a\" \"b\") ,(lambda () {m}) #(in ,(list {m}))))
             (define qu (qmk (list 5 {n})))
             (define qbox (let ((held #f)) (lambda (y) (if y (set! held `#(,(list y) ,(make-string 2 #\\q))) held))))
             (qbox {m})
             (define qp (cons `#(,(list 'p {n})) `#(,(vector {m} (list {m})))))
             (define (qnest x) `#(,(qmk x) #(,(qmk (list x)))))
             (define qn (qnest (list {m} {n})))
             {}
             (vector-ref qv 0) ((vector-ref qv 2)) (vector-ref (vector-ref qv 3) 1) qu (qbox #f) qp qn
             {}
             qv qu (qbox #f) qp (vector-ref (qmk (list 9)) 1) (vector-ref (vector-ref qn 0) 1)
             (set! qv `#(,(list {n} {m}))) {} qv (vector-ref (vector-ref (vector-ref qn 1) 0) 1)",
            churn(20 + n), churn(10 + m), churn(8 + m)
        ),
        // mixed, with continuation captured inside map and re-entered once
        _ => format!(
            "(define saved #f) (define n 0)
             (define r (map (lambda (x) (call/cc (lambda (k) (if (= x 2) (set! saved k)) (* x x)))) '(1 2 3 {m})))
             r (set! n (+ n 1)) (if (< n 3) (saved (list n 'again)) 'end) r
             (define v (list->vector r)) (vector-length v) (string->symbol (number->string n))"
        ),
    }
}

/// A session of 1–3 templates (so that definitions of one are garbage or live data for the next)
pub fn gen_program(rng: &mut Rng, index: usize) -> String {
    let parts = 1 + rng.below(3) as usize;
    let mut s = String::new();
    for p in 0..parts {
        let which = if p == 0 { index } else { rng.below(TEMPLATE_COUNT as u64) as usize };
        s.push_str(&template(rng, which));
        s.push('\n');
    }
    // normalise whitespace (the wire encodes the text anyway)
    s.split_whitespace().collect::<Vec<_>>().join(" ")
}
