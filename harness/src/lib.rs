//! Shared helpers for the correspondence harness binaries.
pub mod rng;
pub mod wire;
pub mod progs;
pub mod session;
pub mod trace;
