//! Shared helpers for the correspondence harness binaries.
pub mod rng;
pub mod wire;
