// Program corpus of bin/simstep.rs (textually included there with `include!`; not a module of its own).
fn split_forms(text: &str) -> Vec<String> {
    let mut out = vec![];
    let mut rest: Option<&str> = Some(text);
    while let Some(t) = rest {
        if t.trim().is_empty() {
            break;
        }
        match parse::parse_text(t) {
            Ok((_, remaining)) => {
                let used = t.len() - remaining.map(|r| r.len()).unwrap_or(0);
                out.push(t[..used].trim().to_string());
                rest = remaining;
            }
            Err(_) => break,
        }
    }
    out
}

const FEATURE_PROGRAMS: usize = 22;

/// hand-written sessions, one per feature of the core instruction set (a failing form ends a session, so
/// every failure is the last form of its session)
fn feature_program(rng: &mut Rng, which: usize) -> String {
    let n = 3 + rng.below(6);
    let m = 1 + rng.below(5);
    match which % FEATURE_PROGRAMS {
        0 => format!(
            "(define (mk n) (define a (* n 2)) (define (inc! d) (set! a (+ a d)) a)
               (lambda (d) (inc! d) (set! n (+ n 1)) (list a n)))
             (define c (mk {n})) (c 1) (c {m}) (define c2 (mk {m})) (c2 1) (c 0)"
        ),
        1 => format!(
            "(define (va . xs) xs) (va) (va 1) (va 1 2 {n}) (va 'a \"s\" #\\c 1.5)
             (define (f a b . r) (list a b r)) (f 1 2) (f 1 2 3) (f 1 2 3 4 {m}) (apply f 1 2 '(3 4 5)) (f 1)"
        ),
        2 => format!(
            "(define k #f) (define cnt 0)
             (define r (+ {n} (call/cc (lambda (c) (set! k c) 1)))) r
             (if (< cnt 2) (begin (set! cnt (+ cnt 1)) (k (* 10 cnt))) 'done) r cnt
             (define (esc l) (call/cc (lambda (ret) (for-each (lambda (x) (if (> x {m}) (ret x))) l) #f))) (esc '(1 2 3 4 5 6 7 8))
             (define (tk v) (call/cc (lambda (q) (q v)))) (tk {n}) (+ 1 (call/cc (lambda (q) (+ 100 (q 1 2 {m})))))"
        ),
        3 => format!(
            "(define (loop i acc) (if (= i 0) acc (loop (- i 1) (+ acc i)))) (loop {n} 0)
             (define (f a) (g a 1)) (define (g a b) (if (> a 5) (list a b) (f (+ a b)))) (f 0)
             (define (h x) (car x)) (h '(1 2)) (define (t p) (apply p '(1 2))) (t +) (t list)
             (define (u) (call/cc (lambda (k) {m}))) (u) (define (e x) (eval x)) (e '(+ 1 {n}))
             (define (z . r) (if (null? r) 'end (apply z (cdr r)))) (z 1 2 3)"
        ),
        4 => format!(
            "(define x {n}) (define y '(p q)) `(1 ,x ,(+ x 1) (nested ,y) #(a ,x {m}) . tail) `#(1 ,x #(2 ,y)) `(a `(b ,(c ,x))) `(,x . ,y)"
        ),
        5 => format!(
            "(define (d n) (if (= n 0) 0 (+ 1 (d (- n 1))))) (d {}) (d {n})
             (define (dl n) (if (= n 0) '() (cons n (dl (- n 1))))) (length (dl {}))",
            60 + 20 * n,
            70 + 10 * m
        ),
        6 => "(5 3)".to_string(),
        7 => format!("(define (w a) (+ a {n})) (w 1) (undefined-variable-zz 1)"),
        8 => "((lambda (x y) x) 1)".to_string(),
        9 => "(define (w a) a) (call/cc 5)".to_string(),
        10 => "(define l (list 1 2)) (apply + 1)".to_string(),
        11 => "(call/cc (lambda (k) (k)))".to_string(),
        12 => format!(
            "(eval '(+ 1 {n})) (eval (list 'define 'zz {m})) zz (define ef (eval '(lambda (x . r) (cons x r)))) (ef 1 2 3)
             (eval '(let loop ((i 0) (acc '())) (if (< i {m}) (loop (+ i 1) (cons i acc)) acc))) (eval '(if))"
        ),
        13 => format!(
            "(define v (make-vector {n} 0)) (vector-set! v 1 (list 1 2)) (vector-ref v 1) (vector-fill! v 'z) (vector->list v)
             (define s (make-string {m} #\\a)) (string-set! s 0 #\\b) (string-append s \"xy\") (string->symbol \"fresh-sym-{n}\")
             (symbol->string 'abc) (list->vector (list 1 2 {m})) (vector-ref v 100)"
        ),
        14 => format!(
            "(define (outer a) (lambda (b) (lambda (c) (set! a (+ a 1)) (set! b (+ b c)) (list a b c))))
             (define o1 ((outer 1) 2)) (o1 {n}) (o1 {m}) (define o2 ((outer 10) 20)) (o2 1) (o1 0)
             (define (counter) (let ((n 0)) (lambda () (set! n (+ n 1)) n))) (define c1 (counter)) (c1) (c1)"
        ),
        15 => format!(
            "(define g1 {n}) (set! g1 (+ g1 1)) g1 (define (setg v) (set! g1 v) g1) (setg '(a b)) (setg \"str\") g1
             (define (id x) x) (id id) ((id id) {m}) (let ((p car)) (p '(1))) (let* ((a 1) (b (+ a 1))) (list a b))
             (letrec ((ev? (lambda (n) (if (= n 0) #t (od? (- n 1))))) (od? (lambda (n) (if (= n 0) #f (ev? (- n 1)))))) (ev? {n}))"
        ),
        16 => format!(
            "(define k2 #f) (define (mk y) (lambda () (+ y (call/cc (lambda (c) (set! k2 c) 1))))) ((mk {n}))
             (define n2 0) (if (< n2 2) (begin (set! n2 (+ n2 1)) (k2 (* 100 n2))) 'done) n2
             (define (deep n) (if (= n 0) (call/cc (lambda (c) (set! k2 c) 0)) (+ 1 (deep (- n 1))))) (deep {m})
             (define n3 0) (if (< n3 1) (begin (set! n3 (+ n3 1)) (k2 7)) 'done)"
        ),
        17 => "(define k #f) (+ 1 (call/cc (lambda (c) (set! k c) 1))) (define (tail-k) (k)) (tail-k)".to_string(),
        18 => format!(
            "(define (compose . fs) (if (null? fs) (lambda (x) x) (lambda (x) ((car fs) ((apply compose (cdr fs)) x)))))
             ((compose (lambda (x) (* x 2)) (lambda (x) (+ x {n}))) {m}) (map (lambda (x y) (cons x y)) '(1 2 3) '(a b c))
             (apply map list '((1 2) (3 4))) (apply apply (list + (list 1 2)))
             (apply call/cc (list (lambda (k) (k {n})))) (apply eval '((+ 1 2)))"
        ),
        19 => "(define (w a) a) (apply w '(1 2))".to_string(),
        20 => "(define (cyc) 'x) (apply car '(1 . 2))".to_string(),
        _ => format!(
            "(define-syntax swap! (syntax-rules () ((_ a b) (let ((tmp a)) (set! a b) (set! b tmp)))))
             (define p 1) (define q 2) (swap! p q) (list p q)
             (define (f) (define x {n}) (define y (+ x 1)) (swap! x y) (list x y)) (f)
             (define (w) (when (> {n} 1) 'a 'b)) (w) (do ((i 0 (+ i 1)) (acc '() (cons i acc))) ((= i {m}) acc))
             (case {m} ((1 2) 'low) ((3 4) 'mid) (else 'high)) (let loop ((i 0)) (if (< i 3) (loop (+ i 1)) i))"
        ),
    }
}

struct Program {
    label: String,
    forms: Vec<String>,
    gc_every: Option<u64>,
    /// hand-assembled bytecode (see `synthetic_code`) patched into the procedure `syn` before the LAST form
    patch: Option<usize>,
    /// (form index, cells to leave): after `prepare_eval` of that form the harness allocates garbage cells until
    /// only that many are left on the free list, so that the next allocations of the program grow the heap
    /// INSIDE an instruction; forced collections (if any) start only with the following form
    fill: Option<(usize, usize)>,
}

// ------------------------------------------------------------------ hand-assembled bytecode
//
// The compiler never emits PUSH, never addresses an argument through a BasePointerOffset operand (every
// formal is in the environment map) and never produces malformed code, so those paths of `run_one` are
// reached by overwriting the bytecode of a compiled procedure `(define (syn a b) …)` (its ENTER is kept, so
// the frame, `bp` and `ep` are the real ones) through `verif_heap_mut`.

const SYNTHETIC_PROGRAMS: usize = 14;

struct SynCtx {
    lam: usize,
    closure: usize,
    slot: usize,
    sym: usize,
    scratch: usize,
}

fn synthetic_code(which: usize, cx: &SynCtx) -> Vec<VCell> {
    use marwood::number::Number;
    use VCell::{Acc, ArgumentCount, BasePointerOffset, GlobalEnvSlot, LexicalEnvSlot, Nil, Ptr};
    let num = |n: i64| VCell::Number(Number::from(n));
    let op = |o: OpCode| VCell::OpCode(o);
    let mut bc = vec![op(OpCode::Enter)];
    match which {
        0 => {
            bc.extend(vec![
                op(OpCode::PushImmediate), num(7),
                op(OpCode::Push), Acc,
                op(OpCode::Push), BasePointerOffset(-1),
                op(OpCode::Push), BasePointerOffset(0),
                op(OpCode::Push), GlobalEnvSlot(cx.slot),
                op(OpCode::Push), LexicalEnvSlot(0),
                op(OpCode::Push), LexicalEnvSlot(1),
                op(OpCode::Push), Ptr(cx.lam),
                op(OpCode::Push), Ptr(cx.sym),
                op(OpCode::Push), Ptr(cx.closure),
                op(OpCode::Mov), BasePointerOffset(0), Acc,
                op(OpCode::Mov), Acc, BasePointerOffset(5),
                op(OpCode::Mov), Ptr(cx.sym), Acc,
                op(OpCode::PushAcc),
                op(OpCode::PushAcc),
                op(OpCode::Cons),
                op(OpCode::PushImmediate), VCell::symbol("never-interned-zz"),
                op(OpCode::PushImmediate), VCell::symbol("never-interned-zz"),
                op(OpCode::Cons),
                op(OpCode::Mov), Acc, Ptr(cx.scratch),
                op(OpCode::Mov), Ptr(cx.scratch), Acc,
                op(OpCode::Mov), GlobalEnvSlot(cx.slot), Ptr(cx.scratch),
                op(OpCode::MovImmediate), num(1), LexicalEnvSlot(0),
                op(OpCode::Mov), LexicalEnvSlot(0), BasePointerOffset(6),
                op(OpCode::Mov), BasePointerOffset(-1), LexicalEnvSlot(1),
                op(OpCode::Mov), Ptr(cx.closure), GlobalEnvSlot(cx.slot),
                op(OpCode::MovImmediate), VCell::symbol("imm-sym"), Acc,
                op(OpCode::PushAcc),
                op(OpCode::MovImmediate), num(5), Acc,
                op(OpCode::Ret),
            ]);
        }
        1 => bc.extend(vec![op(OpCode::Jmp), num(3)]),
        2 => bc.extend(vec![op(OpCode::Push), op(OpCode::Halt)]),
        3 => bc.extend(vec![op(OpCode::Push), num(3)]),
        4 => bc.extend(vec![num(3)]),
        5 => {}
        6 => bc.extend(vec![op(OpCode::Mov), Acc, BasePointerOffset(100000)]),
        7 => bc.extend(vec![op(OpCode::Push), BasePointerOffset(-1000)]),
        8 => bc.extend(vec![op(OpCode::MovImmediate), num(1), Acc, op(OpCode::ClosureAcc)]),
        9 => bc.extend(vec![op(OpCode::MovImmediate), Ptr(cx.sym), Acc, op(OpCode::ClosureAcc)]),
        10 => bc.extend(vec![op(OpCode::MovImmediate), num(1), Acc, op(OpCode::Enter)]),
        11 => bc.extend(vec![op(OpCode::Mov), Acc, num(1)]),
        12 => bc.extend(vec![op(OpCode::MovImmediate), Ptr(cx.sym), Acc, op(OpCode::PushImmediate), ArgumentCount(0), op(OpCode::CallAcc)]),
        13 => bc.extend(vec![op(OpCode::MovImmediate), Nil, Acc, op(OpCode::VPushAcc)]),
        // probes (sub-command `probe`, not part of the stream): operands outside the structures they index.
        // The Rust accessors panic (`expect`); the model's total `HeapOps` signatures return a default /
        // an error there (ConcreteHeap.lean, decision 4).
        14 => bc.extend(vec![op(OpCode::Push), LexicalEnvSlot(99)]),
        15 => bc.extend(vec![op(OpCode::Push), GlobalEnvSlot(999_999)]),
        16 => bc.extend(vec![op(OpCode::Push), Ptr(99_999_999)]),
        17 => bc.extend(vec![op(OpCode::MovImmediate), Nil, LexicalEnvSlot(99)]),
        18 => bc.extend(vec![op(OpCode::MovImmediate), Nil, GlobalEnvSlot(999_999)]),
        _ => bc.extend(vec![op(OpCode::MovImmediate), Nil, Ptr(99_999_999)]),
    }
    bc
}

/// overwrite the bytecode of the global procedure `syn`; false when it cannot be found
fn apply_patch(vm: &mut Vm, which: usize) -> bool {
    use marwood::number::Number;
    let sym = match vm.verif_heap().verif_symbol_table().get("syn") {
        Some(p) => *p,
        None => return false,
    };
    let slot = match vm.verif_globenv().verif_bindings().iter().find(|(k, _)| *k == sym) {
        Some((_, s)) => *s,
        None => return false,
    };
    let closure = match vm.verif_globenv().get_slot(slot) {
        VCell::Ptr(c) => c,
        _ => return false,
    };
    let lam = match vm.verif_heap().verif_cells().get(closure) {
        Some(VCell::Closure(l, _)) => *l,
        _ => return false,
    };
    let old = match vm.verif_heap().verif_cells().get(lam) {
        Some(VCell::Lambda(l)) => (**l).clone(),
        _ => return false,
    };
    let scratch = match vm.verif_heap_mut().put(VCell::Number(Number::from(0))) {
        VCell::Ptr(p) => p,
        _ => return false,
    };
    let cx = SynCtx { lam, closure, slot, sym, scratch };
    let mut new = old;
    new.bc = synthetic_code(which, &cx);
    *vm.verif_heap_mut().get_at_index_mut(lam) = VCell::Lambda(Rc::new(new));
    true
}

fn gen_programs(rng: &mut Rng, n: usize, seed: u64) -> Vec<Program> {
    let mut g = Gen::new(seed ^ 0x51357e9);
    let mut out = vec![];
    for i in 0..n {
        // quarters: feature programs, allocation-heavy templates of the collector streams, generated sessions,
        // hand-assembled bytecode
        let mut patch = None;
        let mut fill = None;
        let (label, forms) = match i % 4 {
            0 => {
                let w = (i / 4) % FEATURE_PROGRAMS;
                // CONS and VPUSH are emitted for quasiquote templates only: every feature session starts with some;
                // the VALUE of a quasiquoted vector is kept in a global and returned from a procedure, so that the
                // clause `inline-vector` of safe-side-conditions sees what VPUSH left in %acc travel (fix 43d0413)
                let k = rng.below(9);
                let prefix = format!(
                    "`(1 ,(+ 1 {k}) #(a ,(list {k}) b ,{k}) (k . ,(car '(z)))) `#(,(vector {k}) (,{k}))
                     (define qv0 `#(,(list 1 {k}))) (define (qf0 x) `#(1 ,x)) (define qu0 (qf0 (list 5 {k}))) (vector-ref qv0 0) qu0
                     (+ 1 (call/cc (lambda (k) (+ 2 (k {k}))))) (car (eval '(quote (a {k}))))"
                );
                (format!("feature{}", w), split_forms(&format!("{} {}", prefix, feature_program(rng, w))))
            }
            1 => {
                let w = (i / 4) % programs::TEMPLATE_COUNT;
                (format!("template{}", w), split_forms(&programs::template(rng, w)))
            }
            2 => {
                let forms: Vec<String> = g.session(2 + (i % 5), 1 + i % 3).iter().map(|f| f.render()).collect();
                ("session".to_string(), forms)
            }
            _ if (i / 4) % 4 == 3 => {
                fill = Some((3, rng.below(6) as usize));
                let n = 2 + rng.below(4);
                (
                    "heapfull".to_string(),
                    split_forms(&format!(
                        "(define (mk n) (if (= n 0) '() (cons (lambda () n) (mk (- n 1))))) (define (va . r) r) (define k0 #f)
                         (begin (va 1 2 3) (mk {n}) (call/cc (lambda (k) (set! k0 k) 1)) `(1 ,(+ 1 1)) (length (mk 4)))
                         (length (mk {n})) (va 1 2) (if k0 (let ((k k0)) (set! k0 #f) (k 2)) 'done)"
                    )),
                )
            }
            _ => {
                let w = if (i / 4) % 4 == 0 { 0 } else { 1 + (i / 8) % (SYNTHETIC_PROGRAMS - 1) };
                patch = Some(w);
                let n = 1 + rng.below(20);
                (
                    format!("synthetic{}", w),
                    split_forms(&format!(
                        "(define (churn n) (if (= n 0) 'ok (begin (list n n) (churn (- n 1))))) (churn {n})
                         (define (syn a b) (lambda () (list a b)) (list a b)) (syn 1 2) (syn '(x) \"y\")"
                    )),
                )
            }
        };
        // every second program of a kind runs with forced collections, so that the free list is scrambled
        let gc_every = if (i / 4) % 2 == 1 || (patch == Some(0) && (i / 8) % 2 == 1) {
            Some(*rng.pick(&[3u64, 5, 7, 16, 50, 200]))
        } else {
            None
        };
        out.push(Program { label, forms, gc_every, patch, fill });
    }
    out
}

// ------------------------------------------------------------------ stepping

