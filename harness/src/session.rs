//! Running sessions in a real `Vm` with canonical observations.
use marwood::cell::Cell;
use marwood::error::Error;
use marwood::vm::{SystemInterface, Vm};
use std::cell::RefCell;
use std::rc::Rc;

#[derive(Debug)]
pub struct LogInterface {
    pub log: Rc<RefCell<Vec<String>>>,
}

impl SystemInterface for LogInterface {
    fn display(&self, cell: &Cell) {
        self.log.borrow_mut().push(format!("d:{}", cell));
    }
    fn write(&self, cell: &Cell) {
        self.log.borrow_mut().push(format!("w:{:#}", cell));
    }
    fn terminal_dimensions(&self) -> (usize, usize) {
        (80, 24)
    }
    fn time_utc(&self) -> u64 {
        0
    }
}

pub fn new_vm() -> (Vm, Rc<RefCell<Vec<String>>>) {
    let log = Rc::new(RefCell::new(vec![]));
    let mut vm = Vm::new();
    vm.set_system_interface(Box::new(LogInterface { log: log.clone() }));
    (vm, log)
}

/// small error enum: never the message text
pub fn error_class(e: &Error) -> &'static str {
    match e {
        Error::ErrorSignal(_) => "user",
        Error::ExpectedType(_, _) => "type",
        Error::ExpectedPairButFound(_) => "type",
        Error::InvalidArgs(_, _, _) => "syntax",
        Error::InvalidNumArgs(_) => "arity",
        Error::InvalidBytecode => "internal",
        Error::InvalidProcedure(_) => "not-procedure",
        Error::InvalidStackIndex(_) => "internal",
        Error::InvalidUsePrimitive(_) => "syntax",
        Error::InvalidSyntax(_) => "syntax",
        Error::LambdaMissingExpression => "syntax",
        Error::MisplacedMacroKeyword(_) => "syntax",
        Error::VariableNotBound(_) => "unbound",
        Error::UnquotedNil => "syntax",
        Error::InvalidVectorIndex(_, _) => "range",
        Error::InvalidStringIndex(_, _) => "range",
        Error::ParseError(marwood::parse::Error::Incomplete) => "parse-incomplete",
        Error::ParseError(_) => "parse-other",
        Error::LexError(_) => "lex",
    }
}

/// canonical rendering of the outcome of one form (spaces inside the value are kept; the
/// caller joins observations with a separator that cannot occur)
pub fn render(r: &Result<Cell, Error>) -> String {
    match r {
        Ok(c) => format!("ok {:#}", c),
        Err(e) => format!("err {}", error_class(e)),
    }
}

/// escape tabs/newlines so an observation fits on a protocol line
pub fn oneline(s: &str) -> String {
    s.replace('\\', "\\\\").replace('\n', "\\n").replace('\t', "\\t").replace('\r', "\\r")
}

/// evaluate one form (text of exactly one datum) uninterrupted
pub fn eval_form(vm: &mut Vm, text: &str) -> Result<Cell, Error> {
    let (cell, _) = marwood::parse::parse_text(text)?;
    // same as `Vm::eval` (prepare_eval + run) but with an instruction ceiling: generated programs terminate
    // by construction, so a form that is still running after 5*10^7 instructions is a generator bug (or a
    // seeded change that makes the VM loop); stop instead of exhausting the machine's memory.
    vm.prepare_eval(&cell)?;
    match vm.run_count(50_000_000)? {
        Some(c) => Ok(c),
        None => {
            eprintln!("verif harness: evaluation exceeded 5e7 instructions: {}", text);
            println!("#oracle budget-exceeded {}\tno-completion\tcompletes", oneline(text));
            std::process::exit(0)
        }
    }
}
