//! Wire rendering of heap cells, heap snapshots, roots and post-collection summaries
//! (decoded by lean/Driver/Gc.lean).
//!
//! vcell   := atom | `o<k>` (opcode k) | `y:<text>` (symbol) | `P a d` | `p a` | `K l e` | `E a` | `L a s`
//!          | `I l o` | `e n v*n` (lexical env) | `v n v*n` (vector) | `l nb na ne v*nb v*na v*ne` (lambda:
//!          bytecode, args, envmap symbols) | `k n v*n l e` (continuation: stack, ip lambda, ep)
//! atom    := U V N B C # S A an bp bo bi gs ls M
//! heap    := `h <chunk> <capacity> <m> (<addr> <f|a|u> vcell)*m  f <n> addr*n  t <n> (<text> <addr>)*n`
//!            (cells that are Free and Undefined are omitted; the free list is in Vec order, last = next)
//! roots   := `r <n> addr*n <n> vcell*n <n> vcell*n vcell <ipl> <ep>` (global symbol keys, global slots,
//!            stack[0..=sp], acc, ip.0, ep)
use marwood::vm::gc::State;
use marwood::vm::heap::Heap;
use marwood::vm::opcode::OpCode;
use marwood::vm::vcell::VCell;
use marwood::vm::Vm;
use mwv::wire::enc_text;

pub fn opcode_index(op: &OpCode) -> usize {
    match op {
        OpCode::Cons => 0,
        OpCode::Jmp => 1,
        OpCode::Jnt => 2,
        OpCode::Mov => 3,
        OpCode::MovImmediate => 4,
        OpCode::Push => 5,
        OpCode::PushAcc => 6,
        OpCode::PushImmediate => 7,
        OpCode::Halt => 8,
        OpCode::VPushAcc => 9,
        OpCode::CallAcc => 10,
        OpCode::ClosureAcc => 11,
        OpCode::Enter => 12,
        OpCode::Ret => 13,
        OpCode::TCallAcc => 14,
        OpCode::VarArg => 15,
    }
}

pub fn enc_vcell(v: &VCell, out: &mut String) {
    use std::fmt::Write;
    match v {
        VCell::Undefined => out.push('U'),
        VCell::Void => out.push('V'),
        VCell::Nil => out.push('N'),
        VCell::Bool(_) => out.push('B'),
        VCell::Char(_) => out.push('C'),
        VCell::Number(_) => out.push('#'),
        VCell::String(_) => out.push('S'),
        VCell::Acc => out.push('A'),
        VCell::ArgumentCount(_) => out.push_str("an"),
        VCell::BasePointer(_) => out.push_str("bp"),
        VCell::BasePointerOffset(_) => out.push_str("bo"),
        VCell::BuiltInProc(_) => out.push_str("bi"),
        VCell::GlobalEnvSlot(_) => out.push_str("gs"),
        VCell::LexicalEnvSlot(_) => out.push_str("ls"),
        VCell::Macro(_) => out.push('M'),
        VCell::OpCode(op) => write!(out, "o{}", opcode_index(op)).unwrap(),
        VCell::Symbol(s) => write!(out, "y:{}", enc_text(s)).unwrap(),
        VCell::Pair(a, d) => write!(out, "P {} {}", a, d).unwrap(),
        VCell::Ptr(a) => write!(out, "p {}", a).unwrap(),
        VCell::Closure(l, e) => write!(out, "K {} {}", l, e).unwrap(),
        VCell::EnvironmentPointer(a) => write!(out, "E {}", a).unwrap(),
        VCell::LexicalEnvPtr(a, s) => write!(out, "L {} {}", a, s).unwrap(),
        VCell::InstructionPointer(l, o) => write!(out, "I {} {}", l, o).unwrap(),
        VCell::LexicalEnv(env) => {
            let n = env.slot_len();
            write!(out, "e {}", n).unwrap();
            for i in 0..n {
                out.push(' ');
                enc_vcell(&env.get(i), out);
            }
        }
        VCell::Vector(vec) => {
            let n = vec.len();
            write!(out, "v {}", n).unwrap();
            for i in 0..n {
                out.push(' ');
                enc_vcell(&vec.get(i).unwrap(), out);
            }
        }
        VCell::Lambda(l) => {
            let em = l.envmap.get_map();
            write!(out, "l {} {} {}", l.bc.len(), l.args.len(), em.len()).unwrap();
            for c in &l.bc {
                out.push(' ');
                enc_vcell(c, out);
            }
            for c in &l.args {
                out.push(' ');
                enc_vcell(c, out);
            }
            for c in em {
                out.push(' ');
                enc_vcell(&c.0, out);
            }
        }
        VCell::Continuation(c) => {
            let slots = c.stack().verif_slots();
            write!(out, "k {}", slots.len()).unwrap();
            for s in slots {
                out.push(' ');
                enc_vcell(s, out);
            }
            write!(out, " {} {}", c.ip().0, c.ep()).unwrap();
        }
    }
}

fn state_char(s: Option<State>) -> char {
    match s {
        Some(State::Free) => 'f',
        Some(State::Allocated) => 'a',
        Some(State::Used) => 'u',
        None => '?',
    }
}

pub fn enc_heap(heap: &Heap) -> String {
    use std::fmt::Write;
    let cells = heap.verif_cells();
    let mut body = String::new();
    let mut m = 0;
    for (i, c) in cells.iter().enumerate() {
        let st = heap.verif_gc_state(i);
        if st == Some(State::Free) && matches!(c, VCell::Undefined) {
            continue;
        }
        m += 1;
        write!(body, " {} {} ", i, state_char(st)).unwrap();
        enc_vcell(c, &mut body);
    }
    let mut out = format!("h {} {} {}{}", heap.verif_chunk_size(), cells.len(), m, body);
    let fl = heap.verif_free_list();
    write!(out, " f {}", fl.len()).unwrap();
    for a in fl {
        write!(out, " {}", a).unwrap();
    }
    let mut st: Vec<(&String, &usize)> = heap.verif_symbol_table().iter().collect();
    st.sort();
    write!(out, " t {}", st.len()).unwrap();
    for (name, addr) in st {
        write!(out, " {} {}", enc_text(name), addr).unwrap();
    }
    out
}

pub fn enc_roots(vm: &Vm) -> String {
    use std::fmt::Write;
    let mut out = String::from("r");
    let mut syms: Vec<usize> = vm.verif_globenv().iter_bindings().copied().collect();
    syms.sort();
    write!(out, " {}", syms.len()).unwrap();
    for s in syms {
        write!(out, " {}", s).unwrap();
    }
    let slots: Vec<&VCell> = vm.verif_globenv().iter_slots().collect();
    write!(out, " {}", slots.len()).unwrap();
    for s in slots {
        out.push(' ');
        enc_vcell(s, &mut out);
    }
    let sp = vm.verif_stack().get_sp();
    let st = &vm.verif_stack().verif_slots()[0..sp + 1];
    write!(out, " {}", st.len()).unwrap();
    for s in st {
        out.push(' ');
        enc_vcell(s, &mut out);
    }
    let (acc, ep, ip, _bp) = vm.verif_regs();
    out.push(' ');
    enc_vcell(acc, &mut out);
    write!(out, " {} {}", ip.0, ep).unwrap();
    out
}

pub fn snapshot(vm: &Vm) -> String {
    format!("{} {}", enc_heap(vm.verif_heap()), enc_roots(vm))
}

fn ranges(v: &[usize]) -> String {
    // v sorted ascending, may contain duplicates (kept as repeated singletons)
    if v.is_empty() {
        return "-".into();
    }
    let mut out: Vec<String> = vec![];
    let mut i = 0;
    while i < v.len() {
        let mut j = i;
        while j + 1 < v.len() && v[j + 1] == v[j] + 1 {
            j += 1;
        }
        if j == i {
            out.push(format!("{}", v[i]));
        } else {
            out.push(format!("{}-{}", v[i], v[j]));
        }
        i = j + 1;
    }
    out.join(",")
}

/// Renaming-free summary of a heap: capacity, non-free addresses, free list as a sorted multiset,
/// symbol table sorted by (address, name), number of cells left in state Used.
pub fn summary(heap: &Heap) -> String {
    let cells = heap.verif_cells();
    let alloc: Vec<usize> = (0..cells.len())
        .filter(|i| heap.verif_gc_state(*i) != Some(State::Free))
        .collect();
    let used = (0..cells.len())
        .filter(|i| heap.verif_gc_state(*i) == Some(State::Used))
        .count();
    let mut fl: Vec<usize> = heap.verif_free_list().to_vec();
    fl.sort();
    let mut st: Vec<(usize, String)> = heap
        .verif_symbol_table()
        .iter()
        .map(|(k, v)| (*v, enc_text(k)))
        .collect();
    st.sort();
    let st: Vec<String> = st.iter().map(|(a, n)| format!("{}={}", a, n)).collect();
    format!(
        "c{} a{} f{} u{} t{}",
        cells.len(),
        ranges(&alloc),
        ranges(&fl),
        used,
        if st.is_empty() { "-".to_string() } else { st.join(";") }
    )
}

/// Full state for the Heap-API operation streams: every cell, the free list in order.
pub fn full_state(heap: &Heap) -> String {
    let mut out = String::new();
    for (i, c) in heap.verif_cells().iter().enumerate() {
        if i > 0 {
            out.push(' ');
        }
        out.push(state_char(heap.verif_gc_state(i)));
        out.push(':');
        let mut s = String::new();
        enc_vcell(c, &mut s);
        out.push_str(&s.replace(' ', "_"));
    }
    out.push_str(" fl");
    for a in heap.verif_free_list() {
        out.push_str(&format!(" {}", a));
    }
    out
}
