// Mode `runlx` of bin/simstep.rs (textually included there with `include!`; not a module of its own).
//
// For CALL / TCALL of a generic builtin that is in the table of lean/Marwood/Vm/ListExt.lean the request carries
// `X lx <table index> <eq bit>` instead of the recorded outcome: the Lean driver then COMPUTES the builtin's result
// and heap effect with `Marwood.Vm.Concrete.ListExt.builtinEval` (the model the law theorems `listExtWith_*` are
// about) and the whole post-state is compared with the real VM's, exactly like a core step. Info bucket `listext`.
// `<eq bit>` is the real answer of `Vm::eqv` on the two operands of `eq?` / `eqv?` (0 elsewhere): the model uses it
// only where both operands are numbers or both are strings — payloads that are opaque tags in the machine model.

/// table index of `Marwood.Vm.Concrete.ListExt.primOfIdx`
fn lx_index(desc: &str) -> Option<usize> {
    Some(match desc {
        "car" => 1,
        "cdr" => 2,
        "cons" => 3,
        "set-car!" => 4,
        "set-cdr!" => 5,
        "null?" => 6,
        "pair?" => 7,
        "eq?" => 8,
        "not" => 9,
        "eqv?" => 10,
        "boolean?" => 11,
        "char?" => 12,
        "string?" => 13,
        "symbol?" => 14,
        "number?" => 15,
        "vector?" => 16,
        "procedure?" => 17,
        _ => return None,
    })
}

/// `Vm::eqv` of the two operands under the `ArgumentCount(2)` on top of the stack (`eq?` / `eqv?` only)
fn lx_eqbit(vm: &Vm, idx: usize, slots: &[VCell], sp: usize) -> bool {
    if idx != 8 && idx != 10 {
        return false;
    }
    match (slots.get(sp), sp.checked_sub(1).and_then(|i| slots.get(i)), sp.checked_sub(2).and_then(|i| slots.get(i))) {
        (Some(VCell::ArgumentCount(2)), Some(l), Some(r)) => {
            matches!(catch(std::panic::AssertUnwindSafe(|| vm.eqv(l, r))), Ok(Ok(true)))
        }
        _ => false,
    }
}

/// hand-written sessions for the table builtins the generated corpus rarely calls: the type predicates, `eq?` /
/// `eqv?` on payloads (numbers of different representation, strings by content, pairs with equal fields), and the
/// error classes (a failing form ends its session, so each is the last form of its own session)
fn lx_extra_programs() -> Vec<Program> {
    let ok = [
        "(define l (list 1 2)) (boolean? #t) (boolean? l) (char? #\\a) (char? 1) (string? \"s\") (string? 's)
         (symbol? 'a) (symbol? \"a\") (null? '()) (null? l) (pair? l) (pair? '()) (pair? (vector 1))",
        "(number? 1) (number? 2.5) (number? 'a) (vector? (vector 1 2)) (vector? '(1)) (procedure? car)
         (procedure? (lambda (x) x)) (procedure? 1) (procedure? (call/cc (lambda (k) k))) (vector? \"v\")",
        "(eq? 2 2) (eq? 2 2.0) (eq? 2 3) (eqv? 1.5 1.5) (eq? \"ab\" \"ab\") (eq? \"ab\" \"ac\")
         (eqv? 100000000000000000000 100000000000000000000) (eq? 1/2 0.5) (eq? #\\a #\\a) (eq? #\\a #\\b)
         (eq? 'a 'a) (eq? 'a 'b) (eq? '() '()) (eq? #t #t) (eq? #t #f) (eq? 1 'a) (eq? \"a\" 'a) (eqv? 2 2.5)",
        "(define p (cons 1 2)) (eq? p p) (eq? p (cons 1 2)) (eq? (vector) (vector)) (eq? car car) (eq? car cdr)
         (define v (vector 1)) (eq? v v) (eq? (lambda () 1) (lambda () 1)) (not 1) (not #f) (not #t) (not '())
         (define s \"xy\") (eq? s s) (eqv? p (cdr (cons 0 p)))",
        "(cons 1 2) (cons 'a \"s\") (cons (cons 1 2) '()) (set-car! (cons 1 2) 'x) (define q (cons 1 2))
         (set-cdr! q (cons 3 '())) (car q) (cdr q) (set-car! q 5) (car q) (set-cdr! q 'sym) (cdr q) (set-car! q q) (eq? (car q) q)",
    ];
    let failing = [
        "(car 1)", "(cdr '())", "(set-car! 5 1)", "(set-cdr! 'a 1)", "(cons 1)", "(car)", "(car '(1) 2)", "(null? 1 2)",
        "(eq? 1)", "(pair?)", "(not)", "(cdr \"s\")", "(car (vector 1 2))", "(set-car! (cons 1 2))", "(cons 1 2 3)",
        "(symbol? 'a 'b)",
    ];
    let mut out = vec![];
    for (i, t) in ok.iter().enumerate() {
        for (j, gc) in [None, Some(2u64)].iter().enumerate() {
            out.push(Program {
                label: format!("lx-ok{}-{}", i, j),
                forms: split_forms(t),
                gc_every: *gc,
                patch: None,
                fill: None,
            });
        }
    }
    for (i, t) in failing.iter().enumerate() {
        out.push(Program {
            label: format!("lx-err{}", i),
            forms: split_forms(&format!("(define w (cons 1 2)) (car w) {}", t)),
            gc_every: if i % 2 == 0 { None } else { Some(3) },
            patch: None,
            fill: None,
        });
    }
    out
}

/// `simstep runlx <programs> <lines-per-program>`: only calls of table builtins are recorded
fn cmd_runlx(args: &[String], seed: u64) {
    let nprog: usize = args[0].parse().unwrap();
    let per: usize = args[1].parse().unwrap();
    let mut rng = Rng::new(seed ^ 0x5157e9);
    let mut progs = gen_programs(&mut rng, nprog, seed);
    let extra = lx_extra_programs();
    let nextra = extra.len();
    progs.extend(extra);
    let stdout = std::io::stdout();
    let mut out = std::io::BufWriter::new(stdout.lock());
    let mut taken: HashMap<String, usize> = HashMap::new();
    let mut total = 0usize;
    for (pi, prog) in progs.iter().enumerate() {
        if prog.patch.is_some() {
            continue;
        }
        // every call of the hand-written sessions is recorded
        let per = if pi + nextra >= progs.len() { 64 } else { per };
        // pass 1: the calls of table builtins, by builtin and outcome class
        let mut occ: BTreeMap<String, Vec<u64>> = BTreeMap::new();
        run_program(
            prog,
            false,
            &mut |n, c| {
                if let Some((idx, _)) = c.lx {
                    occ.entry(format!("{}:{}", c.op, idx)).or_default().push(n);
                }
                false
            },
            &mut |_| {},
        );
        // choose: globally rarest builtin first, a random occurrence each, at most `per` per program
        let mut chosen: Vec<u64> = vec![];
        let mut round = 0;
        while chosen.len() < per && round < 4 {
            let mut keys: Vec<&String> = occ.keys().collect();
            keys.sort_by_key(|k| (taken.get(*k).copied().unwrap_or(0), (*k).clone()));
            let mut progress = false;
            for k in keys {
                if chosen.len() >= per {
                    break;
                }
                let cand: Vec<u64> = occ[k].iter().filter(|n| !chosen.contains(n)).copied().collect();
                if cand.is_empty() {
                    continue;
                }
                // the LAST occurrence half of the time in the first round: a failing call ends its session
                let pick = if round == 0 && rng.chance(1, 2) { *cand.last().unwrap() } else { *rng.pick(&cand) };
                chosen.push(pick);
                *taken.entry(k.clone()).or_insert(0) += 1;
                progress = true;
            }
            if !progress {
                break;
            }
            round += 1;
        }
        run_program(
            prog,
            true,
            &mut |n, _| chosen.contains(&n),
            &mut |line| {
                total += 1;
                writeln!(out, "{}", line).unwrap();
            },
        );
    }
    let mut t: Vec<(String, usize)> = taken.into_iter().collect();
    t.sort();
    eprintln!("lines: {} classes: {:?}", total, t);
}
