//! Generator of the `expand` stream of C17 (T17.3, the expansion driver `Vm::transform`):
//! a few top-level `define-syntax` forms followed by one form to transform.
//!
//! The forms nest macro uses as operands of macro uses (prelude macros and user macros whose
//! expansion or rule choice shows whether the operands were expanded first), put macro uses inside
//! `lambda` bodies, `define`, `if`, `set!`, under `quote`, in quasiquote templates (unquoted at level
//! 0, at level 1, in vectors), use macros that expand to other macros (`cond` → `if`/`begin` →
//! `lambda`, user macros → user macros), redefine a prelude keyword, define a transformer that
//! `try_new` rejects, and (rarely) bind a macro keyword as a variable or loop forever.
use marwood::cell::Cell;
use marwood::number::Number;
use mwv::rng::Rng;

fn sym(s: &str) -> Cell {
    Cell::Symbol(s.to_string())
}
fn int(n: i64) -> Cell {
    Cell::Number(Number::Fixnum(n))
}
fn list(v: Vec<Cell>) -> Cell {
    Cell::new_list(v)
}
pub fn parse(t: &str) -> Cell {
    marwood::parse::parse_text(t).unwrap().0
}

/// user macros: (keyword, definition)
pub const POOL: [(&str, &str); 11] = [
    ("q1", "(define-syntax q1 (syntax-rules () ((_ a) (quote a))))"),
    ("q2", "(define-syntax q2 (syntax-rules () ((_ a b ...) (list (quote a) b ...))))"),
    ("sw", "(define-syntax sw (syntax-rules () ((_ (x y)) (y x)) ((_ z) (quote z))))"),
    ("my-if", "(define-syntax my-if (syntax-rules (then else) ((_ c then a else b) (cond (c a) (else b))) ((_ c then a) (when c a))))"),
    ("wrap", "(define-syntax wrap (syntax-rules () ((_ e ...) (q2 e ... (q1 (and e ...))))))"),
    ("when", "(define-syntax when (syntax-rules () ((_ c e) (if c (quote (new-when e)) #f))))"),
    ("for", "(define-syntax for (syntax-rules (in) ((_ x in l body ...) (for-each (lambda (x) body ...) l))))"),
    ("lp", "(define-syntax lp (syntax-rules () ((_) (lp)) ((_ a) (lp2 a)) ((_ a b) (lp b))))"),
    ("bad", "(define-syntax bad (syntax-rules () ((_ (a ...) ...) (a ... ...))))"),
    ("q1", "(define-syntax q1 (syntax-rules () ((_ a) (quote (second a))) ((_ a b) (q1 b))))"),
    ("lp2", "(define-syntax lp2 (syntax-rules () ((_ a) (sw (a a)))))"),
];

const VARS: [&str; 6] = ["x", "y", "z", "f", "g", "n"];
const KEYWORDS: [&str; 8] = ["and", "or", "when", "begin", "let", "cond", "q1", "sw"];

pub struct ExGen<'a> {
    pub rng: &'a mut Rng,
    /// keywords of the user macros of this case
    pub user: Vec<String>,
    /// may bind a macro keyword as a variable (finding C17-driver-keyword-in-binding-position)
    pub kw_binding: bool,
    /// may use `(lp)` (expands forever)
    pub looping: bool,
}

impl<'a> ExGen<'a> {
    fn below(&mut self, n: usize) -> usize {
        self.rng.below(n as u64) as usize
    }
    fn var(&mut self) -> Cell {
        if self.kw_binding && self.rng.chance(1, 3) {
            let i = self.below(KEYWORDS.len());
            return sym(KEYWORDS[i]);
        }
        let i = self.below(VARS.len());
        sym(VARS[i])
    }
    fn atom(&mut self) -> Cell {
        match self.below(8) {
            0..=2 => int(self.rng.range(0, 9)),
            3 => Cell::Bool(self.rng.chance(1, 2)),
            4 => Cell::String("s".into()),
            _ => {
                let i = self.below(VARS.len());
                sym(VARS[i])
            }
        }
    }
    fn exprs(&mut self, depth: usize, lo: usize, hi: usize) -> Vec<Cell> {
        let n = lo + self.below(hi - lo + 1);
        (0..n).map(|_| self.expr(depth)).collect()
    }
    /// data that look like code
    fn datum(&mut self, depth: usize) -> Cell {
        if depth >= 3 || self.rng.chance(2, 5) {
            return match self.below(4) {
                0 => {
                    let i = self.below(KEYWORDS.len());
                    sym(KEYWORDS[i])
                }
                _ => self.atom(),
            };
        }
        match self.below(6) {
            0 => parse("(and 1 2)"),
            1 => parse("(q1 (or))"),
            2 => Cell::Vector((0..self.below(3)).map(|_| self.datum(depth + 1)).collect()),
            _ => {
                let n = self.below(4);
                let mut v: Vec<Cell> = (0..n).map(|_| self.datum(depth + 1)).collect();
                if self.rng.chance(1, 3) {
                    let i = self.below(KEYWORDS.len());
                    v.insert(0, sym(KEYWORDS[i]));
                }
                list(v)
            }
        }
    }
    /// a quasiquote template at nesting level `level`
    fn template(&mut self, depth: usize, level: usize) -> Cell {
        if depth >= 3 {
            return self.datum(depth);
        }
        match self.below(10) {
            0 | 1 => list(vec![sym("unquote"), if level == 0 { self.expr(depth + 1) } else { self.template(depth + 1, level - 1) }]),
            2 => list(vec![sym("quasiquote"), self.template(depth + 1, level + 1)]),
            3 => Cell::Vector((0..self.below(3)).map(|_| self.template(depth + 1, level)).collect()),
            4 => self.datum(depth + 1),
            5 => parse("(when 1 2)"),
            _ => {
                let n = 1 + self.below(3);
                let mut v: Vec<Cell> = (0..n).map(|_| self.template(depth + 1, level)).collect();
                if self.rng.chance(1, 4) {
                    let i = self.below(KEYWORDS.len());
                    v.insert(0, sym(KEYWORDS[i]));
                }
                list(v)
            }
        }
    }
    fn formals(&mut self) -> Cell {
        match self.below(6) {
            0 => self.var(),
            1 => Cell::new_improper_list(vec![self.var()], self.var()),
            _ => list((0..self.below(3)).map(|_| self.var()).collect()),
        }
    }
    fn bindings(&mut self, depth: usize) -> Cell {
        let n = self.below(3);
        list((0..n).map(|_| list(vec![self.var(), self.expr(depth + 1)])).collect())
    }
    fn cond_clause(&mut self, depth: usize, last: bool) -> Cell {
        match self.below(if last { 5 } else { 4 }) {
            0 => list(vec![self.expr(depth + 1)]),
            1 => list(vec![self.expr(depth + 1), sym("=>"), self.expr(depth + 1)]),
            4 => {
                let mut v = vec![sym("else")];
                v.extend(self.exprs(depth + 1, 1, 2));
                list(v)
            }
            _ => {
                let mut v = vec![self.expr(depth + 1)];
                v.extend(self.exprs(depth + 1, 1, 2));
                list(v)
            }
        }
    }
    fn case_clause(&mut self, depth: usize, last: bool) -> Cell {
        let head = if last && self.rng.chance(1, 2) {
            sym("else")
        } else {
            list((0..1 + self.below(2)).map(|_| self.atom()).collect())
        };
        if self.rng.chance(1, 5) {
            list(vec![head, sym("=>"), self.expr(depth + 1)])
        } else {
            let mut v = vec![head];
            v.extend(self.exprs(depth + 1, 1, 2));
            list(v)
        }
    }
    fn prelude_use(&mut self, depth: usize) -> Cell {
        let d = depth + 1;
        match self.below(14) {
            0 => {
                let mut v = vec![sym("and")];
                v.extend(self.exprs(d, 0, 3));
                list(v)
            }
            1 => {
                let mut v = vec![sym("or")];
                v.extend(self.exprs(d, 0, 3));
                list(v)
            }
            2 => {
                let mut v = vec![sym("when")];
                v.extend(self.exprs(d, 2, 3));
                list(v)
            }
            3 => {
                let mut v = vec![sym("unless")];
                v.extend(self.exprs(d, 2, 3));
                list(v)
            }
            4 => {
                let mut v = vec![sym("begin")];
                v.extend(self.exprs(d, 0, 3));
                list(v)
            }
            5 => {
                let mut v = vec![sym("let"), self.bindings(depth)];
                v.extend(self.exprs(d, 1, 2));
                list(v)
            }
            6 => {
                let mut v = vec![sym("let"), sym("loop"), self.bindings(depth)];
                v.extend(self.exprs(d, 1, 2));
                list(v)
            }
            7 => {
                let mut v = vec![sym("let*"), self.bindings(depth)];
                v.extend(self.exprs(d, 1, 2));
                list(v)
            }
            8 => {
                let mut v = vec![sym(if self.rng.chance(1, 2) { "letrec" } else { "letrec*" }), self.bindings(depth)];
                v.extend(self.exprs(d, 1, 2));
                list(v)
            }
            9 | 10 => {
                let n = 1 + self.below(3);
                let mut v = vec![sym("cond")];
                for i in 0..n {
                    v.push(self.cond_clause(depth, i + 1 == n));
                }
                list(v)
            }
            11 => {
                let n = 1 + self.below(2);
                let mut v = vec![sym("case"), self.expr(d)];
                for i in 0..n {
                    v.push(self.case_clause(depth, i + 1 == n));
                }
                list(v)
            }
            12 => list(vec![sym(if self.rng.chance(1, 2) { "delay" } else { "delay-force" }), self.expr(d)]),
            _ => {
                // a use that matches no rule
                list(vec![sym(["when", "let", "cond", "case"][self.below(4)]), self.atom()])
            }
        }
    }
    fn user_use(&mut self, depth: usize) -> Cell {
        let d = depth + 1;
        // mostly a macro of this case, sometimes a keyword that is not defined in this case
        let name: String = if !self.user.is_empty() && self.rng.chance(5, 6) {
            let i = self.below(self.user.len());
            self.user[i].clone()
        } else {
            let i = self.below(POOL.len());
            POOL[i].0.to_string()
        };
        match name.as_str() {
            "sw" => match self.below(3) {
                // `(sw (or e))`: as written the first rule matches; an operand expanded first is not a 2-list
                0 => list(vec![sym("sw"), list(vec![sym(["or", "and", "begin", "q1"][self.below(4)]), self.expr(d)])]),
                1 => list(vec![sym("sw"), self.prelude_use(depth)]),
                _ => list(vec![sym("sw"), self.expr(d)]),
            },
            "my-if" => {
                if self.rng.chance(1, 2) {
                    list(vec![sym("my-if"), self.expr(d), sym("then"), self.expr(d), sym("else"), self.expr(d)])
                } else {
                    list(vec![sym("my-if"), self.expr(d), sym("then"), self.expr(d)])
                }
            }
            "for" => {
                let mut v = vec![sym("for"), self.var(), sym("in"), self.expr(d)];
                v.extend(self.exprs(d, 1, 2));
                list(v)
            }
            "lp" => {
                if self.looping && self.rng.chance(1, 2) {
                    list(vec![sym("lp")])
                } else if self.looping {
                    list(vec![sym("lp"), self.expr(d), list(vec![sym("lp")])])
                } else {
                    list(vec![sym("lp"), self.expr(d)])
                }
            }
            "when" => {
                let mut v = vec![sym("when")];
                v.extend(self.exprs(d, 2, 2));
                list(v)
            }
            "m" => list(vec![sym("m"), self.expr(d)]),
            other => {
                let mut v = vec![sym(other)];
                v.extend(self.exprs(d, 0, 3));
                list(v)
            }
        }
    }
    pub fn expr(&mut self, depth: usize) -> Cell {
        if depth >= 3 || self.rng.chance(1, 4) {
            return self.atom();
        }
        let d = depth + 1;
        match self.below(20) {
            0..=4 => self.prelude_use(depth),
            5..=8 => self.user_use(depth),
            9 => {
                let mut v = vec![sym(if self.rng.chance(1, 8) { "λ" } else { "lambda" }), self.formals()];
                v.extend(self.exprs(d, 1, 2));
                list(v)
            }
            10 => {
                if self.rng.chance(1, 2) {
                    list(vec![sym("define"), self.var(), self.expr(d)])
                } else {
                    let mut f = vec![self.var()];
                    f.extend((0..self.below(3)).map(|_| self.var()));
                    let mut v = vec![sym("define"), list(f)];
                    v.extend(self.exprs(d, 1, 2));
                    list(v)
                }
            }
            11 => {
                let mut v = vec![sym("if")];
                v.extend(self.exprs(d, 2, 3));
                list(v)
            }
            12 => list(vec![sym("set!"), self.var(), self.expr(d)]),
            13 => list(vec![sym("quote"), self.datum(d)]),
            14 | 15 => list(vec![sym("quasiquote"), self.template(d, 0)]),
            16 => {
                // the operator is itself a macro use / a lambda
                let mut v = vec![if self.rng.chance(1, 2) { self.prelude_use(depth) } else { self.expr(d) }];
                v.extend(self.exprs(d, 0, 2));
                list(v)
            }
            17 => {
                if self.rng.chance(1, 4) {
                    // improper combinations
                    match self.below(3) {
                        0 => Cell::new_improper_list(vec![sym("and")], int(5)),
                        1 => Cell::new_improper_list(vec![sym("f"), self.expr(d)], sym("x")),
                        _ => Cell::new_improper_list(vec![sym("f")], self.prelude_use(depth)),
                    }
                } else {
                    Cell::Vector((0..self.below(3)).map(|_| self.datum(d)).collect())
                }
            }
            _ => {
                let mut v = vec![self.var()];
                v.extend(self.exprs(d, 0, 3));
                list(v)
            }
        }
    }
}

/// the fixed cases of `expand-corpus`: (definitions, form)
pub fn corpus(idx: u64) -> Option<(Vec<Cell>, Cell)> {
    let q1 = POOL[0].1;
    let sw = POOL[2].1;
    let cases: [(&[&str], &str); 26] = [
        // seeded change C17b-2: the transformer must see the operands as written
        (&[q1], "(q1 (and 1 2))"),
        (&[sw], "(sw (or 1))"),
        (&[sw], "(sw (begin 1))"),
        (&[q1], "(f (q1 (or)) (and (q1 (when 1 2)) 3))"),
        (&[], "(cond ((and 1 2) => (lambda (x) (or x 1))) (else (when 1 2)))"),
        (&[], "(let loop ((i 0)) (if (and i 1) (loop (or i 2))))"),
        (&[], "(let* ((a 1) (b (and a 2))) (when a b))"),
        (&[], "(case (or 1 2) ((1 2) (and 3)) (else => (lambda (x) x)))"),
        (&[], "(lambda (x) (define y (and x 1)) (set! y (or y)) `(x ,(when x y) (when x y) #(1 ,(and)) `(a ,(and) ,,(and))))"),
        (&[], "(quote (and 1 2))"),
        (&[], "(quasiquote (and 1 2) (and 3 4))"),
        (&[], "((and f) (or) . 5)"),
        (&[], "(and . 5)"),
        (&[], "(define-syntax (and 1 2))"),
        (&[POOL[5].1], "(when (and 1) (or 2))"),
        (&[POOL[5].1], "(unless 1 (when 2 3))"),
        (&[POOL[8].1], "(bad (1 2) (and 3))"),
        (&[q1, POOL[9].1], "(q1 (and 1) (or 2))"),
        (&[q1, POOL[1].1, POOL[4].1], "(wrap 1 (and 2 3))"),
        (&[POOL[7].1], "(lp)"),
        (&[POOL[7].1], "(f (and 1) (lp))"),
        // finding C17-driver-keyword-in-binding-position
        (&[], "(lambda (and x) x)"),
        (&[], "(let ((and 1)) 2)"),
        (&[], "(lambda (x when) (when 1 2))"),
        // finding C17-empty-ellipsis-before-tail met inside a form (found by the thorough tier of this stream)
        (&["(define-syntax m (syntax-rules (lit) ((m () ... a) (() ((x) 1 a))) ((_ a) (a a ((a (a) (a f a)))))))"], "(f (m (#f)))"),
        (&["(define-syntax m (syntax-rules () ((_ a ... b) (quote (a ... b))) ((_ c) (quote (second c)))))"], "(when 1 (m (and 1)))"),
    ];
    cases.get(idx as usize).map(|(ds, f)| (ds.iter().map(|d| parse(d)).collect(), parse(f)))
}
