//! Mode `simstep prep <sessions>`: correspondence stream "prepare-installs" — the relation `Installs` /
//! `InstallsGarbage` (lean/Marwood/Lemmas/PrepareDefs.lean) against the real `Vm::prepare_eval`.
//!
//! For every top-level form of a session the complete state of the real VM is snapshotted immediately BEFORE and
//! AFTER `vm.prepare_eval(&expanded)` (`expanded = vm.transform(parse(text))`) and both are sent to the Lean driver
//! (command `prepcheck`, lean/Driver/Prep.lean), which answers `ok` iff the executable checker
//! lean/Marwood/Vm/PrepareCheck.lean accepts the pair: `installsB` when `prepare_eval` returned Ok, `garbageB` when it
//! returned a compile error. The implementation side of every line is the constant `ok`.
//!
//! request := prepcheck <info> <mode> regs heap regs' delta GR <n> addr*n <rendered> datum…
//!   mode   := ok | err | errgc | panic   (errgc: the `run_gc` of the Err arm collected — detected by the counter
//!             `verif_state().collections`; only the registers can then be compared. panic: `prepare_eval`
//!             panicked; the driver answers `bad-op`, i.e. the line is a disagreement)
//!   regs / heap / delta: exactly the encodings of the concrete-heap-step stream (see the head of simstep.rs);
//!             the after-heap is `delta` applied to `heap`. `GR` lists binding keys that DISAPPEARED (the delta
//!             format only shows new keys). The harness asserts the chunk size did not change.
//!   rendered := mode ok: `render_lambda` (copied from vm.rs: slot operands and environment maps by symbol name) of
//!             the top-level lambda the entry lambda refers to; otherwise `-`
//!   datum  := `enc_datum(&expanded)`
//!   info   := p:<mode>:<allocations>:<new symbols>:<new global slots>:<grew 0|1>:<scr|lin>:l<new lambda cells>:
//!             v<new vector cells>:s<new string cells>:b<new bignum cells>        (Python side / statistics only)
//!
//! A form that mentions `define-syntax` after expansion is evaluated (so that later forms can use the macro) but NOT
//! emitted: the compiler model answers `unsupported:define-syntax` for it.
use super::{enc_delta, enc_heap, enc_regs, snap, Snap};
use marwood::cell::Cell;
use marwood::vm::Vm;
use mwv::progs::Gen;
use mwv::rng::Rng;
use mwv::session::new_vm;
use mwv::wire::{catch, enc_datum};
use std::collections::HashSet;
use std::io::Write;
use std::panic::AssertUnwindSafe;

fn name_tok(s: &str) -> String {
    s.chars().map(|c| (c as u32).to_string()).collect::<Vec<_>>().join(".")
}

/// canonical rendering of a compiled lambda (slot operands and environment maps by symbol name); copy of
/// `render_lambda` of bin/vm.rs (stream "compiled-code" of C04)
fn render_lambda(vm: &Vm, lam: &marwood::vm::lambda::Lambda, depth: usize) -> String {
    use marwood::vm::environment::BindingSource;
    use marwood::vm::opcode::OpCode;
    use marwood::vm::vcell::VCell;
    let heap = vm.verif_heap();
    let cells = heap.verif_cells();
    let sym_name = |v: &VCell| -> String {
        match v {
            VCell::Ptr(p) => match cells.get(*p) {
                Some(VCell::Symbol(s)) => name_tok(s),
                _ => "?".into(),
            },
            _ => "?".into(),
        }
    };
    let args: Vec<String> = lam.args.iter().map(|a| sym_name(a)).collect();
    let mut env: Vec<String> = lam
        .envmap
        .get_map()
        .iter()
        .map(|(s, src)| {
            let src = match src {
                BindingSource::Global => "g".to_string(),
                BindingSource::Argument(n) => format!("a{}", n),
                BindingSource::IofArgument(n) => format!("f{}", n),
                BindingSource::IofEnvironment(_) => "e".to_string(),
                BindingSource::InternalDefinition => "i".to_string(),
            };
            format!("{}:{}", sym_name(s), src)
        })
        .collect();
    env.sort();
    let mut bc = vec![];
    let mut prev_jump = false;
    for c in &lam.bc {
        let tok = match c {
            VCell::OpCode(op) => mwv::trace::op_name(op).to_string(),
            VCell::Acc => "acc".into(),
            VCell::GlobalEnvSlot(n) => match vm.verif_globenv().get_symbol(*n) {
                Some(p) => format!("G:{}", sym_name(&VCell::Ptr(p))),
                None => "G:?".into(),
            },
            VCell::LexicalEnvSlot(n) => match lam.envmap.get_map().get(*n) {
                Some((s, _)) => format!("S:{}", sym_name(s)),
                None => "S:?".into(),
            },
            VCell::BasePointerOffset(i) => format!("R{}", i),
            VCell::ArgumentCount(n) => format!("A{}", n),
            VCell::Void => "void".into(),
            VCell::Ptr(p) if prev_jump => format!("T{}", p),
            VCell::Ptr(p) => match cells.get(*p) {
                Some(VCell::Lambda(l)) if depth < 64 => render_lambda(vm, l, depth + 1),
                Some(VCell::Macro(_)) => "M".into(),
                Some(other) => format!("D{}", enc_datum(&heap.get_as_cell(other)).replace(' ', "~")),
                None => "P?".into(),
            },
            other => format!("D{}", enc_datum(&heap.get_as_cell(other)).replace(' ', "~")),
        };
        prev_jump = matches!(c, VCell::OpCode(OpCode::Jmp) | VCell::OpCode(OpCode::Jnt));
        bc.push(tok);
    }
    format!(
        "L[args={};va={};top={};env={};bc={}]",
        args.join(","),
        lam.is_vararg as u8,
        lam.top_level as u8,
        env.join("|"),
        bc.join(",")
    )
}

/// the top-level lambda the freshly installed entry lambda refers to
fn rendered_top(vm: &Vm) -> Option<String> {
    use marwood::vm::vcell::VCell;
    let ip = vm.verif_regs().2;
    let cells = vm.verif_heap().verif_cells();
    let entry = match cells.get(ip.0) {
        Some(VCell::Lambda(l)) => l.clone(),
        _ => return None,
    };
    match entry.bc.get(3) {
        Some(VCell::Ptr(p)) => match cells.get(*p) {
            Some(VCell::Lambda(l)) => Some(render_lambda(vm, l, 0)),
            _ => None,
        },
        _ => None,
    }
}

/// forms from the `compile` mode of bin/vm.rs (well-formed and malformed mixed)
const MALFORMED: &[&str] = &[
    "(if)", "(if 1)", "(if 1 2 3 4)", "(if . 1)", "(lambda)", "(lambda (x))", "(lambda (1) 2)",
    "(lambda (x . 2) x)", "(define)", "(define x)", "(define x 1 2)", "(define 1 2)", "(set! 1 2)",
    "(set! x)", "(set! x 1 2)", "()", "(quote)", "(quasiquote)", "(define (if) 1)", "(lambda (quote) 1)",
    "(set! if 1)", "if", "(define (f . lambda) 1)", "(lambda x x)", "(lambda (a . r) (cons a r))",
    "(quasiquote (1 (unquote (+ 1 2)) (quasiquote (a (unquote (unquote x))))))",
    "(quasiquote #(1 (unquote x) #(2)))", "(quasiquote (a . (unquote b)))", "(quasiquote (unquote))",
    "((lambda (a b) (define c (+ a b)) (define (d) c) (lambda () (set! a (d)) (+ a b))) 1 2)",
    "(lambda (x) (lambda (y) (lambda (z) (+ x y z))))",
    "(lambda (x) (define x 1) x)", "(lambda (x) x (define y 2) y)", "(λ (x) (λ (y) (+ x y)))",
    "(f 1 . 2)", "(1 2 3)", "\"str\"", "#\\a", "#(1 2)", "1.5", "#t",
];

/// rejected forms that allocate before the error is detected; `@` is replaced by a per-session unique prefix
const REJECTED_LATE: &[&str] = &[
    "(lambda (x) '(1 2 3) (if))",
    "(begin (define @fresh-a 1) (lambda))",
    "(list '@fresh-sym \"str\" (lambda (y) y) (if))",
    "(lambda (a b) (lambda (c) (+ a b c)) '#(1 (2 3) \"s\") (set! 1 2))",
    "(define (@rej x) (lambda (y) (@rej-g1 @rej-g2 x y)) (define))",
    "(begin '(a b . c) `(1 ,(+ 1 2) ,@(list 3 4)) 123456789012345678901234567890 (quote))",
    "(lambda args (lambda (x . r) (cons x r)) (lambda (x)))",
    "(begin (set! @rej-s1 (lambda (q) q)) (if 1 2 3 4))",
    "(lambda () (define @in1 1) (define (@in2 z) (* z @in1)) (@in2 (lambda)))",
];

/// scripts of well-formed forms exercising what `Installs` distinguishes; `@` = per-session unique prefix
const SCRIPTS: &[&[&str]] = &[
    // new global (new symbol + new slot), re-definition (no new slot), set! of a global, use
    &["(define @a 1)", "(define @a 2)", "(set! @a (+ @a 1))", "@a", "(define @b @a)", "(define (@f x y) (+ x y @a))", "(@f 1 2)"],
    // quoted data of every kind
    &[
        "'(a b (c d) . e)",
        "(lambda (x) '(1 (2 3) . 4))",
        "'(@q1 @q2 (@q3 . @q4) \"str\" #\\a #t #f () 5 123456789012345678901234567890 1/3 1.5 -7)",
        "'#(1 2 #(3 4) \"s\" (x y) #(#(5) ()) 2/3 1e10 98765432109876543210987654321)",
        "(lambda (x) '#(1 \"two\" (3 4) #(5 #(6)) 1.5 2/3 123456789012345678901234567890 #\\z sym))",
        "'()",
        "'@lonely",
        "\"a string\"",
        "#\\x",
        "1.5",
        "7/11",
        "123456789012345678901234567890",
        "#(1 2 3)",
        "#()",
        "'(())",
        "'#(())",
        "(vector-ref '#(\"a\" \"b\") 0)",
    ],
    // quasiquote
    &[
        "`(1 ,(+ 1 2) ,@(list 3 4) 5)",
        "`(a `(b ,(c ,(+ 1 2))))",
        "`#(1 ,(+ 1 1) #(2))",
        "`(a . ,(+ 1 2))",
        "`(1 ,@'() . 2)",
        "(lambda (x y) `(,x #(,y ,@(list x y)) (,@y . ,x) \"s\" 3.5))",
        "`(@qq1 ,@(map (lambda (z) `(,z . @qq2)) '(1 2)))",
        "`#(,@(list 1 2) #(a ,(+ 1 2)) \"s\")",
    ],
    // new globals that are never defined (C12-undefined-global-binding)
    &[
        "(lambda () (@undef1 @undef2 (@undef3 @undef4)))",
        "(list @undef5 @undef6)",
        "(define (@uses) (@undef7 '@undef8 @undef9))",
        "(if #f @undef10 (lambda (x) (x @undef11)))",
    ],
    // nested lambdas, variadics, internal defines
    &[
        "(define (@mk a) (lambda (b) (lambda (c) (+ a b c))))",
        "(((@mk 1) 2) 3)",
        "(lambda (x) (lambda (y) (lambda (z) (+ x y z))))",
        "(lambda args args)",
        "(define (@v a . r) (cons a r))",
        "(@v 1 2 3)",
        "(lambda (a b . c) (list a b c))",
        "((lambda (a b) (define c (+ a b)) (define (d) c) (lambda () (set! a (d)) (+ a b))) 1 2)",
        "(define (@i x) (define y (* x 2)) (define (z w) (+ w y)) (z x))",
        "(@i 4)",
        "(define @cnt ((lambda (n) (lambda () (set! n (+ n 1)) n)) 0))",
        "(@cnt)",
        "(lambda (f) ((lambda (x) (f (lambda (v) ((x x) v)))) (lambda (x) (f (lambda (v) ((x x) v))))))",
    ],
    // prepare_eval in the middle of a suspended evaluation
    &[
        "(define (@spin n) (if (= n 0) '() (cons n (@spin (- n 1)))))",
        "#pause (@spin 2000)",
        "'(after pause)",
        "(define @ap (lambda (x) `(,x @apq #(1 \"s\"))))",
        "(lambda (x) '(1 2) (if))",
        "#pause (@spin 3000)",
        "(@ap 1)",
    ],
    // derived forms through `transform`
    &[
        "(let loop ((i 0) (acc '())) (if (< i 3) (loop (+ i 1) (cons i acc)) acc))",
        "(let* ((x 1) (y (+ x 1))) (* x y))",
        "(letrec ((ev? (lambda (n) (if (= n 0) #t (od? (- n 1))))) (od? (lambda (n) (if (= n 0) #f (ev? (- n 1)))))) (ev? 10))",
        "(cond ((assv 'b '((a 1) (b 2))) => cadr) (else 'no))",
        "(case (* 2 3) ((2 3 5 7) 'prime) ((1 4 6 8 9) 'composite) (else 'other))",
        "(do ((vec (make-vector 5)) (i 0 (+ i 1))) ((= i 5) vec) (vector-set! vec i i))",
        "(when (> 1 0) 'yes \"s\")",
        "(unless (> 1 0) 'no)",
        "(and 1 \"two\" '(3))",
        "(or #f '#(1) 2)",
        "(define-syntax @swap! (syntax-rules () ((_ a b) (let ((tmp a)) (set! a b) (set! b tmp)))))",
        "(define @p 1)",
        "(define @q 2)",
        "(@swap! @p @q)",
        "(list @p @q)",
        "(call/cc (lambda (k) (+ 1 (k '(escaped \"s\" #(1))))))",
        "(apply + '(1 2 3))",
        "(for-each (lambda (x) x) '(1 2 3))",
        "(map (lambda (x) (* x x)) '(1 2 3))",
        "(begin)",
        "(begin 1 \"two\" '(3) (lambda () 4))",
        "(if #t 1)",
        "(define @s \"mutable string\")",
    ],
];

/// a form prefixed with this marker is run with a small instruction budget: `run_count` returns `Ok(None)` in the
/// middle of the evaluation, and the following forms are prepared in a state with a live stack, `acc`, `ep`, `bp`
/// (the register clause of `Installs` is then about non-trivial registers)
const PAUSE: &str = "#pause ";

fn subst(text: &str, u: &str) -> String {
    text.replace('@', u)
}

#[derive(Default)]
struct Stats {
    cases: usize,
    ok: usize,
    err: usize,
    errgc: usize,
    panics: usize,
    skipped_transform: usize,
    skipped_defsyntax: usize,
    alloc_sum: usize,
    alloc_max: usize,
    alloc_zero: usize,
    grew: usize,
    with_sym: usize,
    with_glob: usize,
    with_vec: usize,
    with_str: usize,
    with_big: usize,
    with_lam: usize,
    scr: usize,
    lambdas: usize,
    distinct_lambdas: HashSet<String>,
}

fn unhex(s: &str) -> String {
    let b: Vec<u8> = (0..s.len() / 2).filter_map(|i| u8::from_str_radix(&s[2 * i..2 * i + 2], 16).ok()).collect();
    String::from_utf8_lossy(&b).to_string()
}

fn is_free(cell: &str) -> bool {
    cell.starts_with('f')
}

/// one case: snapshot, prepare, snapshot, print; returns whether `prepare_eval` succeeded
fn one_case(vm: &mut Vm, expanded: &Cell, scr: bool, st: &mut Stats, out: &mut dyn Write) -> bool {
    let pre: Snap = snap(vm);
    let collections_before = vm.verif_state().collections;
    let r = catch(AssertUnwindSafe(|| vm.prepare_eval(expanded)));
    st.cases += 1;
    let datum = enc_datum(expanded);
    let r = match r {
        Err(_) => {
            st.panics += 1;
            writeln!(out, "prepcheck p:panic panic {}\tok", datum).unwrap();
            return false;
        }
        Ok(r) => r,
    };
    let post: Snap = snap(vm);
    // did the `run_gc` of the Err arm collect? (the counter of collections that actually ran; a cell that is
    // allocated before and free after is not a reliable sign: on a heap without garbage the collection frees only
    // what this `prepare_eval` allocated)
    let gc_ran = vm.verif_state().collections != collections_before;
    assert_eq!(pre.chunk, post.chunk, "chunk size changed");
    // classification of the new cells
    let (mut nalloc, mut nlam, mut nvec, mut nstr, mut nbig, mut freed_old) = (0, 0, 0, 0, 0, false);
    for (i, c) in post.cells.iter().enumerate() {
        let old_free = pre.cells.get(i).map(|x| is_free(x)).unwrap_or(true);
        if old_free && !is_free(c) {
            nalloc += 1;
            let body = &c[2..];
            if body.starts_with("l ") {
                nlam += 1;
                st.distinct_lambdas.insert(body.to_string());
            } else if body.starts_with("v ") {
                nvec += 1;
            } else if body.starts_with("c Os") {
                nstr += 1;
            } else if let Some(h) = body.strip_prefix("c On") {
                if unhex(h).starts_with("BigInt") {
                    nbig += 1;
                }
            }
        }
        if !old_free && is_free(c) {
            freed_old = true;
        }
    }
    let nsym = post.sym.keys().filter(|k| !pre.sym.contains_key(*k)).count();
    let nglob = post.gvals.len().saturating_sub(pre.gvals.len());
    let grew = post.cells.len() > pre.cells.len();
    let gone: Vec<usize> = pre.gsyms.iter().filter(|k| post.gsyms.binary_search(k).is_err()).copied().collect();
    // without a collection nothing is ever freed (with mode ok / err the driver checks that anyway)
    assert!(gc_ran || !freed_old, "a cell was freed without a collection");
    let (mode, rendered) = match &r {
        Ok(()) => ("ok", rendered_top(vm).unwrap_or_else(|| "?".to_string())),
        Err(_) if gc_ran => ("errgc", "-".to_string()),
        Err(_) => ("err", "-".to_string()),
    };
    match mode {
        "ok" => st.ok += 1,
        "err" => st.err += 1,
        _ => st.errgc += 1,
    }
    if mode != "errgc" {
        st.alloc_sum += nalloc;
        st.alloc_max = st.alloc_max.max(nalloc);
        st.alloc_zero += (nalloc == 0) as usize;
        st.grew += grew as usize;
        st.with_sym += (nsym > 0) as usize;
        st.with_glob += (nglob > 0) as usize;
        st.with_vec += (nvec > 0) as usize;
        st.with_str += (nstr > 0) as usize;
        st.with_big += (nbig > 0) as usize;
        st.with_lam += (nlam > 0) as usize;
        st.lambdas += nlam;
        st.scr += scr as usize;
    }
    let info = format!(
        "p:{}:{}:{}:{}:{}:{}:l{}:v{}:s{}:b{}",
        mode,
        nalloc,
        nsym,
        nglob,
        grew as u8,
        if scr { "scr" } else { "lin" },
        nlam,
        nvec,
        nstr,
        nbig
    );
    let mut gr = format!("GR {}", gone.len());
    for k in gone {
        gr.push_str(&format!(" {}", k));
    }
    writeln!(
        out,
        "prepcheck {} {} {} {} {} {} {} {} {}\tok",
        info,
        mode,
        enc_regs(&pre),
        enc_heap(&pre),
        enc_regs(&post),
        enc_delta(&pre, &post),
        gr,
        rendered,
        datum
    )
    .unwrap();
    r.is_ok()
}

/// `define-syntax` anywhere in the expanded form (the real compiler accepts it in a lambda body too, e.g.
/// `(begin (define-syntax m …) 1)` expands to `((lambda () (define-syntax m …) 1))`; the compiler model answers
/// `unsupported:define-syntax`)
fn mentions_define_syntax(c: &Cell) -> bool {
    match c {
        Cell::Pair(a, d) => mentions_define_syntax(a) || mentions_define_syntax(d),
        Cell::Vector(v) => v.iter().any(mentions_define_syntax),
        Cell::Symbol(s) => s == "define-syntax",
        _ => false,
    }
}

/// a quoted list long enough to exhaust the free list of a fresh VM (chunk 8192: two cells per element; the first
/// growth doubles the capacity to 16384, so the collector's threshold of 75 % is at 12288 cells)
fn big_quoted(n: usize) -> String {
    let mut s = String::from("'(");
    for i in 0..n {
        s.push_str(&format!("{} ", i));
    }
    s.push(')');
    s
}

pub fn cmd_prep(args: &[String], seed: u64) {
    let n: usize = args[0].parse().unwrap();
    let mut rng = Rng::new(seed ^ 0x9e9a_11e5);
    let mut g = Gen::new(seed ^ 0xc0de);
    let stdout = std::io::stdout();
    let mut out = std::io::BufWriter::new(stdout.lock());
    let mut st = Stats::default();
    for sess in 0..n {
        let (mut vm, _log) = new_vm();
        let scr = rng.chance(1, 2);
        if scr && catch(AssertUnwindSafe(|| vm.verif_force_gc())).is_err() {
            continue;
        }
        let u = format!("s{}x{}-", sess, rng.below(1000));
        // the forms of this session
        let mut texts: Vec<String> = vec![];
        for j in 0..2 {
            for f in SCRIPTS[(sess * 2 + j) % SCRIPTS.len()] {
                texts.push(subst(f, &u));
            }
        }
        for f in g.session(2 + sess % 6, 1 + sess % 4) {
            texts.push(f.render());
        }
        for j in 0..4 {
            texts.push(MALFORMED[(sess * 4 + j) % MALFORMED.len()].to_string());
        }
        for j in 0..2 {
            texts.push(subst(REJECTED_LATE[(sess * 2 + j) % REJECTED_LATE.len()], &u));
        }
        let mut big_at = usize::MAX;
        let mut err_big_at = usize::MAX;
        if sess % 4 == 1 {
            // heap growth inside prepare_eval, at a random position of the session
            big_at = rng.below(texts.len() as u64 + 1) as usize;
            texts.insert(big_at, big_quoted(4200 + rng.below(400) as usize));
        }
        if sess % 4 == 3 {
            // a REJECTED form that makes the heap grow before the error is detected (sized so that the utilisation
            // after the growth stays below the collector's threshold in most sessions: garbage bucket `err` with
            // growth; otherwise bucket `errgc`)
            err_big_at = rng.below(texts.len() as u64 + 1) as usize;
            // (every other time long enough to cross the threshold on purpose: bucket `errgc`, registers only)
            let q = big_quoted(if sess % 8 == 7 { 5950 } else { 3900 } + rng.below(150) as usize);
            texts.insert(err_big_at, format!("(lambda (x) (lambda (y) (x y)) {} (if))", q));
        }
        let mut scr = scr;
        let mut pending_gc = false;
        for (ti, text) in texts.into_iter().enumerate() {
            let (text, budget) = match text.strip_prefix(PAUSE) {
                Some(t) => (t.to_string(), 1000 + rng.below(2000) as usize),
                None => (text, 300_000),
            };
            let cell = match marwood::parse::parse_text(&text) {
                Ok((c, _)) => c,
                Err(_) => continue,
            };
            let expanded = match catch(AssertUnwindSafe(|| vm.transform(&cell))) {
                Ok(Ok(c)) => c,
                _ => {
                    st.skipped_transform += 1;
                    continue;
                }
            };
            let defsyntax = mentions_define_syntax(&expanded);
            let ok = if defsyntax {
                st.skipped_defsyntax += 1;
                matches!(catch(AssertUnwindSafe(|| vm.prepare_eval(&expanded))), Ok(Ok(())))
            } else {
                one_case(&mut vm, &expanded, scr, &mut st, &mut out)
            };
            if ok {
                // run the form so that definitions take effect and the heap / free list move on
                if catch(AssertUnwindSafe(|| vm.run_count(budget))).is_err() {
                    break;
                }
            }
            if ti == big_at {
                pending_gc = true;
            } else if (pending_gc && ok) || ti == err_big_at {
                // the long list is garbage now (it stayed reachable from `acc` / the entry lambda under `ip` until
                // this form ran), but utilisation stays just below the collector's threshold: collect it, or every
                // later line of the session carries it (the heap keeps its grown capacity)
                if catch(AssertUnwindSafe(|| vm.verif_force_gc())).is_err() {
                    break;
                }
                pending_gc = false;
                scr = true;
            }
        }
    }
    let counted = st.ok + st.err;
    eprintln!(
        "prep: cases {} ok {} err {} errgc {} panic {} | skipped: transform-error {} define-syntax {} | allocations: total {} avg {:.1} max {} zero {} | cases with: heap growth {} new symbols {} new global slots {} lambda cells {} vectors {} strings {} bignums {} | scrambled free list {} | new lambda cells {} distinct {}",
        st.cases, st.ok, st.err, st.errgc, st.panics, st.skipped_transform, st.skipped_defsyntax,
        st.alloc_sum, st.alloc_sum as f64 / counted.max(1) as f64, st.alloc_max, st.alloc_zero,
        st.grew, st.with_sym, st.with_glob, st.with_lam, st.with_vec, st.with_str, st.with_big,
        st.scr, st.lambdas, st.distinct_lambdas.len()
    );
}
