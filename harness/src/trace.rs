//! Lock-step trace recorder: one protocol line per instruction executed by the real VM, holding
//! the machine state before the instruction, the facts about the heap that `run_one` consults
//! for that instruction, and (as the implementation's response) the machine state after it.
//! The Lean model of `run_one` (lean/Marwood/Vm/Machine.lean) is run on the same line.
use marwood::error::Error;
use marwood::vm::opcode::OpCode;
use marwood::vm::vcell::VCell;
use marwood::vm::Vm;
use std::rc::Rc;

fn h(s: &str) -> String {
    // short stable tag for opaque payloads
    let mut x: u64 = 0xcbf29ce484222325;
    for b in s.bytes() {
        x ^= b as u64;
        x = x.wrapping_mul(0x100000001b3);
    }
    format!("{:x}", x & 0xffffffffff)
}

pub fn op_name(op: &OpCode) -> &'static str {
    match op {
        OpCode::Cons => "cons",
        OpCode::Jmp => "jmp",
        OpCode::Jnt => "jnt",
        OpCode::Mov => "mov",
        OpCode::MovImmediate => "movImm",
        OpCode::Push => "push",
        OpCode::PushAcc => "pushAcc",
        OpCode::PushImmediate => "pushImm",
        OpCode::Halt => "halt",
        OpCode::VPushAcc => "vpushAcc",
        OpCode::CallAcc => "callAcc",
        OpCode::ClosureAcc => "closureAcc",
        OpCode::Enter => "enter",
        OpCode::Ret => "ret",
        OpCode::TCallAcc => "tcallAcc",
        OpCode::VarArg => "varArg",
    }
}

/// one VCell as a token without spaces or commas
pub fn cell(v: &VCell) -> String {
    match v {
        VCell::Bool(true) => "T".into(),
        VCell::Bool(false) => "F".into(),
        VCell::Nil => "N".into(),
        VCell::Undefined => "U".into(),
        VCell::Void => "V".into(),
        VCell::Char(c) => format!("Oc{:x}", *c as u32),
        VCell::Number(n) => format!("On{}", h(&format!("{:?}", n))),
        VCell::Symbol(s) => format!("Oy{}", h(s)),
        VCell::String(s) => format!("Os{:x}", Rc::as_ptr(s) as usize),
        VCell::Vector(v) => format!("Ov{:x}", Rc::as_ptr(v) as usize),
        VCell::Macro(m) => format!("Om{:x}", Rc::as_ptr(m) as usize),
        VCell::LexicalEnv(e) => format!("Oe{:x}", Rc::as_ptr(e) as usize),
        VCell::Pair(a, d) => format!("Q{}:{}", a, d),
        VCell::Closure(l, e) => format!("C{}:{}", l, e),
        VCell::Lambda(l) => format!("L{:x}", Rc::as_ptr(l) as usize),
        VCell::Continuation(k) => format!("K{:x}", Rc::as_ptr(k) as usize),
        VCell::BuiltInProc(b) => format!("X{:x}", Rc::as_ptr(b) as usize),
        VCell::LexicalEnvSlot(n) => format!("S{}", n),
        VCell::LexicalEnvPtr(e, n) => format!("D{}:{}", e, n),
        VCell::Acc => "acc".into(),
        VCell::ArgumentCount(n) => format!("A{}", n),
        VCell::BasePointer(n) => format!("B{}", n),
        VCell::BasePointerOffset(i) => format!("R{}", i),
        VCell::EnvironmentPointer(e) => format!("E{}", usz(*e)),
        VCell::GlobalEnvSlot(n) => format!("G{}", n),
        VCell::InstructionPointer(l, o) => format!("I{}:{}", usz(*l), o),
        VCell::OpCode(op) => format!("op{}", op_name(op)),
        VCell::Ptr(a) => format!("P{}", usz(*a)),
    }
}

pub fn err_name(e: &Error) -> &'static str {
    match e {
        Error::InvalidStackIndex(_) => "InvalidStackIndex",
        Error::InvalidBytecode => "InvalidBytecode",
        Error::InvalidNumArgs(_) => "InvalidNumArgs",
        Error::InvalidProcedure(_) => "InvalidProcedure",
        Error::InvalidSyntax(_) => "InvalidSyntax",
        Error::ExpectedType(_, _) => "ExpectedType",
        Error::VariableNotBound(_) => "VariableNotBound",
        Error::ErrorSignal(_) => "ErrorSignal",
        Error::ExpectedPairButFound(_) => "ExpectedPairButFound",
        Error::InvalidArgs(_, _, _) => "InvalidArgs",
        Error::InvalidUsePrimitive(_) => "InvalidUsePrimitive",
        Error::LambdaMissingExpression => "LambdaMissingExpression",
        Error::MisplacedMacroKeyword(_) => "MisplacedMacroKeyword",
        Error::UnquotedNil => "UnquotedNil",
        Error::InvalidVectorIndex(_, _) => "InvalidVectorIndex",
        Error::InvalidStringIndex(_, _) => "InvalidStringIndex",
        Error::ParseError(_) => "ParseError",
        Error::LexError(_) => "LexError",
    }
}

fn usz(n: usize) -> String {
    if n == usize::MAX {
        "max".into()
    } else {
        n.to_string()
    }
}

/// `sp bp ep ipL:ipO acc stack[0..=sp]`
pub fn state(vm: &Vm) -> String {
    let (acc, ep, ip, bp) = vm.verif_regs();
    let st = vm.verif_stack();
    let sp = st.get_sp();
    let cells: Vec<String> = st.verif_slots()[0..=sp.min(st.verif_slots().len() - 1)].iter().map(cell).collect();
    format!(
        "sp={} bp={} ep={} ip={}:{} acc={} stack={}",
        sp,
        bp,
        usz(ep),
        usz(ip.0),
        ip.1,
        cell(acc),
        cells.join(",")
    )
}

fn cont_spec(k: &marwood::vm::continuation::Continuation) -> String {
    let st = k.stack();
    let cells: Vec<String> = st.verif_slots().iter().map(cell).collect();
    format!(
        "K/{}/{}/{}:{}/{}/{}",
        st.get_sp(),
        usz(k.ep()),
        usz(k.ip().0),
        k.ip().1,
        k.bp(),
        cells.join(",")
    )
}

fn builtin_kind(desc: &str) -> &'static str {
    match desc {
        "apply" => "apply",
        "eval" => "eval",
        "call/cc" | "call-with-current-continuation" => "callcc",
        _ => "generic",
    }
}

/// Facts about the heap consulted by the instruction at the current ip. Returns None when the
/// instruction cannot be decoded (the step is then skipped by the recorder).
pub fn facts(vm: &Vm) -> Option<(String, OpCode)> {
    let (acc, ep, ip, _bp) = vm.verif_regs();
    let heap = vm.verif_heap();
    let cells = heap.verif_cells();
    let lambda = match cells.get(ip.0) {
        Some(VCell::Lambda(l)) => l.clone(),
        _ => return None,
    };
    let op = match lambda.bc.get(ip.1) {
        Some(VCell::OpCode(op)) => op.clone(),
        _ => return None,
    };
    let code: Vec<String> = lambda.bc[ip.1..(ip.1 + 3).min(lambda.bc.len())].iter().map(cell).collect();
    let mut f = vec![format!("code={}", code.join(","))];
    f.push(format!("cap={}", vm.verif_stack().verif_slots().len()));
    // next addresses the allocator will hand out (free list is popped from the back)
    let fl = heap.verif_free_list();
    let nfree: Vec<String> = fl.iter().rev().take(48).map(|a| a.to_string()).collect();
    f.push(format!("free={}", if nfree.is_empty() { "-".into() } else { nfree.join(",") }));
    // lambda argc facts: current lambda and (if acc designates one) the callee's
    let mut largc = vec![format!("{}:{}", ip.0, lambda.args.len())];
    let deref = |v: &VCell| -> VCell {
        match v {
            VCell::Ptr(p) => cells.get(*p).cloned().unwrap_or(VCell::Undefined),
            other => other.clone(),
        }
    };
    let accv = deref(acc);
    let mut derefs = vec![format!("{}>{}", cell(acc), cell(&accv))];
    let callee = match &accv {
        VCell::Closure(l, e) => {
            if let Some(VCell::Lambda(lam)) = cells.get(*l) {
                largc.push(format!("{}:{}", l, lam.args.len()));
            }
            format!("C/{}/{}", l, e)
        }
        VCell::Lambda(lam) => {
            if let VCell::Ptr(p) = acc {
                largc.push(format!("{}:{}", p, lam.args.len()));
            }
            "L".to_string()
        }
        VCell::BuiltInProc(b) => format!("X/{:x}/{}", Rc::as_ptr(b) as usize, builtin_kind(b.desc())),
        VCell::Continuation(k) => cont_spec(k),
        _ => "other".to_string(),
    };
    f.push(format!("callee={}", callee));
    f.push(format!("largc={}", largc.join(",")));
    // operand loads / store destinations
    let mut envs: Vec<String> = vec![];
    let mut env_fact = |e: usize, k: usize| -> Option<VCell> {
        match cells.get(e) {
            Some(VCell::LexicalEnv(env)) if k < env.slot_len() => {
                let v = env.get(k);
                envs.push(format!("{}:{}>{}", usz(e), k, cell(&v)));
                Some(v)
            }
            _ => None,
        }
    };
    let opnd = lambda.bc.get(ip.1 + 1);
    if matches!(op, OpCode::Mov | OpCode::Push) {
        if let Some(o) = opnd {
            let loaded: Option<VCell> = match o {
                VCell::Ptr(p) => cells.get(*p).cloned(),
                VCell::GlobalEnvSlot(n) => Some(vm.verif_globenv().get_slot(*n)),
                VCell::LexicalEnvSlot(n) => {
                    if let Some(VCell::LexicalEnvPtr(e2, k)) = env_fact(ep, *n) {
                        env_fact(e2, k);
                    }
                    None
                }
                _ => None,
            };
            if let Some(v) = loaded {
                f.push(format!("load={}", cell(&v)));
            }
        }
    }
    if matches!(op, OpCode::Mov | OpCode::MovImmediate) {
        if let Some(VCell::LexicalEnvSlot(n)) = lambda.bc.get(ip.1 + 2) {
            env_fact(ep, *n);
        }
    }
    if !envs.is_empty() {
        f.push(format!("env={}", envs.join(",")));
    }
    // dereferences of the cells a builtin / call will look at: top cells of the stack and, for
    // apply, the spine of the argument list
    let st = vm.verif_stack();
    let sp = st.get_sp();
    let slots = st.verif_slots();
    for i in 0..4usize {
        if sp >= i {
            let c = &slots[sp - i];
            derefs.push(format!("{}>{}", cell(c), cell(&deref(c))));
        }
    }
    if let VCell::BuiltInProc(b) = &accv {
        if b.desc() == "apply" && sp >= 1 {
            let mut cur = deref(&slots[sp - 1]);
            let mut n = 0;
            while let VCell::Pair(_, d) = cur {
                let next = cells.get(d).cloned().unwrap_or(VCell::Undefined);
                derefs.push(format!("P{}>{}", d, cell(&next)));
                cur = next;
                n += 1;
                if n > 10000 {
                    break;
                }
            }
        }
        if builtin_kind(b.desc()) == "callcc" && sp >= 1 {
            let p = deref(&slots[sp - 1]);
            f.push(format!("isproc={}", if p.is_procedure() { 1 } else { 0 }));
        }
    }
    f.push(format!("deref={}", derefs.join(",")));
    Some((f.join(" "), op))
}

/// post-state as the implementation's response
pub fn post(vm: &Vm, r: &Result<bool, Error>) -> String {
    match r {
        Ok(halt) => format!("ok {} halt={}", state(vm), if *halt { 1 } else { 0 }),
        Err(e) => format!("err {}", err_name(e)),
    }
}
