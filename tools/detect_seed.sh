#!/bin/bash
# tools/detect_seed.sh <seed-dir-name> <PROP>...  — run the named checks (quick tier unless TIER=thorough) against the
# seeded change and record the outcome in seeded/<name>/meta.json ("detected_by": {PROP: verdict line or "missed"}).
seed=$1; shift
out=$(/verif/tools/mutrun.sh /verif/seeded/$seed/patch.diff "$@" 2>&1)
echo "##### $seed"; echo "$out" | grep -E "^== |^VIOLATION|obligations" | cut -c1-220
python3 - "$seed" "${TIER:-quick}" <<E2
import json,sys,re
seed,tier=sys.argv[1:3]
out='''$out'''
res={}
cur=None
for l in out.split('\n'):
    m=re.match(r'== (C\d\d) rc=(\d+)',l)
    if m: cur=m.group(1); res[cur]={'tier':tier,'rc':int(m.group(2)),'verdict':'missed' if m.group(2)=='0' else 'alarm'}
    elif cur and l.startswith('VIOLATION') and 'first' not in res[cur]:
        res[cur]['first']=re.sub(r'replay=\S+','replay=…',l)
    elif cur and 'obligations' in l: res[cur]['summary']=l.strip()
p='/verif/seeded/%s/meta.json'%seed
m=json.load(open(p)); d=m.get('detected_by') or {}
for k,v in res.items(): d[k+'@'+tier]=v
m['detected_by']=d
json.dump(m,open(p,'w'),indent=1)
E2
