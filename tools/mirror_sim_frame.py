import re,sys
src,dst,imports=sys.argv[1],sys.argv[2],sys.argv[3].split(',')
L=open(src).read().split('\n')
# split into blocks at top-level starts
starts=[i for i,l in enumerate(L) if re.match(r'(theorem|def|inductive|structure|/--|/-!|variable|open|namespace|end |import|private theorem|@\[|set_option|local macro)',l)]
blocks=[]
for a,b in zip(starts,starts[1:]+[len(L)]):
    blocks.append('\n'.join(L[a:b]))
# merge doc comments / attributes with following decl
merged=[]
i=0
while i<len(blocks):
    b=blocks[i]
    while (b.startswith('/--') or b.startswith('@[') or b.startswith('set_option')) and i+1<len(blocks) and not re.search(r'^(theorem|def|inductive|structure|private theorem|local macro)',b,re.M):
        i+=1; b=b+'\n'+blocks[i]
    merged.append(b); i+=1
PURE=['simAt_zipRows']
def ren(t):
    t=re.sub(r'\bResRel f\b','ResRelJ f J',t)
    t=re.sub(r'\bResRel\.','ResRelJ.',t)
    t=re.sub(r'\bRecSim f\b','RecSimJ f J',t)
    t=re.sub(r'\bRecSim\b(?! f)','RecSimJ',t)
    t=re.sub(r'\brecSim\b','recSimJ',t)
    t=re.sub(r'\bSim f\b','SimJ f J',t)
    t=re.sub(r'\bSim\.','SimJ.',t)
    t=re.sub(r'\bStRel f\b','StRelJ f J',t)
    t=re.sub(r'\bsim_','simJ_',t)
    t=re.sub(r'\bsimAt_','simJAt_',t)
    for p in PURE: t=t.replace('simJAt_'+p[6:],p)
    t=t.replace('variable {f : LMap}','variable {f : LMap} {J : Junk}')
    return t
out=[]
for b in merged:
    if b.startswith('import'): continue
    if b.startswith('/-!'):
        continue
    if b.startswith('namespace'):
        out.append('namespace Marwood.Spec.Eval.ExtraJ\nopen Marwood Marwood.Spec.Eval Marwood.Spec.Eval.Extra\n'); continue
    if b.startswith('end '):
        out.append('end Marwood.Spec.Eval.ExtraJ\n'); continue
    if b.startswith('open'):
        continue
    if b.startswith('variable'):
        out.append(ren(b)); continue
    if re.search(r'\b(Sim|ResRel|RecSim)\b',b) or 'local macro' in b:
        out.append(ren(b))
hdr=''.join('import %s\n'%m for m in imports)+'/-! Forward simulation with a frame (`SimJ`): mirror of `%s` (see `EvalPromiseJ.lean`). -/\n'%src.split('/')[-1]
open(dst,'w').write(hdr+'\n'.join(out))
