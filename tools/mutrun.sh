#!/bin/bash
# tools/mutrun.sh <patch.diff> <PROP>...   — run checks against a scratch copy of /repo with a seeded change applied,
# without touching /repo (other builds use it). Scratch worktree, harness copy and outputs live under /tmp/mutrun-$$
# and are removed afterwards. Exit code: 0 if every check stayed green (change NOT detected), 1 if some check alarmed.
set -u
patch=$(readlink -f "$1"); shift
W=/tmp/mutrun-$$
git -C /repo worktree add --detach $W/repo HEAD -q || exit 2
git -C $W/repo apply "$patch" 2>/dev/null || git -C $W/repo apply -3 "$patch" || { echo "patch does not apply"; git -C /repo worktree remove --force $W/repo; exit 2; }
mkdir -p $W/out
rsync -a --exclude target /verif/harness/ $W/harness/
sed -i "s#/repo/marwood#$W/repo/marwood#" $W/harness/Cargo.toml
rc=0
for p in "$@"; do
  VERIF_SKIP_PROOFS=${SKIP_PROOFS:-} VERIF_REPO=$W/repo VERIF_HARNESS=$W/harness VERIF_OUT=$W/out timeout 3000 /verif/check $p --tier ${TIER:-quick} > $W/out/$p.log 2>&1
  r=$?
  echo "== $p rc=$r"; grep -E "^VIOLATION|^KNOWN-FINDING|obligations" $W/out/$p.log | cut -c1-300
  if [ $r -ne 0 ]; then rc=1; mkdir -p /tmp/mutrun-last; cp -r $W/out/* /tmp/mutrun-last/ 2>/dev/null; fi
done
git -C /repo worktree remove --force $W/repo
rm -rf $W
exit $rc
