#!/bin/bash
# tools/round.sh <ID> [extra props…] — confirm both seeded changes of /root/mut/out-<ID>/{1,2} and run the property's own
# check (plus the extra ones) against each; log to /tmp/round-<ID>.log. Sequential (shared cargo target dirs).
ID=$1; shift
P=${ID:0:3}
for n in 1 2; do
  /verif/tools/confirm_seed.sh $ID $n 2>&1 | tail -2
  if [ -d /verif/seeded/$ID-$n ]; then /verif/tools/detect_seed.sh $ID-$n $P "$@" 2>&1 | cut -c1-250; fi
done
