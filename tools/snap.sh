#!/bin/bash
# tools/snap.sh "<message>" — commit the whole working tree only if all 20 proof modules and the driver build
cd /verif/lean || exit 2
mods=$(for i in $(cat /verif/lib/claimed.txt); do echo -n "Marwood.Proofs.$i "; done)
mods="$mods $(cat /verif/lib/extra_modules.txt 2>/dev/null | tr '\n' ' ')"
if timeout 2400 lake build $mods driver 2>&1 | grep -qE "^error|error:"; then echo "snap: build failed, nothing committed"; exit 1; fi
cd /verif; python3 lib/mkmanifest.py > /dev/null
git add check lean lib harness corpus known_findings translate tools seeded seeded-benign evidence MANIFEST.json DESIGN.md CONVENTIONS.md known_findings.json 2>/dev/null
git commit -qm "$1" && echo "snap: committed"
