#!/usr/bin/env python3
"""Regenerate the two tables of DESIGN.md §7.3 (repaired defects / known findings) from
known_findings.json and known_findings/CNN.json.  Rewrites the text between the table header
lines and the next blank line; everything else in DESIGN.md is left alone.
usage: python3 tools/design_tables.py [--check]"""
import glob, json, os, re, sys

ROOT = os.path.dirname(os.path.dirname(os.path.abspath(__file__)))


def entries():
    out = []
    for f in [os.path.join(ROOT, "known_findings.json")] + sorted(glob.glob(os.path.join(ROOT, "known_findings", "C*.json"))):
        out += json.load(open(f)).get("findings", [])
    seen, res = set(), []
    for e in out:
        k = (e.get("property"), e["id"])
        if k in seen:
            continue
        seen.add(k)
        res.append(e)
    return res


def cut(s, n=230):
    s = " ".join(str(s).split()).replace("|", "\\|")
    return s if len(s) <= n else s[:n] + "…"


def tables():
    es = entries()
    fixed = sorted((e for e in es if e["status"] == "fixed"), key=lambda e: (e["property"], e["id"]))
    finds = sorted((e for e in es if e["status"] == "finding"), key=lambda e: (e["property"], e["id"]))
    t1 = ["| property | id | commit | what failed |", "|---|---|---|---|"]
    for e in fixed:
        c = e.get("commit", "")
        c = " ".join(c) if isinstance(c, list) else c
        t1.append("| %s | %s | %s | %s |" % (e["property"], e["id"], c, cut(e.get("what_failed", ""))))
    t2 = ["| property | id | what fails |", "|---|---|---|"]
    c19 = [e for e in finds if e["property"] == "C19"]
    for e in finds:
        if e["property"] == "C19":
            continue
        t2.append("| %s | %s | %s |" % (e["property"], e["id"], cut(e.get("what_fails", ""))))
    if c19:
        t2.append("| C19 | %d entries, one per (operation, direction) cell of the grid that aborts by native stack exhaustion | "
                  "the reader, compiler, `put_cell`, `get_as_cell`, marker (car direction), printer and derived Drop/Clone recurse "
                  "natively; each entry is keyed by (operation, direction, stage) + smallest aborting depth per thread/profile, so a "
                  "new aborting cell or an abort at a smaller depth is still a violation |" % len(c19))
    return t1, t2, len(fixed), len(finds)


def main():
    p = os.path.join(ROOT, "DESIGN.md")
    lines = open(p).read().split("\n")
    t1, t2, nf, nk = tables()
    out, i = [], 0
    while i < len(lines):
        ln = lines[i]
        if ln.startswith("| property | id | commit | what failed |") or ln.startswith("| property | id | what fails |"):
            out += t1 if "commit" in ln else t2
            while i < len(lines) and lines[i].startswith("|"):
                i += 1
            continue
        out.append(ln)
        i += 1
    new = "\n".join(out)
    if "--check" in sys.argv:
        sys.exit(0 if new == "\n".join(lines) else 1)
    open(p, "w").write(new)
    print("DESIGN.md 7.3: %d repaired, %d findings" % (nf, nk))


main()
