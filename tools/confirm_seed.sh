#!/bin/bash
# tools/confirm_seed.sh <PROP> <n>    — confirm a seeded change delivered in /tmp/mut-<PROP>-out/<n>/ independently:
#   (1) patch applies on /repo HEAD, (2) demo passes WITHOUT the patch, (3) unedited suite passes WITH the patch
#   (guard off), (4) demo fails WITH the patch.  On success the change is kept as /verif/seeded/<PROP>-<n>/.
# Works in a scratch worktree under /tmp (removed afterwards); never touches /repo's working tree.
set -u
P=$1; N=$2
SRC=/root/mut/out-$P/$N; [ -d $SRC ] || SRC=/tmp/mut-$P-out/$N
DST=/verif/seeded/$P-$N
W=/tmp/seedconf-$P-$N
export CARGO_NET_OFFLINE=true
[ -f $SRC/patch.diff ] || { echo "no patch in $SRC"; exit 2; }
git -C /repo worktree add --detach $W HEAD -q || exit 2
cleanup() { git -C /repo worktree remove --force $W; }
demos=$(ls $SRC/*.rs 2>/dev/null)
[ -n "$demos" ] || { echo "no demo .rs in $SRC"; cleanup; exit 2; }
names=""
for d in $demos; do cp $d $W/marwood/tests/; names="$names $(basename $d .rs)"; done
run_demo() { # returns 0 if all demo tests pass
  local ok=0
  for t in $names; do
    (cd $W && RUSTFLAGS="--cfg marwood_verif" CARGO_TARGET_DIR=/tmp/seedtarget-on timeout 1200 cargo test -p marwood --test $t --offline > $W/demo-$t.log 2>&1) || ok=1
  done
  return $ok
}
git -C $W apply --check $SRC/patch.diff 2>/dev/null || git -C $W apply --check -3 $SRC/patch.diff || { echo "FAIL: patch does not apply"; cleanup; exit 1; }
run_demo; r_without=$?
git -C $W apply $SRC/patch.diff 2>/dev/null || git -C $W apply -3 $SRC/patch.diff
for d in $demos; do mv $W/marwood/tests/$(basename $d) $W/; done      # suite unedited: demo files out of the way
(cd $W && CARGO_TARGET_DIR=/tmp/seedtarget-off timeout 2400 cargo test --workspace --no-fail-fast --offline > $W/suite.log 2>&1); r_suite=$?
suite_summary=$(grep -E "^test result" $W/suite.log | awk '{p+=$4; f+=$6} END {print p" passed, "f" failed"}')
for d in $demos; do mv $W/$(basename $d) $W/marwood/tests/; done
run_demo; r_with=$?
demo_fail=$(grep -hE "^test .* FAILED|panicked at" $W/demo-*.log | head -5 | tr '\n' ';' | cut -c1-600)
echo "$P-$N: demo without patch rc=$r_without (want 0); suite with patch rc=$r_suite [$suite_summary] (want 0); demo with patch rc=$r_with (want != 0)"
status=rejected
if [ $r_without -eq 0 ] && [ $r_suite -eq 0 ] && [ $r_with -ne 0 ]; then
  status=confirmed
  mkdir -p $DST
  cp $SRC/patch.diff $DST/; cp $demos $DST/; cp $SRC/README.md $DST/README.md 2>/dev/null
  python3 - "$P" "$N" "$suite_summary" "$demo_fail" "$names" <<'E'
import json, sys, os
P, N, suite, fail, names = sys.argv[1:6]
dst = "/verif/seeded/%s-%s" % (P, N)
meta = {"property": P, "patch": "patch.diff", "demonstration": [n + ".rs" for n in names.split()],
        "needs_to_manifest": "see README.md (written by the author of the change, who saw only the property text)",
        "confirmed_by_lead": {
            "how": "tools/confirm_seed.sh in a scratch worktree of /repo HEAD",
            "demo_without_patch": "all demo tests pass",
            "suite_with_patch_guard_off": suite,
            "demo_with_patch": "fails: " + fail},
        "detected_by": None}
old = os.path.join(dst, "meta.json")
if os.path.exists(old):
    try: meta["detected_by"] = json.load(open(old)).get("detected_by")
    except Exception: pass
json.dump(meta, open(old, "w"), indent=1)
E
fi
cleanup
echo "$P-$N $status"
[ $status = confirmed ]
